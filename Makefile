# builds the fact extractor (libTooling, clang 14) - offline, from files on disk
LLVM_CXXFLAGS := $(shell llvm-config-14 --cxxflags)
LLVM_LIBS := /usr/lib/llvm-14/lib/libclang-cpp.so.14 /usr/lib/llvm-14/lib/libLLVM-14.so

setup: build/bsa-extract

build/bsa-extract: engine/bsa_extract.cc
	mkdir -p build
	clang++ $(LLVM_CXXFLAGS) -fno-rtti -O1 engine/bsa_extract.cc -o build/bsa-extract $(LLVM_LIBS)

clean:
	rm -rf build

.PHONY: setup clean
