// Instantiation driver for the coroutine layer (property C13).
#include "common.h"

#include "babylon/coroutine/cancelable.h"
#include "babylon/coroutine/futex.h"
#include "babylon/coroutine/task.h"
#include "babylon/executor.h"

#if __cpp_concepts && __cpp_lib_coroutine

namespace bsa_driver {

using ::babylon::coroutine::Cancellable;
using ::babylon::coroutine::Futex;
using ::babylon::coroutine::Task;

Task<int> inner_int() {
  co_return 1;
}

Task<> inner_void() {
  co_return;
}

Task<int> outer(Futex& futex, ::babylon::Future<int> future, ::babylon::Future<::std::string>& shared) {
  int v = co_await inner_int();
  co_await inner_void();
  co_await futex.wait(1);
  co_await futex.wait(1).on_suspend([](Futex::Cancellation&& c) { (void)c(); });
  v += co_await ::std::move(future);
  (void)co_await shared;
  auto r = co_await Cancellable<Task<int>> {inner_int()}.on_suspend(
      [](::babylon::coroutine::BasicCancellable::Cancellation&& c) { (void)c(); });
  if (r) {
    v += *r;
  }
  auto rv = co_await Cancellable<Task<>> {inner_void()};
  (void)rv;
  co_return v;
}

void instantiate() {
  Futex futex;
  (void)futex.value();
  (void)futex.atomic_value();
  (void)futex.wake_one();
  (void)futex.wake_all();
  ::babylon::Promise<int> promise;
  ::babylon::Promise<::std::string> spromise;
  auto sfuture = spromise.get_future();
  auto& executor = ::babylon::InplaceExecutor::instance();
  auto f = executor.execute(outer, futex, promise.get_future(), sfuture);
  (void)f.get();
  auto f2 = executor.execute([]() -> Task<> { co_return; });
  f2.get();
}

} // namespace bsa_driver

#endif
