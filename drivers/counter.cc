// Instantiation driver for counters / enumerable thread locals (property C19).
#include "common.h"

#include "babylon/concurrent/counter.h"
#include "babylon/concurrent/thread_local.h"

namespace bsa_driver {

template <typename TL, typename T>
void tl_ops() {
  TL tl;
  (void)tl.local();
  tl.for_each([](T&) {});
  static_cast<const TL&>(tl).for_each([](const T&) {});
  tl.for_each_alive([](T&) {});
  static_cast<const TL&>(tl).for_each_alive([](const T&) {});
  TL moved {::std::move(tl)};
  tl = ::std::move(moved);
}

void instantiate() {
  {
    using TL = ::babylon::EnumerableThreadLocal<::std::string>;
    TL tl;
    (void)tl.local();
    (void)tl.local_fast();
    tl.for_each([](::std::string*, ::std::string*) {});
    static_cast<const TL&>(tl).for_each([](const ::std::string*, const ::std::string*) {});
    tl.for_each_alive([](::std::string*, ::std::string*) {});
    static_cast<const TL&>(tl).for_each_alive([](const ::std::string*, const ::std::string*) {});
    tl.set_constructor([](::std::string*) {});
    TL moved {::std::move(tl)};
    tl = ::std::move(moved);
    TL with_ctor {[](::std::string*) {}};
  }
  {
    // the leaky flavour (the one the counters use): its slots, its bound and its live-thread enumeration come from one allocator
    using TL = ::babylon::EnumerableThreadLocal<::std::string, true>;
    TL tl;
    (void)tl.local();
    tl.for_each([](::std::string*, ::std::string*) {});
    tl.for_each_alive([](::std::string*, ::std::string*) {});
    static_cast<const TL&>(tl).for_each_alive([](const ::std::string*, const ::std::string*) {});
  }
  tl_ops<::babylon::CompactEnumerableThreadLocal<size_t>, size_t>();
  tl_ops<::babylon::CompactEnumerableThreadLocal<int, 1, true>, int>();
  {
    ::babylon::ConcurrentAdder adder;
    adder << 1;
    (void)adder.value();
    adder.reset();
    ::babylon::GenericsConcurrentAdder<double> dadder;
    dadder << 1.5;
    (void)dadder.value();
  }
  {
    ::babylon::ConcurrentMaxer maxer;
    maxer << 1;
    (void)maxer.value();
    ssize_t v;
    (void)maxer.value(v);
    maxer.reset();
    ::babylon::ConcurrentMiner miner;
    miner << 1;
    (void)miner.value();
    miner.reset();
  }
  {
    ::babylon::ConcurrentSummer summer;
    summer << 1;
    summer << ::babylon::ConcurrentSummer::Summary {1, 1};
    (void)summer.value();
  }
  {
    ::babylon::ConcurrentSampler sampler;
    sampler << 1;
    sampler.reset();
    sampler.for_each([](size_t, const ::babylon::ConcurrentSampler::SampleBucket&) {});
  }
}

} // namespace bsa_driver
