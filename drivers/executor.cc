// Instantiation driver for the executors (property C07).
#include "common.h"

#include "babylon/executor.h"

namespace bsa_driver {

int plain_function(int x) {
  return x;
}

void instantiate() {
  auto& inplace = ::babylon::InplaceExecutor::instance();
  auto& spawn = ::babylon::AlwaysUseNewThreadExecutor::instance();
  ::babylon::ThreadPoolExecutor pool;
  pool.set_worker_number(2);
  pool.set_local_capacity(8);
  pool.set_global_capacity(8);
  pool.set_enable_work_stealing(true);
  pool.set_balance_interval(::std::chrono::milliseconds(1));
  (void)pool.start();
  ::babylon::Executor* executors[] = {&inplace, &spawn, &pool};
  for (auto* e : executors) {
    auto f1 = e->execute([](int x) { return x + 1; }, 1);
    auto f2 = e->execute(plain_function, 2);
    auto f3 = e->execute([] {});
    (void)e->submit([](int) {}, 1);
    (void)e->submit(plain_function, 3);
    (void)e->is_running_in();
    (void)f1.get();
    (void)f2.get();
    f3.get();
  }
  spawn.join();
  pool.wakeup_one_worker();
  pool.stop();
  (void)pool.initialize(2, 8);
}

} // namespace bsa_driver
