// Instantiation driver for the reusable containers (property C12).
#include "common.h"

#include "babylon/reusable/manager.h"
#include "babylon/reusable/string.h"
#include "babylon/reusable/vector.h"

#include <vector>

namespace bsa_driver {

template <typename V, typename E>
void vector_ops(V& v, const E& e, typename V::allocator_type allocator) {
  using T = typename V::value_type;
  V copy {v};
  V moved {::std::move(copy)};
  V with_alloc_copy {v, allocator};
  V with_alloc_moved {::std::move(moved), allocator};
  V counted {3, allocator};
  V filled {3, e, allocator};
  V ranged {v.begin(), v.end(), allocator};
  copy = v;
  moved = ::std::move(copy);
  v.assign(3, e);
  v.assign(filled.begin(), filled.end());
  v.assign(3);
  (void)v.get_allocator();
  (void)v[0];
  (void)v.front();
  (void)v.back();
  (void)v.data();
  (void)v.begin();
  (void)v.end();
  (void)v.cbegin();
  (void)v.cend();
  (void)v.rbegin();
  (void)v.rend();
  (void)v.empty();
  (void)v.size();
  (void)v.constructed_size();
  (void)v.capacity();
  v.reserve(10);
  v.clear();
  v.insert(v.begin(), e);
  v.insert(v.begin(), 2, e);
  v.insert(v.begin(), filled.begin(), filled.end());
  v.emplace(v.begin(), e);
  v.emplace(v.begin());
  v.erase(v.begin());
  v.erase(v.begin(), v.end());
  v.push_back(e);
  v.emplace_back(e);
  v.emplace_back();
  v.pop_back();
  v.resize(5);
  v.resize(7, e);
  v.swap(filled);
  swap(v, filled);
  typename V::AllocationMetadata metadata;
  v.update_allocation_metadata(metadata);
  V rebuilt {metadata, allocator};
  (void)(v == filled);
  (void)(v != filled);
  ::std::vector<T> plain;
  (void)(v == plain);
  (void)(plain == v);
  (void)sizeof(T);
}

void instantiate() {
  ::babylon::SwissMemoryResource resource;
  {
    ::babylon::SwissAllocator<int> allocator {resource};
    ::babylon::SwissVector<int> v {allocator};
    vector_ops(v, 1, allocator);
  }
  {
    ::babylon::SwissAllocator<::babylon::SwissString> allocator {resource};
    ::babylon::SwissVector<::babylon::SwissString> v {allocator};
    ::babylon::SwissString e {allocator};
    vector_ops(v, e, allocator);
    v.emplace_back("literal");
    v.emplace(v.begin(), "literal");
    v.resize(3, "literal");
    v.insert(v.begin(), 2, "literal");
  }
  {
    using Inner = ::babylon::SwissVector<::babylon::SwissString>;
    ::babylon::SwissAllocator<Inner> allocator {resource};
    ::babylon::SwissVector<Inner> v {allocator};
    Inner e {allocator};
    vector_ops(v, e, allocator);
  }
  {
    ::babylon::SwissAllocator<::babylon::SwissString> allocator {resource};
    ::babylon::SwissString a {allocator};
    ::babylon::SwissString b {"x", allocator};
    ::babylon::SwissString c {::std::move(b), allocator};
    ::std::string plain;
    ::babylon::SwissString d {plain, allocator};
    a = plain;
    a = c;
    a = ::std::move(c);
    a.swap(d);
    (void)(a == d);
    (void)(a == plain);
    (void)(plain == a);
    ::babylon::Reuse::AllocationMetadata<::babylon::SwissString> metadata;
    ::babylon::Reuse::update_allocation_metadata(a, metadata);
    ::babylon::Reuse::reconstruct(a, allocator);
    ::babylon::Reuse::reconstruct(a, allocator, "x");
    ::babylon::Reuse::reconstruct(a, allocator, d);
    (void)::babylon::Reuse::create_with_allocation_metadata<::babylon::SwissString>(allocator, metadata);
  }
  {
    // std containers on the monotonic allocator
    using String = ::std::basic_string<char, ::std::char_traits<char>, ::babylon::SwissAllocator<char>>;
    using Vector = ::std::vector<int, ::babylon::SwissAllocator<int>>;
    ::babylon::SwissAllocator<char> allocator {resource};
    String s {allocator};
    Vector v {::babylon::SwissAllocator<int> {resource}};
    ::babylon::Reuse::AllocationMetadata<String> sm;
    ::babylon::Reuse::AllocationMetadata<Vector> vm;
    ::babylon::Reuse::update_allocation_metadata(s, sm);
    ::babylon::Reuse::update_allocation_metadata(v, vm);
    ::babylon::Reuse::reconstruct(s, allocator);
    ::babylon::Reuse::reconstruct(v, allocator);
    (void)::babylon::Reuse::create_with_allocation_metadata<String>(allocator, sm);
    (void)::babylon::Reuse::create_with_allocation_metadata<Vector>(allocator, vm);
    int i = 0;
    ::babylon::Reuse::reconstruct(i, allocator);
    ::babylon::Reuse::reconstruct(i, allocator, 1);
  }
  {
    ::babylon::SwissManager manager;
    manager.set_recreate_interval(2);
    (void)manager.resource();
    auto s = manager.create_object<::babylon::SwissString>();
    auto v = manager.create_object<::babylon::SwissVector<::babylon::SwissString>>();
    auto custom = manager.create_object<::babylon::SwissString>([](::babylon::SwissMemoryResource& r) {
      return ::babylon::SwissAllocator<::babylon::SwissString> {r}.create();
    });
    (void)s.get();
    (void)*s;
    (void)s->size();
    (void)static_cast<bool>(s);
    (void)v->size();
    (void)custom;
    manager.clear();
  }
}

} // namespace bsa_driver
