// Instantiation driver for the monotonic memory resources (property C06).
#include "common.h"

#include "babylon/reusable/memory_resource.h"

namespace bsa_driver {

struct NonTrivial {
  ~NonTrivial() {}
  int x;
};

template <typename R>
void resource_ops(R& r) {
  (void)r.template allocate<1>(10);
  (void)r.template allocate<8>(10);
  (void)r.template allocate<64>(10);
  (void)r.allocate(10, 16);
  NonTrivial* p = nullptr;
  int* q = nullptr;
  r.register_destructor(p);
  r.register_destructor(q);
  r.register_destructor(static_cast<void*>(p), +[](void*) {});
  (void)r.get_destroy_task();
  (void)r.contains(p);
  (void)r.space_used();
  (void)r.space_allocated();
  (void)r.page_allocator();
  r.release();
}

void instantiate() {
  {
    ::babylon::ExclusiveMonotonicBufferResource r;
    resource_ops(r);
    ::babylon::ExclusiveMonotonicBufferResource moved {::std::move(r)};
    r = ::std::move(moved);
    r.set_upstream(*::std::pmr::new_delete_resource());
    r.set_page_allocator(::babylon::SystemPageAllocator::instance());
    (void)::babylon::ExclusiveMonotonicBufferResource::allocate_oversize_page_num();
  }
  {
    ::babylon::SharedMonotonicBufferResource r;
    resource_ops(r);
    ::babylon::SharedMonotonicBufferResource moved {::std::move(r)};
    r = ::std::move(moved);
  }
  {
    ::babylon::SwissMemoryResource r;
    resource_ops(r);
    ::babylon::SwissMemoryResource moved {::std::move(r)};
    r = ::std::move(moved);
    ::google::protobuf::Arena& arena = r;
    (void)arena;
    ::std::pmr::memory_resource& base = r;
    (void)base.allocate(10, 8);
  }
}

} // namespace bsa_driver
