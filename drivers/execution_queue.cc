// Instantiation driver for ConcurrentExecutionQueue (property C16).
#include "common.h"

#include "babylon/concurrent/execution_queue.h"

namespace bsa_driver {

template <typename T, typename S>
void queue_ops(const T& value) {
  using Q = ::babylon::ConcurrentExecutionQueue<T, S>;
  Q queue;
  (void)queue.initialize(16, ::babylon::InplaceExecutor::instance(),
                         [](typename Q::Iterator, typename Q::Iterator) {});
  (void)queue.capacity();
  (void)queue.size();
  (void)queue.execute(value);
  (void)queue.execute(T {value});
  (void)queue.signal_push_event();
  queue.join();
}

void instantiate() {
  queue_ops<int, ::babylon::SchedInterface>(1);
  queue_ops<::std::string, ::babylon::SchedInterface>("x");
  queue_ops<int, HeapSched>(1);
}

} // namespace bsa_driver
