// Instantiation driver for ConcurrentFixedSwissTable / ConcurrentTransientHashSet / Map (C03, C18).
#include "common.h"

#include "babylon/concurrent/transient_hash_table.h"

namespace bsa_driver {

template <typename S, typename V, typename K>
void set_ops(const V& value, const K& key) {
  S s;
  S sized {64};
  (void)s.insert(value);
  (void)s.insert(V {value});
  (void)s.emplace(value);
  (void)s.find(key);
  (void)static_cast<const S&>(s).find(key);
  (void)s.contains(key);
  (void)s.count(key);
  (void)s.size();
  (void)s.empty();
  (void)s.bucket_count();
  for (auto& v : s) {
    (void)v;
  }
  for (auto& v : static_cast<const S&>(s)) {
    (void)v;
  }
  s.clear();
  s.reserve(100);
  s.rehash(100);
  S copy {s};
  S moved {::std::move(copy)};
  copy = s;
  copy = ::std::move(moved);
  s.swap(copy);
}

void instantiate() {
  set_ops<::babylon::ConcurrentFixedSwissTable<int>>(1, 1);
  set_ops<::babylon::ConcurrentFixedSwissTable<::std::string>>(::std::string {"x"}, ::std::string {"x"});
  set_ops<::babylon::ConcurrentTransientHashSet<int>>(1, 1);
  set_ops<::babylon::ConcurrentTransientHashSet<::std::string>>(::std::string {"x"}, ::std::string {"x"});
  using Map = ::babylon::ConcurrentTransientHashMap<::std::string, int>;
  set_ops<Map>(::std::pair<const ::std::string, int> {"x", 1}, ::std::string {"x"});
  {
    Map map;
    (void)map.try_emplace("k", 1);
    (void)map["k"];
    (void)map.emplace("k", 2);
  }
  {
    ::babylon::ConcurrentTransientHashMap<int, ::std::unique_ptr<int>> map;
    (void)map.try_emplace(1, nullptr);
    (void)map[2];
    (void)map.find(1);
    (void)map.size();
    for (auto& kv : map) {
      (void)kv;
    }
  }
}

} // namespace bsa_driver
