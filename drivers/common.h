// Shared by all instantiation drivers. Drivers contain no logic and are never
// executed; they only force the template instantiations the properties
// quantify over so the extractor can see their bodies.
#pragma once
#include "babylon/concurrent/sched_interface.h"

#include <memory>
#include <string>

namespace bsa_driver {

// A scheduling interface whose futex word lives on the heap
// (futex_need_create() == true) so that the second Futex<S> specialisation is
// analysed as well.
struct HeapSched {
  constexpr static bool futex_need_create() noexcept {
    return true;
  }
  static uint32_t* create_futex() noexcept;
  static void destroy_futex(uint32_t* futex) noexcept;
  static int futex_wait(uint32_t* futex, uint32_t val,
                        const struct ::timespec* timeout) noexcept;
  static int futex_wake_one(uint32_t* futex) noexcept;
  static int futex_wake_all(uint32_t* futex) noexcept;
  static void usleep(useconds_t us) noexcept;
  static void yield() noexcept;
};

} // namespace bsa_driver
