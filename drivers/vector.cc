// Instantiation driver for ConcurrentVector (property C04; also used by C15/C19).
#include "common.h"

#include "babylon/concurrent/vector.h"

#include <vector>

namespace bsa_driver {

using ::babylon::ConcurrentVector;

template <typename V, typename T>
void all_ops(V& v, const V& cv, T& value, ::std::vector<T>& src) {
  v.reserve(10);
  (void)v.ensure(3);
  (void)v.size();
  (void)v.block_size();
  (void)v[1];
  (void)cv[1];
  v.fill_n(0, 4, value);
  v.copy_n(src.begin(), 2, 1);
  v.for_each(0, 4, [](T*, T*) {});
  cv.for_each(0, 4, [](const T*, const T*) {});
  auto s = v.snapshot();
  (void)s[0];
  (void)s.size();
  s.fill_n(0, 1, value);
  s.copy_n(src.begin(), 1, 0);
  s.for_each(0, 2, [](T*, T*) {});
  auto cs = cv.snapshot();
  (void)cs[0];
  (void)cs.size();
  cs.for_each(0, 2, [](const T*, const T*) {});
  auto rs = v.reserved_snapshot(7);
  (void)rs;
  v.gc();
  v.unsafe_gc();
  v.set_constructor([](T*) {});
  V other;
  v.swap(other);
  v = ::std::move(other);
  V third {::std::move(v)};
  V fourth {16};
  V fifth {[](T*) {}};
  V sixth {16, [](T*) {}};
}

void instantiate() {
  {
    ConcurrentVector<int> v;
    int x = 0;
    ::std::vector<int> src;
    all_ops(v, v, x, src);
  }
  {
    ConcurrentVector<::std::string> v;
    ::std::string x;
    ::std::vector<::std::string> src;
    all_ops(v, v, x, src);
  }
  {
    ConcurrentVector<::std::string, 128> v;
    ::std::string x;
    ::std::vector<::std::string> src;
    all_ops(v, v, x, src);
  }
  {
    ConcurrentVector<int, 1> v;
    int x = 0;
    ::std::vector<int> src;
    all_ops(v, v, x, src);
  }
}

} // namespace bsa_driver
