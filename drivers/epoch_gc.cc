// Instantiation driver for Epoch (C09) and GarbageCollector (C10).
#include "common.h"

#include "babylon/concurrent/epoch.h"
#include "babylon/concurrent/garbage_collector.h"

#include <functional>
#include <mutex>

namespace bsa_driver {

struct Reclaimer {
  void operator()() noexcept {}
};

template <typename R>
void gc_ops(R r1, R r2) {
  ::babylon::GarbageCollector<R> gc;
  gc.set_queue_capacity(128);
  (void)gc.start();
  (void)gc.epoch();
  gc.retire(::std::move(r1));
  gc.retire(::std::move(r2), 3);
  gc.stop();
}

void instantiate() {
  {
    ::babylon::Epoch epoch;
    epoch.lock();
    (void)epoch.tick();
    (void)epoch.low_water_mark();
    (void)epoch.accessor_number();
    epoch.unlock();
    auto accessor = epoch.create_accessor();
    accessor.lock();
    accessor.unlock();
    {
      ::std::lock_guard<::babylon::Epoch::Accessor> guard {accessor};
    }
    ::babylon::Epoch::Accessor other {::std::move(accessor)};
    accessor = ::std::move(other);
    (void)static_cast<bool>(accessor);
    accessor.release();
  }
  gc_ops<Reclaimer>({}, {});
  gc_ops<::std::function<void()>>([] {}, [] {});
}

} // namespace bsa_driver
