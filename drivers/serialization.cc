// Instantiation driver for the serialization traits (property C11).
#include "common.h"

#include "babylon/reusable/string.h"
#include "babylon/reusable/vector.h"
#include "babylon/serialization.h"

#include <array>
#include <list>
#include <unordered_map>
#include <unordered_set>

namespace bsa_driver {

enum class Color : int32_t { RED, GREEN };

struct Inner {
  int32_t i {0};
  ::std::string s;
  ::std::vector<int32_t> v;
  BABYLON_SERIALIZABLE((i, 1)(s, 2)(v, 3))
};

inline bool operator==(const Inner& l, const Inner& r) {
  return l.i == r.i && l.s == r.s && l.v == r.v;
}
struct InnerHash {
  size_t operator()(const Inner& x) const noexcept {
    return ::std::hash<int32_t> {}(x.i) ^ ::std::hash<::std::string> {}(x.s);
  }
};

// aggregates whose encoded size is / is not independent of the value (SERIALIZED_SIZE_COMPLEXITY)
struct Fixed {
  float x {0};
  double y {0};
  BABYLON_SERIALIZABLE((x, 1)(y, 2))
};
struct DerivedFixed : public Inner {
  float w {0};
  BABYLON_SERIALIZABLE_WITH_BASE((Inner, 1), (w, 2))
};
struct PtrCell {
  ::std::unique_ptr<float> p;
  ::std::shared_ptr<double> q;
  BABYLON_SERIALIZABLE((p, 1)(q, 2))
};

struct Outer : public Inner {
  Inner a;
  ::std::unique_ptr<Inner> p;
  ::std::vector<Inner> vi;
  double d {0};
  float f {0};
  uint64_t u {0};
  bool b {false};
  Color c {Color::RED};
  BABYLON_SERIALIZABLE_WITH_BASE((Inner, 1), (a, 2)(p, 3)(vi, 4)(d, 5)(f, 6)(u, 7)(b, 8)(c, 9))
};

struct Many {
  int32_t a0 {0}, a1 {0}, a2 {0}, a3 {0}, a4 {0}, a5 {0}, a6 {0}, a7 {0}, a8 {0}, a9 {0}, a10 {0};
  BABYLON_SERIALIZABLE((a0, 1)(a1, 2)(a2, 3)(a3, 4)(a4, 5)(a5, 6)(a6, 7)(a7, 8)(a8, 9)(a9, 16)(a10, 3000))
};

struct Arrays {
  int32_t ia[3] {};
  float fa[2] {};
  double da[2] {};
  ::std::string sa[2];
  Inner na[2];
  BABYLON_SERIALIZABLE((ia, 1)(fa, 2)(da, 3)(sa, 4)(na, 5))
};

struct Containers {
  ::std::list<int32_t> l;
  ::std::unordered_set<int32_t> s;
  ::std::vector<::std::string> vs;
  ::std::vector<bool> vb;
  ::std::vector<float> vf;
  ::std::unique_ptr<int32_t> pi;
  ::std::shared_ptr<int32_t> si;
  ::std::unordered_map<int32_t, ::std::string> m;
  BABYLON_SERIALIZABLE((l, 1)(s, 2)(vs, 3)(vb, 4)(vf, 5)(pi, 6)(si, 7)(m, 8))
};

// BABYLON_COMPATIBLE: fields numbered automatically
struct Compatible {
  int32_t x {0};
  ::std::string y;
  BABYLON_COMPATIBLE((x, 1)(y, 2))
};

template <typename T>
void round_trip(T& value) {
  ::std::string bytes;
  (void)::babylon::Serialization::serialize_to_string(value, bytes);
  (void)::babylon::Serialization::parse_from_string(bytes, value);
  (void)::babylon::Serialization::calculate_serialized_size(value);
  ::std::string text;
  (void)::babylon::Serialization::print_to_string(value, text);
}

template <typename T>
void round_trip_default() {
  T value {};
  round_trip(value);
}

void instantiate() {
  round_trip_default<bool>();
  round_trip_default<int8_t>();
  round_trip_default<int16_t>();
  round_trip_default<int32_t>();
  round_trip_default<int64_t>();
  round_trip_default<uint8_t>();
  round_trip_default<uint16_t>();
  round_trip_default<uint32_t>();
  round_trip_default<uint64_t>();
  round_trip_default<float>();
  round_trip_default<double>();
  round_trip_default<Color>();
  round_trip_default<::std::string>();
  round_trip_default<::std::vector<int32_t>>();
  round_trip_default<::std::vector<float>>();
  round_trip_default<::std::vector<double>>();
  round_trip_default<::std::vector<bool>>();
  round_trip_default<::std::vector<::std::string>>();
  round_trip_default<::std::vector<::std::vector<int32_t>>>();
  round_trip_default<::std::list<int32_t>>();
  round_trip_default<::std::list<::std::string>>();
  round_trip_default<Arrays>();
  round_trip_default<Compatible>();
  round_trip_default<Containers>();
  round_trip_default<::std::unordered_set<int32_t>>();
  round_trip_default<::std::unordered_set<::std::string>>();
  round_trip_default<::std::unordered_map<int32_t, ::std::string>>();
  round_trip_default<::std::unordered_map<::std::string, Inner>>();
  // a key whose writer consumes cached sizes next to a mapped type that has none (and the reverse above)
  round_trip_default<::std::unordered_map<Inner, int32_t, InnerHash>>();
  round_trip_default<::std::unordered_set<Inner, InnerHash>>();
  round_trip_default<::std::list<Inner>>();
  round_trip_default<::std::vector<Fixed>>();
  round_trip_default<::std::vector<DerivedFixed>>();
  round_trip_default<::std::vector<PtrCell>>();
  round_trip_default<::std::unique_ptr<float>>();
  round_trip_default<::std::shared_ptr<double>>();
  round_trip_default<Fixed[2]>();
  round_trip_default<::std::unique_ptr<Inner>>();
  round_trip_default<::std::vector<::std::unordered_map<Inner, int32_t, InnerHash>>>();
  round_trip_default<::std::unique_ptr<int32_t>>();
  round_trip_default<::std::unique_ptr<::std::string>>();
  round_trip_default<::std::shared_ptr<int32_t>>();
  round_trip_default<::std::shared_ptr<Inner>>();
  round_trip_default<Inner>();
  round_trip_default<Outer>();
  round_trip_default<Many>();
  {
    ::babylon::SwissMemoryResource resource;
    ::babylon::SwissAllocator<int32_t> allocator {resource};
    ::babylon::SwissVector<int32_t> rv {allocator};
    round_trip(rv);
    ::babylon::SwissString rs {::babylon::SwissAllocator<char> {resource}};
    round_trip(rs);
    ::babylon::SwissVector<::babylon::SwissString> rvs {::babylon::SwissAllocator<::babylon::SwissString> {resource}};
    round_trip(rvs);
  }
}

} // namespace bsa_driver
