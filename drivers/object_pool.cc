// Instantiation driver for ObjectPool (property C17).
#include "common.h"

#include "babylon/concurrent/object_pool.h"
#include "babylon/reusable/page_allocator.h"

namespace bsa_driver {

template <typename T>
void pool_ops() {
  ::babylon::ObjectPool<T> pool;
  pool.reserve_and_clear(4);
  pool.set_creator([] { return ::std::unique_ptr<T> {new T}; });
  pool.set_recycler([](T&) {});
  auto a = pool.pop();
  auto b = pool.try_pop();
  a = ::std::move(b);                       // Deleter move-assignment
  typename ::babylon::ObjectPool<T>::Deleter d;
  typename ::babylon::ObjectPool<T>::Deleter e {::std::move(d)};
  d = ::std::move(e);
  pool.push(::std::unique_ptr<T> {new T});
  pool.push(::std::move(a));
  (void)pool.free_object_number();
  ::babylon::ObjectPool<T> moved {::std::move(pool)};
  pool = ::std::move(moved);
}

void instantiate() {
  pool_ops<int>();
  pool_ops<::std::string>();
  ::babylon::CachedPageAllocator cached;
  void* pages[4];
  cached.allocate(pages, 4);
  cached.deallocate(pages, 4);
  ::babylon::BatchPageAllocator batch;
  (void)batch.allocate();
  ::babylon::CountingPageAllocator counting;
  (void)counting.allocate();
  ::babylon::PageHeap heap;
  heap.allocate(pages, 4);
}

} // namespace bsa_driver
