// Instantiation driver for ConcurrentBoundedQueue (properties C01, C02).
#include "common.h"

#include "babylon/concurrent/bounded_queue.h"

#include <vector>

namespace bsa_driver {

using ::babylon::ConcurrentBoundedQueue;

template <typename Q, typename T, bool C, bool W, bool K>
void single_ops(Q& q, T& v) {
  q.template push<C, W, K>(static_cast<const T&>(v));
  q.template push<C, W, K>([](T&) {});
  q.template pop<C, W, K>(v);
  q.template pop<C, W, K>(&v);
  q.template pop<C, W, K>([](T&) {});
  q.template push_n<C, W, K>(
      [](typename Q::Iterator, typename Q::Iterator) {}, 3);
  q.template pop_n<C, W, K>(
      [](typename Q::Iterator, typename Q::Iterator) {}, 3);
}

template <typename Q, typename T, bool C, bool K>
void try_ops(Q& q, T& v) {
  (void)q.template try_push<C, K>(static_cast<const T&>(v));
  (void)q.template try_push<C, K>([](T&) {});
  (void)q.template try_pop<C, K>(v);
  (void)q.template try_pop<C, K>([](T&) {});
  (void)q.template try_push_n<C, K>(
      [](typename Q::Iterator, typename Q::Iterator) {}, 3);
  (void)q.template try_pop_n<C, K>(
      [](typename Q::Iterator, typename Q::Iterator) {}, 3);
}

template <typename T, typename S>
void all_ops(ConcurrentBoundedQueue<T, S>& q, T& v, ::std::vector<T>& vec) {
  using Q = ConcurrentBoundedQueue<T, S>;
  single_ops<Q, T, true, true, true>(q, v);
  single_ops<Q, T, true, true, false>(q, v);
  single_ops<Q, T, true, false, true>(q, v);
  single_ops<Q, T, true, false, false>(q, v);
  single_ops<Q, T, false, true, true>(q, v);
  single_ops<Q, T, false, true, false>(q, v);
  single_ops<Q, T, false, false, true>(q, v);
  single_ops<Q, T, false, false, false>(q, v);
  try_ops<Q, T, true, true>(q, v);
  try_ops<Q, T, true, false>(q, v);
  try_ops<Q, T, false, true>(q, v);
  try_ops<Q, T, false, false>(q, v);
  // defaulted-flag public entries
  q.push(static_cast<const T&>(v));
  q.push([](T&) {});
  q.pop(v);
  q.pop(&v);
  q.pop([](T&) {});
  // NB: the defaulted-flag try_push(U&&)/try_push(C&&) overloads are ill-formed
  // when instantiated (they forward to try_push<true, true, true>, which takes
  // two flags) - observation O3 in DESIGN.md; they cannot be instantiated.
  (void)q.try_pop(v);
  (void)q.try_pop([](T&) {});
  q.push_n(vec.begin(), vec.end());
  q.pop_n(vec.begin(), vec.end());
  q.push_n([](typename Q::Iterator, typename Q::Iterator) {}, 2);
  q.pop_n([](typename Q::Iterator, typename Q::Iterator) {}, 2);
  q.template push_n<true, true, true>(vec.begin(), vec.end());
  q.template pop_n<true, false, false>(vec.begin(), vec.end());
  // compensating variants
  q.push_n([](typename Q::Iterator, typename Q::Iterator) {},
           [](typename Q::Iterator, typename Q::Iterator) {}, 2);
  q.pop_n([](typename Q::Iterator, typename Q::Iterator) {},
          [](typename Q::Iterator, typename Q::Iterator) {}, 2);
  // timed exclusive batch pop
  struct ::timespec ts {0, 0};
  (void)q.template try_pop_n_exclusively_until<true>(
      [](typename Q::Iterator, typename Q::Iterator) {}, 2, &ts);
  (void)q.template try_pop_n_exclusively_until<false>(
      [](typename Q::Iterator, typename Q::Iterator) {}, 2, &ts);
  q.clear();
  (void)q.reserve_and_clear(8);
  (void)q.size();
  (void)q.capacity();
  Q other {4};
  q.swap(other);
  q = ::std::move(other);
}

void instantiate() {
  {
    ConcurrentBoundedQueue<int> q;
    int v = 0;
    ::std::vector<int> vec;
    all_ops(q, v, vec);
  }
  {
    ConcurrentBoundedQueue<::std::string> q;
    ::std::string v;
    ::std::vector<::std::string> vec;
    all_ops(q, v, vec);
  }
  {
    ConcurrentBoundedQueue<int, HeapSched> q;
    int v = 0;
    ::std::vector<int> vec;
    all_ops(q, v, vec);
  }
}

} // namespace bsa_driver
