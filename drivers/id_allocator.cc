// Instantiation driver for IdAllocator / ThreadId / DepositBox (property C14).
#include "common.h"

#include "babylon/concurrent/deposit_box.h"
#include "babylon/concurrent/id_allocator.h"

namespace bsa_driver {

template <typename T>
void allocator_ops() {
  ::babylon::IdAllocator<T> allocator;
  auto id = allocator.allocate();
  allocator.deallocate(id);
  (void)allocator.end();
  allocator.for_each([](T, T) {});
}

template <typename T, typename... Args>
void box_ops(Args&&... args) {
  auto& box = ::babylon::DepositBox<T>::instance();
  auto id = box.emplace(::std::forward<Args>(args)...);
  {
    auto accessor = box.take(id);
    (void)static_cast<bool>(accessor);
    (void)*accessor;
    (void)accessor.operator->();
    typename ::babylon::DepositBox<T>::Accessor moved {::std::move(accessor)};
    accessor = ::std::move(moved);
  }
  auto* object = box.take_released(id);
  (void)object;
  box.finish_released(id);
  (void)box.unsafe_get(id);
}

void instantiate() {
  allocator_ops<uint16_t>();
  allocator_ops<uint32_t>();
  (void)::babylon::ThreadId::current_thread_id();
  (void)::babylon::ThreadId::end();
  ::babylon::ThreadId::for_each([](uint16_t, uint16_t) {});
  (void)::babylon::LeakyThreadId::current_thread_id<int>();
  (void)::babylon::LeakyThreadId::end<int>();
  ::babylon::LeakyThreadId::for_each<int>([](uint16_t, uint16_t) {});
  box_ops<int>(1);
  box_ops<::std::string>("x");
}

} // namespace bsa_driver
