// Instantiation driver for Future / Promise / CountDownLatch (property C08).
#include "common.h"

#include "babylon/future.h"

#include <chrono>

namespace bsa_driver {

using ::babylon::CountDownLatch;
using ::babylon::Future;
using ::babylon::Promise;

template <typename T, typename M, typename... Args>
void value_ops(Args&&... args) {
  Promise<T, M> promise;
  Future<T, M> future = promise.get_future();
  Future<T, M> copy = future;
  (void)future.valid();
  (void)static_cast<bool>(future);
  (void)future.ready();
  (void)promise.ready();
  promise.set_value(::std::forward<Args>(args)...);
  (void)future.get();
  (void)copy.wait_for(::std::chrono::milliseconds(1));
  (void)copy.wait_for(::std::chrono::seconds(-1));
  using R = typename Future<T, M>::ResultType;
  future.on_finish([](R&) {});
  future.on_finish([]() {});
  promise.on_finish([](R&) {});
  (void)future.then([](::std::decay_t<R>) { return 1; });
  (void)future.then([]() {});
  promise.clear();
  Promise<T, M> moved {::std::move(promise)};
  promise = ::std::move(moved);
}

void instantiate() {
  int x = 0;
  value_ops<int, ::babylon::SchedInterface>(1);
  value_ops<::std::string, ::babylon::SchedInterface>("x");
  value_ops<void, ::babylon::SchedInterface>();
  value_ops<int&, ::babylon::SchedInterface>(x);
  value_ops<int, HeapSched>(1);
  {
    Future<int> f;
    f.on_finish([](int&&) {});
  }
  {
    CountDownLatch<> latch {3};
    auto f = latch.get_future();
    latch.count_down();
    latch.count_down(2);
    CountDownLatch<> other {::std::move(latch)};
    latch = ::std::move(other);
    (void)f.get();
  }
  {
    CountDownLatch<HeapSched> latch {3};
    latch.count_down();
  }
}

} // namespace bsa_driver
