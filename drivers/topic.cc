// Instantiation driver for ConcurrentTransientTopic (property C15).
#include "common.h"

#include "babylon/concurrent/transient_topic.h"

namespace bsa_driver {

template <typename T, typename S>
void topic_ops(const T& value) {
  using Topic = ::babylon::ConcurrentTransientTopic<T, S>;
  Topic topic;
  topic.publish(value);
  topic.template publish<true>(value);
  topic.template publish<false>(value);
  topic.publish_n(3, [](typename Topic::Iterator, typename Topic::Iterator) {});
  topic.template publish_n<true>(3, [](typename Topic::Iterator, typename Topic::Iterator) {});
  topic.template publish_n<false>(3, [](typename Topic::Iterator, typename Topic::Iterator) {});
  topic.close();
  auto consumer = topic.subscribe();
  (void)consumer.consume();
  auto range = consumer.consume(4);
  (void)range.size();
  if (range.size() > 0) {
    (void)range[0];
  }
  auto cconsumer = static_cast<const Topic&>(topic).subscribe();
  (void)cconsumer.consume();
  (void)cconsumer.consume(2);
  topic.clear();
  Topic moved {::std::move(topic)};
  topic = ::std::move(moved);
}

void instantiate() {
  topic_ops<int, ::babylon::SchedInterface>(1);
  topic_ops<::std::string, ::babylon::SchedInterface>("x");
  topic_ops<int, HeapSched>(1);
}

} // namespace bsa_driver
