#!/usr/bin/env python3
"""steer.py <Cxx>: steering text for a further seed round - the mechanisms earlier seeds of the property used"""
import json, glob, re, sys
pid = sys.argv[1]
out = []
for f in sorted(glob.glob('/verif/seeded/%s-*/meta.json' % pid)):
    m = json.load(open(f))
    files = sorted({l[6:].strip() for l in open(f.replace('meta.json', 'patch.diff')) if l.startswith('+++ b/')})
    hunks = sorted({re.sub(r'^@@.*@@ ?', '', l).strip()[:70] for l in open(f.replace('meta.json', 'patch.diff')) if l.startswith('@@')} - {''})
    out.append("(%s) in %s [%s], needing: %s" % (m['id'], ', '.join(x.replace('src/babylon/', '') for x in files), ' / '.join(hunks[:3]), m['needs_to_manifest'][:260]))
print("IMPORTANT - earlier evaluators already produced the following changes for this property; yours must use a DIFFERENT mechanism at a DIFFERENT site (prefer a function, file or clause of the statement none of them touched): " + " ; ".join(out))
