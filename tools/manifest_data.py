HOOK_COMMITS = []
NOTES = ("Static analysis only. Every check decides structural necessary conditions (clauses) of its property on the "
         "current sources of /repo and does not decide the behavioural statement itself; see DESIGN.md sections 1 and 4. "
         "Exit 2 / ANALYSIS-BROKEN means the check cannot decide: a function or data member the rules are anchored on was renamed "
         "or removed, a rule matched fewer instances than its floor, a unit no longer parses, or (thorough tier) the rules no longer "
         "separate their mutant / behaviour-preserving corpus. Every property additionally carries the generic rules G1 (user-provided "
         "move/swap members transfer every data member), G2 (no value-returning function runs off its end) and G3 (a move member ending in swap(source) does not move a member out of the source first) over its anchor files. "
         "Thorough tier = quick + assert-enabled configuration + the project's own test instantiations + corpus self-test.")
PENDING = "rules for this property are not built yet in this revision of /verif (work in progress; see DESIGN.md section 8)"

CHECKS = {
 "C01": {
  "text": "Decides, for every instantiation (all CONCURRENT/USE_FUTEX_WAIT/USE_FUTEX_WAKE combinations, inline and heap futex word) of "
          "the queue functions that run a client callback on a slot, that the last slot-word observation before the callback is "
          "acquire-effective, the version advance after it is release-effective, post-dominates the callback and never precedes it, "
          "and that concurrent try_ variants run the callback only on the success edge of the ticket CAS taken after a slot observation; "
          "plus who-may-touch slot payload/reset/tickets, the version constants, the compensating batch waiting on every slot of its range, and a "
          "batch split at the ring end continuing only after its first piece was handled completely. These are necessary conditions for 'consumer sees "
          "every producer write' and 'exclusive access'; weakened orders, dropped fences, hoisted stores and ignored CAS results are "
          "invisible to the x86 test-suite but are local shape changes seen on every path. FIFO/multiset/try_-failure clauses are not decided. Also: a change of the ring geometry (reserve_and_clear writing _slot_bits) re-bases both ticket counters on every path (R11). Also: versions are 16 bits wide wherever they are produced or compared (R6d)."
          ' Also: the overloads without template flags forward CONCURRENT=true and flagged overloads hand their own value down (R12).',
  "note": "Trusted: clang 14 CFG of the host preprocessor branch; C++ memory-model reasoning that acquire-observation + release-advance on "
          "one word is the publication protocol; client callbacks opaque.",
  "technique": "static analysis: path/dominance rules over inlined CFG facts of template instantiations (custom libTooling extractor)"},
 "C02": {
  "text": "Decides the structural clauses of the sleeper/waker protocol per instantiation: a futex wait is reachable only through the "
          "success edge of the waiter-bit CAS or an observation of the bit (so the waker's test cannot miss a registered sleeper), the CAS "
          "installs observed+2^16, the single waker advances by an RMW whose result decides wake_all and cannot skip it, the batch waker "
          "re-loads behind a seq_cst fence on every path from the 16-bit stores with the 2^16 threshold, every USE_FUTEX_WAKE=true "
          "public entry reaches a waiter check after each version store on all paths, and the timed exclusive pop only waits with the "
          "caller's deadline. Each is a necessary condition: breaking it yields a 3-step window with a sleeper never woken, which the "
          "100 ms-sleep tests cannot hit. Global deadlock freedom and kernel futex behaviour are not decided. Also: no path from the futex wait back to itself avoids the recomputation of the remaining time (R5e). Also: the flag-less clear() moves slots through a waking operation (R4f)."
          ' Also: the overloads without template flags forward USE_FUTEX_WAIT / USE_FUTEX_WAKE = true and flagged overloads hand their own values down (R4g).',
  "note": "Trusted: kernel futex compare-and-block semantics; clang 14 CFG; x86-64 branch of the sources.",
  "technique": "static analysis: edge-guard / must-pass-through / provenance rules over inlined CFG facts (custom libTooling extractor)"},
 "C04": {
  "text": "Decides on every ConcurrentVector instantiation: memory orders on the block-table pointer (release-publishing CAS, acquire on "
          "failure and on every concurrent-path load); in the growth slow path the fresh table is published-or-deleted exactly once on all "
          "paths, the observed (shared) table is only ever retired, the CAS loser frees exactly the index range it created before "
          "retry/return, creation dominates publication; who may free tables / blocks / retire lists and that the retired-table deleter "
          "never frees element blocks (the address-stability clause); timed reclamation only behind a winning CAS and a true expiry test; "
          "cooling constants (min diff - 1) * unit >= 64 s on a monotonic clock. All are necessary conditions reached only on losing-CAS "
          "schedules or after 64 s, which no unit test stages. Also: a retired node is re-linked on every CAS retry, the clock is sampled after the "
          "head it is compared with, the destructor frees every block of the current table and then the table, and blocks are freed with the "
          "size / alignment / element range they were allocated with. Run-time address identity, clock behaviour and timestamp wrap are not decided.",
  "note": "Trusted: clang 14 CFG; operator new/delete; the 'counted for-loops run at least once' assumption used for dominance "
          "through the create/delete loops (growth is only entered with block_num < expect_block_num).",
  "technique": "static analysis: exactly-once dataflow, who-may-call, edge-guard and constant-algebra rules over CFG facts of template instantiations"},
 "C08": {
  "text": "Decides on every FutureContext<T,M> instantiation: set_value constructs before the acq_rel seal and before the releasing READY "
          "exchange, wakes unavoidably when the exchanged-out word shows waiters, runs callbacks only after the seal and never touches a "
          "deleted node; on_finish disposes of each callback exactly once on every path (inline under an acquire-observed SEALED head | "
          "winning push CAS | run+delete after losing to the seal) with release-publishing CAS and acquire failure order; waiters acquire on "
          "the futex word, register before sleeping, wait on the observed word and report ready only under the READY bit; the latch fires on "
          "equality of the fetch_sub result; the shared state is neither copyable nor movable. These are the racing cases (registration CAS "
          "losing to the seal, waiter registering while the setter swaps in READY) that the sleep-ordered tests never produce. Timing of "
          "wait_for and suspected S1 (waiter count never decremented) are not decided. Also: a latch constructed with 0 is born fired (R4d); then() fulfils the derived future exactly once with the callback's result, takes the future before the promise moves, and Promise::set_value pins the shared state with a local shared_ptr (R6).",
  "note": "Trusted: clang 14 CFG; kernel futex semantics; MoveOnlyFunction invocation is opaque.",
  "technique": "static analysis: exactly-once path counting, dominance, edge-guard, memory-order and use-after-release rules over CFG facts"},
 "C10": {
  "text": "Decides on GarbageCollector<R>: drain-before-exit of the collector loop (every path from a queue pop to the thread's exit passes "
          "an edge proving cursor == tasks.size(); this clause was violated by the original tree - finding F2, replayed and repaired by a "
          "fix: commit - and a regression is reported again), refill only when drained, a reclaimer runs only on the edge "
          "lowest_epoch <= low_water_mark(), the reclaimed count is incremented exactly once per invocation and is what advances the cursor, "
          "stop() pushes the default (UINT64_MAX) marker before join under joinable(), the destructor stops, retire stamps a fresh tick, "
          "and the queue flag pairing / single-consumer precondition of the non-concurrent pop. The tests only stop an already idle "
          "collector, so the batch-shared-with-marker path is never staged. Which regions are open (Epoch) is C09; schedule-level exactly-once is not decided. Also: every popped task that is not the stop marker is appended to the batch (R3g). The queue re-size clause C01.R11 is evaluated on this component's queue instantiation (Q1)."
          " Dependent clauses: the rules of the lower components (C01, C02, C09) are re-evaluated on the function instances this component's own code reaches through resolved calls (or, where the lower object is shared with this component's clients, on every instance present) and reported as '<id>.D:<lower rule>' (DESIGN.md section 3, D1).",
  "note": "Trusted: clang 14 CFG; std::thread/std::vector are opaque; the bounded queue (C01/C02) delivers what was pushed.",
  "technique": "static analysis: must-pass-through (typestate of the task buffer), edge-guard and counting rules over CFG facts; who-may-call pairing"},
 "C09": {
  "text": "Decides the shape of the Dekker pattern the epoch scheme rests on: region entry publishes a load of the global epoch into the "
          "own slot only on the outermost entry and a seq_cst fence (or seq_cst store) post-dominates that store; tick is a seq_cst RMW "
          "(or followed by a seq_cst fence) adding exactly one and returning old+1; the low-water-mark scan acquires every slot, is bounded "
          "by all ids ever allocated (IdAllocator::end / ThreadId::end) and keeps the minimum starting from UINT64_MAX; leaving "
          "release-stores UINT64_MAX only on the outermost exit with a balanced nesting counter; Accessor is move-only, swaps both "
          "fields and unregisters at most once. A weakened fence or order never shows in sequentially consistent test interleavings on "
          "x86. The sufficiency of these orders (the Dekker argument) and the non-x86 branch of tick() are not decided. Also: the scan bound is the instance's own accessor count whenever non-zero; the process-wide thread count is used only on the ==0 edge (R3e). Also: lock/unlock work on the caller's own slot, which lock ensures first; create_accessor ensures the slot it hands out (R6). Also: every write of the scan callback to the captured result folds (the callback runs once per block) (R3f)."
          " Dependent clauses: the rules of the lower components (C04, C14) are re-evaluated on the function instances this component's own code reaches through resolved calls (or, where the lower object is shared with this component's clients, on every instance present) and reported as '<id>.D:<lower rule>' (DESIGN.md section 3, D1).",
  "note": "Trusted: C++ memory model reasoning about seq_cst fences; host preprocessor branch (#if __x86_64__) only.",
  "technique": "static analysis: memory-order, fence post-dominance, edge-guard and provenance rules over CFG facts"},
 "C14": {
  "text": "Decides the shape of the versioned Treiber stack and the deposit-box take: whole-word (value,version) CAS on the free head; "
          "every push attempt installs observed.version + positive constant and links to the observed head value, recomputed after each "
          "failed CAS, with release/acquire orders; pop returns a recycled id only on the CAS-success edge, installs the popped node's "
          "link, marks ids ACTIVE before returning, mints fresh ids by one fetch_add(1), acquires every head observation; enumeration "
          "bounds are acquire loads of the counter; take_released returns the item only on the success edge of CAS(slot.version: "
          "id.version -> different value), emplace stamps the slot with the allocated version before the id leaves; finish_released only "
          "from holders of a successful take, Accessor moves keep one finisher; a thread id is allocated in the constructor and the same "
          "value returned in the destructor. An ABA or stale-version match needs a precise three-thread interleaving and is silent. "
          "Uniqueness over all interleavings is not decided. Also: IdAllocator::for_each closes a reported run, flushes the trailing run, finds run boundaries with ACTIVE_FLAG and advances pointer and id together (R6). Also: value, bound and live-id enumeration of one thread-id flavour use the same allocator instance (R5c)."
          " The thread-id destructor returns its value on every live path of every flavour (R5b; the dead arm of an if on a template flag is not a path). Dependent clauses: the rules of the lower components (C04) are re-evaluated on the function instances this component's own code reaches through resolved calls (or, where the lower object is shared with this component's clients, on every instance present) and reported as '<id>.D:<lower rule>' (DESIGN.md section 3, D1).",
  "note": "Trusted: clang 14 CFG; 64-bit lock-free atomics on VersionedValue (asserted by the platform, not by this check).",
  "technique": "static analysis: provenance (desired value derives from observed value + constant), edge-guard, dominance and memory-order rules over CFG facts"},
 "C13": {
  "text": "Decides on the coroutine futex, cancellable wrapper, promise and awaitables: a waiter is resumed only by a holder of a successful "
          "DepositBox take of its node (guard by the take result with same-variable null-test correlation; in wake_all a node whose take "
          "failed is unlinked from the resume chain), every resume is followed by exactly one finish_released, nothing touches a node after "
          "finish_released(node->id) (violated by the original tree: finding F5b, replayed and fixed), the slot emplaced for a wait is on "
          "every path handed over or released (violated by the original tree: finding F5a, replayed and fixed), list surgery and the value "
          "test run under the futex mutex, final_suspend / Task::await_suspend / the future awaitable continue exactly one party on every "
          "path, and the inline fallback resume happens exactly when the executor refused. The tests drive coroutines from one thread and "
          "never reuse a node that wake_all is still walking. Schedule-level exactly-once and run-time executor identity are not decided."
          " Dependent clauses: the rules of the lower components (C08, C14) are re-evaluated on the function instances this component's own code reaches through resolved calls (or, where the lower object is shared with this component's clients, on every instance present) and reported as '<id>.D:<lower rule>' (DESIGN.md section 3, D1)."
          ' Also: remove_awaiter repairs both links around the cancelled node (R4d).',
  "note": "Trusted: clang 14 CFG; compiler-generated coroutine frames (coroutine bodies themselves are not analysed, only the awaiter/promise protocol functions).",
  "technique": "static analysis: use-after-release, resource-flow, exactly-once path counting, lock-dominance and null-correlated edge-guard rules over CFG facts"},
 "C03": {
  "text": "Decides on every instantiation of the fixed swiss table and the growing set/map: construction, size bump and {it,true} only on "
          "the success edge of CAS(EMPTY->BUSY) taken with acquire, followed on every path by release stores of the same tag to the slot "
          "and its mirror after the construction; an acquire fence between every SIMD group load and key comparison; a CAS loser does not "
          "move its probe position before re-evaluating the loop condition; nothing constructed on failure paths and DUMMY ends the probe; "
          "a growth table is CAS-published or deleted, exactly one, with release/acquire; traversal loads of next acquire; and lookup and "
          "insertion advance their probe position identically (alpha-renamed sibling agreement - this is what catches an independently "
          "seeded change that made find walk the groups in a different order). Readers between BUSY and the publishing store, or two "
          "inserters at one empty slot, are never staged by the tests. Linearizability and SIMD matching are not decided. Also: the slot claim is made on the control byte indexed exactly like the element constructed, never on its mirror (R1f). Also: the success flag of the chain-level emplace is the .second of the table-level emplace that produced the returned position (R5e).",
  "note": "Trusted: clang 14 CFG; Group::match*/SIMD helpers opaque; std::hash.",
  "technique": "static analysis: edge-guard, fence-between, exactly-once, resource-flow and sibling-agreement rules over CFG facts of template instantiations"},
 "C18": {
  "text": "Decides on the growing set/map: every loop over the table chain advances its node pointer along that node's own next; an iterator "
          "handed out for traversal carries the successor of exactly the node whose table produced its position (flow-sensitive "
          "reaching-definitions provenance); the default-constructed placeholder head is never counted through bucket_count() in an "
          "element count and empty() is not answered from the head alone (all three violated by the original tree: finding F1, replayed "
          "and fixed); rebuild paths iterate through begin()/end() and size the target from size(); user-provided move/swap members "
          "transfer every field. None of the unit tests iterates, copies or reserves a set that grew from the default state. Equality "
          "with std::unordered_set over histories is not decided. Also: a table iterator is compared only with the end() of the table it came from (R8). Also: total_size counts the table whose successor it has just examined (R2c)."
          " Dependent clauses: the rules of the lower components (C03) are re-evaluated on the function instances this component's own code reaches through resolved calls (or, where the lower object is shared with this component's clients, on every instance present) and reported as '<id>.D:<lower rule>' (DESIGN.md section 3, D1).",
  "note": "Trusted: clang 14 CFG; the fixed table's own iteration (find_first_non_empty) is not analysed.",
  "technique": "static analysis: traversal-progress, flow-sensitive provenance, special-member completeness and who-sizes-from-what rules over CFG facts"},
 "C06": {
  "text": "Decides the resource-flow and ordering clauses of the monotonic resources: every page from the page allocator is stored into a "
          "page-array slot on all paths; every oversize block is recorded with exactly the size/alignment expressions passed upstream (not "
          "re-assigned in between); release destructs before returning memory, hands the page allocator a local copy of the pointers, "
          "returns oversize blocks with the recorded triple, zeroes the accounting; the shared variant destructs all before releasing any; "
          "the swiss variant drops the arena pointer first; destruct_all pairs each task's destructor with its pointer and advances along "
          "the chain; user-provided move members transfer every member and data-carrying base (violated by the original tree: finding F3, "
          "replayed and fixed); constant indices agree with the capacity of the in-page arrays. A block returned with the wrong size, twice "
          "or never is visible only with an instrumented allocator over long histories. Block disjointness / alignment arithmetic / overlap "
          "with in-page bookkeeping are numeric and explicitly not decided. Also: when a move member exchanges the block bookkeeping, the allocators release() hands blocks back to are exchanged with it (R4b). Also: release() does not read a bookkeeping array again after a block of its own group went back while the chain head still names it (R2h). Also: EnumerableThreadLocal<ExclusiveMonotonicBufferResource> moves its cache key with its storage (R4c)."
          " Dependent clauses: the rules of the lower components (C04, C14, C19) are re-evaluated on the function instances this component's own code reaches through resolved calls (or, where the lower object is shared with this component's clients, on every instance present) and reported as '<id>.D:<lower rule>' (DESIGN.md section 3, D1).",
  "note": "Trusted: clang 14 CFG; PageAllocator and std::pmr upstream are opaque; SanitizerHelper calls are value-transparent helpers.",
  "technique": "static analysis: resource-flow (acquire -> register on all paths), expression agreement with reaching definitions, ordering/dominance, "
               "special-member completeness and constant/capacity agreement over CFG facts"},
 "C17": {
  "text": "Decides role agreement and discipline of the page-allocator / object-pool layer: the cached allocator's allocate pops, its primary "
          "callback only moves pages out (advancing the cursor), its reverse callback only allocates upstream, the tail allocates the "
          "rest, the batch is bounded by the queue capacity - and deallocate is the exact mirror; destructors drain to upstream; counting "
          "wrappers add what their siblings subtract and forward their own arguments; no value-returning member can run off its end "
          "(violated by the original tree: finding F4, replayed and fixed); ObjectPool::push recycles exactly once before enqueueing, pop "
          "binds the deleter to the pool and empties the slot, the deleter pushes only to a non-null pool; per-mode queue flag pairing; "
          "Deleter moves transfer the pool pointer. The compensating paths run only when the cache is exactly full/empty under "
          "contention, and a duplicated page is silent corruption. Exact conservation inside the pointer-arithmetic callbacks under "
          "interleavings is not decided. The queue re-size clause C01.R11 is evaluated on this component's queue instantiations (Q1)."
          " Dependent clauses: the rules of the lower components (C01, C02) are re-evaluated on the function instances this component's own code reaches through resolved calls (or, where the lower object is shared with this component's clients, on every instance present) and reported as '<id>.D:<lower rule>' (DESIGN.md section 3, D1)."
          ' Also: BatchPageAllocator refills its thread-local buffer only behind an edge that implies the buffer is empty (R1i).',
  "note": "Trusted: clang 14 CFG; the bounded queue's compensating batch operations (C01) deliver each slot to exactly one callback.",
  "technique": "static analysis: role/sibling agreement of callbacks (resolved callees in lambda bodies), fall-off-end CFG rule, exactly-once counting, who-may-call pairing"},
 "C07": {
  "text": "Decides on the three executors: every type-erased task is invoked inside a live RunnerScope of the executing executor; stop() "
          "clears the flag, joins the balancer, then pushes one STOP per worker (same container bounds the marker loop and the join loop), "
          "then joins; the destructor stops; the worker switch handles every TaskType enumerator, invokes FUNCTION tasks exactly once, "
          "leaves only on STOP, and reaches the blocking global pop only after its local pop failed; execute() yields an invalid future "
          "exactly when invoke refused, submit(CoroutineTask) binds the executor first and destroys the frame exactly on refusal; the "
          "sleeping global pop is woken by every global push and the non-atomic local push is reachable only behind is_running_in() "
          "through the thread-local queue. A dropped task shows only as a future that never becomes ready. That an accepted task runs "
          "under every interleaving with steal/balance is not decided. Also: a task stolen inside the per-block steal sweep is dispatched before any further pop into the same variable, across callback invocations and after the sweep (R3e/R3f). Also: enqueue_task reports success only behind a blocking push or the success edge of a try_push (R3g). The queue re-size clause C01.R11 is evaluated on this component's queue instantiation (Q1). Also: the new-thread executor counts a task before its thread exists and un-counts it after it ran; join() returns only on an acquire observation of zero (R7)."
          " Dependent clauses: the rules of the lower components (C01, C02, C08, C19) are re-evaluated on the function instances this component's own code reaches through resolved calls (or, where the lower object is shared with this component's clients, on every instance present) and reported as '<id>.D:<lower rule>' (DESIGN.md section 3, D1)."
          ' Also: leaving a RunnerScope restores the executor its constructor saved from current() (R1c).',
  "note": "Trusted: clang 14 CFG; std::thread; the bounded queue (C01/C02). Observation O4 (coroutine execute ignores a refused submit) is outside the quantifier and not armed.",
  "technique": "static analysis: scope-dominance, ordering, switch exhaustiveness over the enum's enumerators, edge-guard and who-may-call pairing rules over CFG facts"},
 "C16": {
  "text": "Decides on ConcurrentExecutionQueue<T,S>: every value of the expected event count that can reach the consumer's exit "
          "CAS(events: expected -> 0) was read before a poll of the queue (reaching-definitions + must-pass-through a pop), the loop "
          "leaves only on the CAS-success edge, a failed exit CAS polls again, release/acquire on the counter; producers push before "
          "signalling and launch a consumer exactly on fetch_add result == 0; a refused launch is rolled back by CAS to 0, -1 only after "
          "that CAS succeeded, a failed roll-back retries the launch; the non-concurrent pop has one call site. The stranded-item window "
          "(publish after the last empty poll, before the counter reset) and launch failures are interleaving- and fault-dependent. "
          "Per-producer order and exclusivity of the consume function at run time are not decided. Also: join() returns only on a zero counter, the consumer feeds the installed function, initialize installs executor and function on every path (R2d-f); the queue's re-size clause C01.R11 on this instantiation (Q1)."
          " Dependent clauses: the rules of the lower components (C01, C02) are re-evaluated on the function instances this component's own code reaches through resolved calls (or, where the lower object is shared with this component's clients, on every instance present) and reported as '<id>.D:<lower rule>' (DESIGN.md section 3, D1).",
  "note": "Trusted: clang 14 CFG; Executor::submit semantics (0 = accepted).",
  "technique": "static analysis: reaching-definitions + must-pass-through, edge-guard and memory-order rules over CFG facts"},
 "C15": {
  "text": "Decides on every ConcurrentTransientTopic<T,S> instantiation: in the per-block publish step callback -> release fence -> status "
          "stores over every slot [begin,end) -> seq_cst fence -> waiter re-load/wake over every slot, on all paths; concurrent publishers "
          "claim indices by one fetch_add(num) and publish exactly [claimed, claimed+num); close stores CLOSED at the next event index, "
          "seq_cst fence, waiter check; a consumer counts only slots seen PUBLISHED, stops at CLOSED, sleeps otherwise, advances by the "
          "count and an acquire fence separates the relaxed status reads from handing out items; a sleeper waits only after setting or "
          "seeing the waiter bit, installs observed+2^16; the waker's threshold is 2^16 and wake_all is unavoidable when a sleeper is "
          "seen; clear resets every slot word and the index. The consumer-registers-while-publisher-wakes window is never staged by the "
          "tests and a missed wake-up is a hang. Order across blocks and consumer termination are not decided. Also: CLOSED ends the per-block slot walk for all following blocks, and the range handed out is (cursor before the advance, count) over the window [cursor, cursor+num) (R3f/R3g)."
          " Also: publish / publish_n without a CONCURRENT argument forward true, flagged ones hand the flag down (R7). Dependent clauses: the rules of the lower components (C04) are re-evaluated on the function instances this component's own code reaches through resolved calls (or, where the lower object is shared with this component's clients, on every instance present) and reported as '<id>.D:<lower rule>' (DESIGN.md section 3, D1).",
  "note": "Trusted: clang 14 CFG; kernel futex; ConcurrentVector snapshot/for_each block iteration (C04).",
  "technique": "static analysis: fence-between / ordering / edge-guard / range-agreement rules over inlined CFG facts"},
 "C19": {
  "text": "Decides on the thread-local / counter layer: a compact thread-local zeroes its offset in every thread's line (for_each over all "
          "slots ever used) before returning its instance id, and derives storage index and offset from the same fresh id with the same "
          "divisor; the per-thread cache is keyed by an id minted by fetch_add, id and item are written together after the slot exists, the "
          "fast path uses the cached item only under id equality; aggregate readers sum over for_each (bounded by ThreadId::end), never "
          "for_each_alive (live-id enumeration); the comparer's reset only bumps the version, a stale-version write overwrites value and "
          "version, readers skip stale slots; the adder does a plain read-add-write on its own slot and reset zeroes all; move members "
          "transfer every field. Slot recycling across generations of threads / instances needs long create-destroy histories the tests do "
          "not produce. Exactness of sums under concurrent readers is not decided. Also: reset() of the aggregates walks every slot ever used, like value() (R3a). Also: the summer's sample is (value,1) through the pair overload and the pair update is one 128-bit own-slot = own-slot + argument (R5c/R5d). Also: value, bound and live-id enumeration of one thread-id flavour use the same allocator instance (R3c)."
          " Dependent clauses: the rules of the lower components (C04, C14) are re-evaluated on the function instances this component's own code reaches through resolved calls (or, where the lower object is shared with this component's clients, on every instance present) and reported as '<id>.D:<lower rule>' (DESIGN.md section 3, D1).",
  "note": "Trusted: clang 14 CFG; ConcurrentVector (C04) and IdAllocator (C14).",
  "technique": "static analysis: ordering/dominance, resolved-callee (who sums over what), edge-guard and special-member completeness rules over CFG facts"},
 "C20": {
  "text": "Decides the page-conservation and hand-off clauses of the logging path: the writer (and discard) collect the iov_base of every "
          "iovec into one vector, return it whole by deallocate(v.data(), v.size()), then clear both vectors on every path, with one chunk "
          "size bounding collection, writev and iterator advance; each page-table page is emitted once with length 0 right after its data "
          "pages and before moving to the next table; the stream buffer stores every allocated page into the current slot, links a fresh "
          "table exactly once (head or last->next), saves the data page in the head slot before overwriting it and terminates the chain; "
          "the writer thread can exit after a pop only through the write-out of that pop's entries, the size-0 marker is what the consumer "
          "tests, close pushes it before join, the destructor closes. Page conservation across the asynchronous hand-off is a property of "
          "all interleavings and of entry lengths no test enumerates. The inline/page-table boundary arithmetic, per-thread order in the "
          "file and partial writev are not decided; observation O1 (close()'s sleeping push vs. the non-waking consumer) is printed as a NOTE. Also: begin() resets every field the streaming methods write, end() syncs, and a file's destination index is the position its destination is appended at (R2i/R2j/R4d). The queue re-size clause C01.R11 is evaluated on this component's queue instantiation (Q1)."
          " Also: every begin() of the asynchronous stream's buffer is preceded by binding the buffer to the appender's current page allocator (R2k). Dependent clauses: the rules of the lower components (C01, C02, C17) are re-evaluated on the function instances this component's own code reaches through resolved calls (or, where the lower object is shared with this component's clients, on every instance present) and reported as '<id>.D:<lower rule>' (DESIGN.md section 3, D1).",
  "note": "Trusted: clang 14 CFG; writev/FileObject opaque; PageAllocator opaque; the appender queue (C01/C02).",
  "technique": "static analysis: resource-flow, must-pass-through, exactly-once linking and ordering rules over CFG facts"},
 "C11": {
  "text": "Decides the structural clauses of the serialization property over every SerializeTraits specialisation, helper and "
          "macro-generated aggregate that an instantiation driver reaches (all scalars, enum, string, vector/list/T[N]/set/map, "
          "unique_ptr/shared_ptr, aggregates with and without base, cached totals, field numbers up to two-byte tags, ReusableVector), "
          "in the NDEBUG and debug configurations: the writer's output operations, the size function's terms and the reader's input "
          "operations agree kind by kind (value-domain aware for varints), the declared WIRE_TYPE is the one the writes imply, field "
          "framing is tag, length iff length-delimited, payload in writer, reader and both sizing passes, an empty field is neither "
          "written nor sized, macro-generated writer/sizer/cached-sizer/reader agree member by member on field number, wire type, tag "
          "size and cache slot and unknown field numbers go to consume_unknown_field, which skips exactly by wire type and rejects the "
          "rest; every input read decides a failing return; PushLimit/PopLimit pair on all paths with 0 on a failed length read; memory "
          "reserved from the input is bounded by the bytes present; container loops end on GetDirectBufferPointer (BytesUntilLimit is -1 "
          "without a limit: finding F6, replayed, fixed upstream-style and now guarded by R5/R7); smart pointers create the pointee only "
          "on non-empty input. These are universally quantified over types and presentations the tests sample with a few literals. "
          "Round-trip value equality, byte-exact protobuf interoperability and the behaviour on each malformed input are not decided. Also: SERIALIZED_SIZE_CACHED is monotone along nesting - a writer that calls a cached-size writer declares the flag (R9d). Also: a trait declaring SERIALIZED_SIZE_COMPLEXITY_TRIVIAL has a size function that neither branches on the value nor calls a non-TRIVIAL trait (R10; finding F11, fixed).",
  "note": "Trusted: clang 14 CFG and template instantiation; protobuf's CodedInputStream/CodedOutputStream contracts (ReadVarint32 consumes a "
          "whole varint; BytesUntilLimit() == -1 without limit); the driver's instantiation set stands for 'all supported types' "
          "(protobuf MessageLite delegation is a one-line forward and not instantiated).",
  "technique": "static analysis: sibling-agreement (writer/sizer/reader), constant-algebra over evaluated tags, error-discipline edge-guards and push/pop pairing over CFG facts of instantiated templates"},
 "C12": {
  "text": "Decides the structural clauses behind 'clearing keeps capacity' and 'elements beyond size stay constructed' over "
          "ReusableVector<int | SwissString | ReusableVector<SwissString>>, MonotonicBasicString, the ReusableTraits siblings and "
          "ReusableManager, instantiated through the public API: clear() only resets the size; the capacity is only replaced by a "
          "provably larger value and the constructed size only incremented; no shrinking operation destroys an element; raw "
          "constructions pair one to one with increments of the constructed size; every re-use (reconstruct / move-assign) of a slot "
          "is guarded strictly below, and every raw construction at or above, a bound derived from the constructed size (min/max "
          "forms and decrement-before-use recognised, wrong field = violation, unrecognised shape = cannot decide); constructors "
          "build what they record; the manager either re-creates (update* < release < recreate*, counter reset) or clears, accessors "
          "hold the slot address and re-read it; allocation metadata only grows (max(old,current)), covers every constructed element "
          "and is consumed on re-creation; an argument that may alias an element is consumed before anything relocates or shifts "
          "(finding F8: emplace_back repaired, emplace/insert/resize(value) listed as known findings); reconstruct of a clearable "
          "type clears. The boundary combinations of size/constructed/capacity are reached only by operation sequences no test "
          "enumerates. Equivalence with std::vector/std::string, the index arithmetic of the shifting loops and zero growth at "
          "convergence are not decided. Also: the walk collecting element capacities of repeated string/message fields is bounded by size()+ClearedCount() (R4d)."
          ' Also: operator= / assign append only behind a reset of the size (clear, delegation to another assign, swap) on every path (R7).',
  "note": "Trusted: clang 14 CFG and template instantiation; the monotonic allocator (C06); protobuf message traits are not instantiated "
          "(they need a generated message type).",
  "technique": "static analysis: who-may-write / monotone-update rules, construct-increment pairing, edge-guard classification against the constructed boundary, ordering (update < release < recreate), sibling agreement and argument-use-after-relocation reachability over CFG facts of instantiated templates"},
 "C05": {
  "text": "Decides the single-winner shape of the anyflow run-time: every 'now runnable / now finished' decision is an equality test on the "
          "result of the RMW that changed the counter, evaluated flow-sensitively (GraphVertex::ready = acq_rel fetch_sub(1) == 1; "
          "GraphDependency::ready reports only on its own count == 0 and activates a conditional target only on == 1; "
          "GraphDependency::activate switches on its fetch_add result and reports 'satisfied' only in cases -1/0; GraphVertex::activate "
          "queues itself only behind the winning CAS on _activated and a zero count; closure finish/flush on == 0); who may write the "
          "dependency counter / invoke a vertex / run a processor; invoke runs-inline | hands-to-executor(+done(-1) on refusal) | flushes, "
          "exactly one on every path; vertex closures add one pending vertex and subtract exactly once; release notifies successors only "
          "behind the releasing seal CAS, ready() acquires, bind counts before and rolls back exactly on a lost CAS; every field a run "
          "writes is reset. The orderings of activate/condition-ready/target-ready are produced by the scheduler, never by the tests. The "
          "value-level correctness of the +1/+2 protocol over all orderings and equality with a reference evaluation are not decided. Also: reset() restores every run-written field on every path (R6c)."
          " Also: every store to GraphDependency::_ready that is not constant false is a conjunction with, or sits behind the true edge of, established() / check_established() (R7). Dependent clauses: the rules of the lower components (C08) are re-evaluated on the function instances this component's own code reaches through resolved calls (or, where the lower object is shared with this component's clients, on every instance present) and reported as '<id>.D:<lower rule>' (DESIGN.md section 3, D1).",
  "note": "Trusted: clang 14 CFG; GraphExecutor::run and processors are virtual/opaque; builder-time configuration is outside the rules.",
  "technique": "static analysis: flow-sensitive edge-guard (equality on RMW results), exactly-once counting, who-may-call and reset-completeness rules over CFG facts"},
}
NOT_APPLICABLE = {("C%02d" % i): PENDING for i in range(1, 21) if ("C%02d" % i) not in CHECKS}
