#!/usr/bin/env python3
"""keep_seed.py <Cxx> <suffix-or-''> <seed-id> <needs> <caught_by> : copy a confirmed seeded change into /verif/seeded/<id>/"""
import json, os, shutil, sys
pid, suf, sid, needs, caught = sys.argv[1:6]
w = "/tmp/seedwork_%s%s" % (pid, suf)
d = "/verif/seeded/%s" % sid
os.makedirs(d, exist_ok=True)
shutil.copy(os.path.join(w, "patch.diff"), d)
shutil.copy(os.path.join(w, "demo.cc"), d)
if os.path.exists(os.path.join(w, "NOTES.md")):
    shutil.copy(os.path.join(w, "NOTES.md"), d)
meta = {
    "property": pid, "id": sid, "needs_to_manifest": needs,
    "origin": "independent sub-agent given only the property text and a scratch worktree",
    "confirmed": "tools/confirm_seed.sh %s %s: worktree diff == patch.diff, incremental build ok, full ctest passed, "
                 "demo exits non-zero with the change and 0 without" % (pid, suf),
    "ran": ["cmake --build _build -j16", "ctest --test-dir _build -j8 --timeout 900", "demo with / without"],
    "detected_by": caught,
}
json.dump(meta, open(os.path.join(d, "meta.json"), "w"), indent=1)
print("kept", d)
