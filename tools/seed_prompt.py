#!/usr/bin/env python3
"""print the sub-agent prompt for seeding a breaking change of property <Cxx> (worktree must exist)"""
import json, sys
pid = sys.argv[1]
variant = sys.argv[2] if len(sys.argv) > 2 else ""
wt = "/tmp/seed_%s%s" % (pid, variant)
for l in open("/verif/properties.jsonl"):
    p = json.loads(l)
    if p["id"] == pid:
        break
extra = " ".join(sys.argv[3:])
print(f"""You are helping evaluate a verification effort for the C++ library baidu/babylon. Your job: produce ONE realistic source change to the library that BREAKS the semantic property below while the library still compiles and the project's existing test-suite still passes, plus a demonstration program that fails with your change and passes without it.

Your private scratch git worktree of the repository is {wt} (a worktree of /repo at its current HEAD). Work ONLY inside {wt} (and scratch files under {wt} or /tmp/seedwork_{pid}{variant}). Do NOT read or touch /verif, and do NOT modify /repo itself. There is no network.

PROPERTY {p['id']}: {p['title']}
Statement: {p['statement']}
Quantifier: {p['quantifier']['text']}
Why the tests cannot settle it: {p['why_tests_cant']}
Relevant files: {', '.join(p['anchors']['files'])}
Mechanisms meant to make it hold: {json.dumps(p['anchors']['mechanism'], ensure_ascii=False)}

Requirements for the change:
- It must be a plausible regression a maintainer could introduce (a refactor slip, an 'optimisation', a weakened memory order, a reordered pair of statements, a forgotten field/case, an off-by-one, a dropped check...), touching only files under src/babylon. Keep it small (a few lines).
- It must need something SPECIFIC to manifest: a particular thread interleaving, a crash/fault at a particular point, a multi-step sequence of operations, an unusual input or configuration, or two cooperating sites that each look fine alone. It must NOT be something ordinary use exposes at once (the existing tests must still pass).
- The library and ALL tests must still compile and the existing test suite must still pass with the change. {extra}

How to build and test (offline; ccache is configured and primed, so the first full build is mostly cache hits; use -j16 and keep the ccache launcher flag exactly as given):
  cd {wt} && PATH=/root/miniconda/bin:$PATH cmake -G Ninja -B _build -DCMAKE_BUILD_TYPE=RelWithDebInfo -DCMAKE_CXX_FLAGS=-Wno-error -DBUILD_TESTING=ON -DCMAKE_CXX_COMPILER_LAUNCHER=ccache >/dev/null && cmake --build _build -j16 2>&1 | tail -3
  ctest --test-dir {wt}/_build -j8 --timeout 900 2>&1 | tail -15
(Some tests named *press* or timing-related are known flaky even on the unchanged tree; a failure that also occurs, intermittently, without your change does not count against you, but say so.) Always run any program you compile under `timeout 120` so a hang cannot block you.

The demonstration: a small standalone C++ program (or gtest-free test) demo.cc that links against the built library and exits 0 when the property holds and non-zero (or hangs -> use a watchdog/alarm so it exits non-zero) when it is violated. It may use sleeps, hooks via `-fno-access-control`, a custom SchedInterface / PageAllocator / executor, many iterations, or a deliberately staged interleaving to make the failure (nearly) deterministic. Example build line:
  g++ -std=gnu++20 -O2 -DNDEBUG -w -I{wt}/src -isystem /root/miniconda/include demo.cc -L{wt}/_build -lbabylon -L/root/miniconda/lib -Wl,-rpath,/root/miniconda/lib -labsl_base -labsl_time -lprotobuf -lpthread -o demo
Show that demo fails (non-zero) with your change and passes (exit 0) on the unchanged code (e.g. `git stash` / rebuild, or build the demo against /repo/src and /repo/_build/libbabylon.a for the 'without' run when the change is header-only).

Deliverables (write them as files, then summarise in your final message):
  /tmp/seedwork_{pid}{variant}/patch.diff   - `git -C {wt} diff` of your change (only src/ changes)
  /tmp/seedwork_{pid}{variant}/demo.cc      - the demonstration
  /tmp/seedwork_{pid}{variant}/NOTES.md     - what the change is, why it breaks the property, exactly what it needs in order to manifest, the exact commands you ran (build, ctest result line, demo with/without), and their results.
Leave the worktree with your change applied and built. In your final message state: the one-paragraph description, whether ctest passed (numbers), and demo results with/without.""")
