#!/usr/bin/env python3
"""regenerates /verif/MANIFEST.json from tools/manifest_data.py (keeps it valid at all times)"""
import json, os, sys
HERE = os.path.dirname(os.path.abspath(__file__))
sys.path.insert(0, HERE)
import manifest_data as D

checks = []
for pid, c in sorted(D.CHECKS.items()):
    checks.append({
        "property_id": pid,
        "quick_cmd": "./check %s --tier quick" % pid,
        "thorough_cmd": "./check %s --tier thorough" % pid,
        "evidence_file": "/verif/evidence/%s.json" % pid,
        "replay_cmd_template": "./check %s --replay {path}" % pid,
        "engine": "bsa",
        "level_claimed": {"category": "other", "text": c["text"], "design_ref": c.get("ref", "DESIGN.md section 4 " + pid)},
        "level_note": c["note"],
        "technique": c["technique"],
    })
m = {
    "version": 1,
    "setup_cmd": "make -C /verif setup",
    "hooks": {
        "guard": "BABYLON_VERIF_SA",
        "enable": "no hooks are used: the analysis reads the unmodified sources of /repo (the guard name is reserved only)",
        "baseline_off_cmd": "cmake --build /repo/_build && ctest --test-dir /repo/_build -j8 --timeout 900",
        "source_commits": D.HOOK_COMMITS,
        "add_only": True,
    },
    "engines": [{
        "name": "bsa",
        "path": "/verif/engine",
        "serves_properties": sorted(D.CHECKS.keys()),
        "kind_free_text": "custom static analysis: libTooling (clang 14) fact extractor over CFGs of all template "
                          "instantiations + python rule engine (dominance / reachability / effect / who-may-call / "
                          "sibling-agreement rules), plus compile-time witnesses",
    }],
    "checks": checks,
    "not_applicable": [{"property_id": k, "reason": v} for k, v in sorted(D.NOT_APPLICABLE.items())],
    "notes": D.NOTES,
}
json.dump(m, open(os.path.join(os.path.dirname(HERE), "MANIFEST.json"), "w"), indent=1)
print("MANIFEST.json: %d checks, %d not_applicable" % (len(checks), len(m["not_applicable"])))
