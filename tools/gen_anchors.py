#!/usr/bin/env python3
"""gen_anchors.py: from rename_sweep_results.json, (re)write the ANCHORS table at the end of each rule module: every
function name whose renaming made a rule report a violation is declared as a name anchor, with the classes (of the
property's anchor files) that define it. core.check_anchor_names turns a vanished anchor into exit 2."""
import importlib, json, os, re, shutil, sys, tempfile
VERIF = os.path.dirname(os.path.dirname(os.path.abspath(__file__)))
sys.path.insert(0, os.path.join(VERIF, "engine")); sys.path.insert(0, os.path.join(VERIF, "rules"))
from bsa import core
from bsa.facts import FactBase
res = json.load(open(os.path.join(VERIF, "rename_sweep_results.json")))
fres = {}
if os.path.exists(os.path.join(VERIF, "rename_sweep_fields_results.json")):
    fres = json.load(open(os.path.join(VERIF, "rename_sweep_fields_results.json")))
for prop in sorted(set(res) | set(fres)):
    v = res.get(prop, {})
    names = v.get("false_alarms", [])
    fnames = fres.get(prop, {}).get("false_alarms", [])
    path = os.path.join(VERIF, "rules", prop + ".py")
    src = open(path).read()
    old = {}
    m = re.search(r"\n# name anchors.*?\nANCHORS = (\{.*?\n\})\n", src, re.S)
    if m:
        old = eval(m.group(1))
        src = src[:m.start()] + src[m.end():]
    if not names and not fnames and not old:
        continue
    mod = importlib.import_module(prop)
    files = core.anchor_files(prop)
    d = tempfile.mkdtemp(dir="/dev/shm")
    try:
        fb = FactBase(core.extract(mod.units("quick"), d))
        table = dict(old)
        for n in names:
            recs = set()
            for fn in fb.all_fns():
                if fn.name == n and fn.file in files and not fn.lambda_:
                    base = re.sub(r"<.*", "", fn.record or fn.qname.rsplit("::", 1)[0])
                    recs.add("^" + re.escape(base) + r"(<|$)")
            table[n] = sorted(set(table.get(n, [])) | recs) or [None]
        for n in fnames:
            recs = set()
            for rname, rec in fb.records().items():
                if rec.get("file") in files and any(f.get("name") == n for f in rec.get("fields", [])):
                    recs.add("^" + re.escape(re.sub(r"<.*", "", rname)) + r"(<|$)")
            table[n] = sorted(set(table.get(n, [])) | recs) or [None]
    finally:
        shutil.rmtree(d, ignore_errors=True)
    block = "\n# name anchors (validated by tools/rename_sweep.py; a vanished name is exit 2, see core.check_anchor_names)\nANCHORS = {\n"
    for n in sorted(table):
        block += "    %r: %r,\n" % (n, table[n])
    block += "}\n"
    open(path, "w").write(src.rstrip("\n") + "\n\n" + block)
    print(prop, len(table), "anchors")
