#!/bin/bash
# confirm_seed.sh <Cxx> [suffix]: re-run, in the sub-agent's scratch worktree, everything a seeded change
# claims: (1) worktree diff == patch.diff and touches only src/, (2) ctest passes, (3) demo fails with
# the change (built against the worktree) and passes without (built against /repo + /repo/_build).
P=$1; S=$2; WT=/tmp/seed_$P$S; W=/tmp/seedwork_$P$S
set -u
cd $WT || exit 2
echo "== diff files:"; git diff --stat | tail -3
git diff > /tmp/confirm_$P$S.diff; diff -q /tmp/confirm_$P$S.diff $W/patch.diff >/dev/null && echo "patch.diff matches worktree" || echo "NOTE: patch.diff differs from worktree diff (using worktree diff)"
echo "== incremental build"; cmake --build _build -j16 2>&1 | tail -1
[ -n "${SKIP_CTEST:-}" ] || { echo "== ctest"; ctest --test-dir _build -j8 --timeout 900 2>&1 | tail -4; }
LINK="-L/root/miniconda/lib -Wl,-rpath,/root/miniconda/lib -labsl_base -labsl_time -lprotobuf -lpthread"
EXTRA=$(grep -h "^// *EXTRA_FLAGS:" $W/demo.cc | sed 's/^.*EXTRA_FLAGS://')
[ -n "$EXTRA" ] || EXTRA="-Wl,--no-as-needed -labsl_str_format_internal -labsl_time_zone -labsl_civil_time -labsl_hash -labsl_raw_hash_set -labsl_city -labsl_low_level_hash -labsl_throw_delegate -labsl_strings -labsl_strings_internal -labsl_int128 -labsl_raw_logging_internal -labsl_spinlock_wait -labsl_synchronization"
for mode in with without; do
  if [ $mode = with ]; then SRC=$WT/src; LIB=$WT/_build; else SRC=/repo/src; LIB=/repo/_build; fi
  g++ -std=gnu++20 -O2 -DNDEBUG -w $EXTRA -I$SRC -isystem /root/miniconda/include $W/demo.cc -L$LIB -lbabylon $LINK -o /tmp/demo_$P${S}_$mode 2>&1 | head -5
  timeout 300 /tmp/demo_$P${S}_$mode > /tmp/demo_$P${S}_$mode.out 2>&1; echo "demo $mode change: exit $?  ($(tail -1 /tmp/demo_$P${S}_$mode.out | cut -c1-150))"
done
rm -f /tmp/demo_$P${S}_with /tmp/demo_$P${S}_without
