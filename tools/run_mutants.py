#!/usr/bin/env python3
"""run_mutants.py <Cxx> [name-substring]: apply each mutants/<Cxx>/*.patch to a scratch copy of
/repo/src (under /dev/shm), run the property's check on the copy; every mutant must be reported
(exit 1). Prints a table; exit 0 iff all mutants were caught."""
import glob, os, shutil, subprocess, sys, tempfile
VERIF = os.path.dirname(os.path.dirname(os.path.abspath(__file__)))
args = [a for a in sys.argv[1:] if a != "--benign"]
BENIGN = "--benign" in sys.argv
prop = args[0]
sub = args[1] if len(args) > 1 else ""
repo = os.environ.get("BSA_REPO", "/repo")
patches = sorted(glob.glob(os.path.join(VERIF, "mutants", "benign" if BENIGN else "", prop, "*.patch")))
missed = []
for p in patches:
    if sub and sub not in p:
        continue
    base = "/dev/shm" if os.path.isdir("/dev/shm") else None
    d = tempfile.mkdtemp(prefix="bsa-mut-", dir=base)
    try:
        shutil.copytree(os.path.join(repo, "src"), os.path.join(d, "src"))
        r = subprocess.run(["patch", "-p1", "-s", "-d", d, "-i", p], stdout=subprocess.PIPE, stderr=subprocess.STDOUT, text=True)
        if r.returncode != 0:
            print("%-50s PATCH-FAILED %s" % (os.path.basename(p), r.stdout.strip()[:200]))
            missed.append(p)
            continue
        env = dict(os.environ, BSA_REPO=d, BSA_NO_EVIDENCE="1")
        r = subprocess.run([os.path.join(VERIF, "check"), prop], stdout=subprocess.PIPE, stderr=subprocess.STDOUT, text=True, env=env)
        rules = sorted(set(l.split()[0] for l in r.stdout.splitlines() if l.startswith("  " + prop + ".")))
        status = {0: "MISSED", 1: "caught", 2: "analysis-broken"}.get(r.returncode, "rc=%d" % r.returncode)
        if BENIGN:
            status = {0: "silent(ok)", 1: "FALSE-ALARM", 2: "analysis-broken"}.get(r.returncode, "rc=%d" % r.returncode)
        print("%-50s %-16s %s" % (os.path.basename(p), status, " ".join(rules)[:100]))
        if r.returncode == 2:
            print("    " + "\n    ".join(l for l in r.stdout.splitlines() if "ANALYSIS-BROKEN" in l)[:400])
        if r.returncode != (0 if BENIGN else 1):
            missed.append(p)
    finally:
        shutil.rmtree(d, ignore_errors=True)
print("%d %s, %d %s" % (len(patches), "benign edits" if BENIGN else "mutants", len(missed), "false alarms" if BENIGN else "not caught"))
sys.exit(1 if missed else 0)
