#!/usr/bin/env python3
"""cross_corpus.py <X> <Y> [--benign]: apply each patch of property Y's corpus to a scratch copy and run property X's
check on it. Used to test the dependent clauses (DEPENDS): Y's behaviour-preserving edits must stay silent under X;
Y's mutants are reported under X exactly when they sit in a function X's component uses (informational)."""
import glob, os, shutil, subprocess, sys, tempfile
from concurrent.futures import ThreadPoolExecutor
VERIF = os.path.dirname(os.path.dirname(os.path.abspath(__file__)))
args = [a for a in sys.argv[1:] if not a.startswith("--")]
BENIGN = "--benign" in sys.argv
X, Y = args[0], args[1]
patches = sorted(glob.glob(os.path.join(VERIF, "mutants", "benign" if BENIGN else "", Y, "*.patch")))
def one(p):
    d = tempfile.mkdtemp(prefix="bsa-x-", dir="/dev/shm")
    try:
        shutil.copytree("/repo/src", os.path.join(d, "src"))
        r = subprocess.run(["patch", "-p1", "-s", "-d", d, "-i", p], stdout=subprocess.PIPE, stderr=subprocess.STDOUT, text=True)
        if r.returncode != 0:
            return (p, "patch-failed", "")
        env = dict(os.environ, BSA_REPO=d, BSA_NO_EVIDENCE="1", BSA_JOBS="4")
        r = subprocess.run([os.path.join(VERIF, "check"), X], stdout=subprocess.PIPE, stderr=subprocess.STDOUT, text=True, env=env)
        rules = sorted(set(l.split()[0] for l in r.stdout.splitlines() if l.startswith("  " + X + ".")))
        extra = "\n    ".join(l for l in r.stdout.splitlines() if "ANALYSIS-BROKEN" in l)[:300]
        return (p, {0: "silent", 1: "reported", 2: "analysis-broken"}.get(r.returncode, "rc=%d" % r.returncode), " ".join(rules)[:140] + extra)
    finally:
        shutil.rmtree(d, ignore_errors=True)
with ThreadPoolExecutor(max_workers=int(os.environ.get("XJOBS", "4"))) as ex:
    res = list(ex.map(one, patches))
bad = 0
for p, st, rules in res:
    print("%-52s %-16s %s" % (os.path.basename(p), st, rules))
    if BENIGN and st not in ("silent", "patch-failed"):
        bad += 1
print("%s corpus of %s under %s: %d patches, %s" % ("benign" if BENIGN else "negative", Y, X, len(res),
      ("%d alarmed" % bad) if BENIGN else ("%d reported" % sum(1 for _, s, _ in res if s == "reported"))))
sys.exit(1 if bad else 0)
