#!/usr/bin/env python3
"""rename_sweep.py <Cxx> [--jobs N]: robustness test of a property's rules against renaming. Every member-function
name defined in the property's anchor files is, one at a time, renamed throughout a scratch copy of /repo/src (a
behaviour-preserving edit) and the check is run on the copy. Expected: exit 0 (verdict unchanged) or exit 2 (the rule is
anchored on that name, or the public API the driver calls was renamed and the driver no longer compiles) - never exit 1.
Prints one line per name and a summary; exit 1 iff some rename produced a VIOLATION."""
import importlib
import json
import os
import re
import shutil
import subprocess
import sys
import tempfile
from concurrent.futures import ThreadPoolExecutor

VERIF = os.path.dirname(os.path.dirname(os.path.abspath(__file__)))
sys.path.insert(0, os.path.join(VERIF, "engine"))
sys.path.insert(0, os.path.join(VERIF, "rules"))
from bsa import core  # noqa: E402
from bsa.facts import FactBase  # noqa: E402

COMMON = set("""size begin end cbegin cend rbegin rend clear empty swap reserve data push_back pop_back emplace emplace_back
insert erase find count contains at front back capacity resize assign get reset release value load store wait lock unlock
try_lock allocate deallocate construct destroy max min print name index run start stop join close open write read flush
set_value ready then type next prev first second""".split())


def main():
    prop = sys.argv[1]
    jobs = 4
    if "--jobs" in sys.argv:
        jobs = int(sys.argv[sys.argv.index("--jobs") + 1])
    mod = importlib.import_module(prop)
    files = core.anchor_files(prop)
    d = tempfile.mkdtemp(prefix="bsa-rn-", dir="/dev/shm")
    try:
        fb = FactBase(core.extract(mod.units("quick"), d))
        names = set()
        for fn in fb.find(pred=lambda f: f.has_cfg() and f.file in files and not f.lambda_):
            if fn.kind in ("ctor", "dtor", "move_ctor", "copy_ctor", "move_assign", "copy_assign"):
                continue
            if re.match(r"^[a-z_][a-z0-9_]*$", fn.name) and fn.name not in COMMON and len(fn.name) >= 5:
                names.add(fn.name)
        if "--fields" in sys.argv:
            # data members of the records defined in the anchor files instead of member functions
            names = set()
            for rname, rec in fb.records().items():
                if rec.get("file") in files:
                    for f in rec.get("fields", []):
                        if f.get("name") and re.match(r"^_?[a-z][a-z0-9_]*$", f["name"]) and len(f["name"]) >= 5 and f["name"] not in COMMON:
                            names.add(f["name"])
    finally:
        shutil.rmtree(d, ignore_errors=True)
    names = sorted(names)

    def one(name):
        s = tempfile.mkdtemp(prefix="bsa-rn-", dir="/dev/shm")
        try:
            shutil.copytree(os.path.join(core.REPO, "src"), os.path.join(s, "src"))
            new = "renamed_" + name + "_x"
            subprocess.run("grep -rlw %s %s/src | xargs -r sed -i 's/\\b%s\\b/%s/g'" % (name, s, name, new), shell=True)
            env = dict(os.environ, BSA_REPO=s, BSA_NO_EVIDENCE="1", BSA_JOBS="4")
            r = subprocess.run([os.path.join(VERIF, "check"), prop], stdout=subprocess.PIPE, stderr=subprocess.STDOUT, text=True, env=env)
            rules = sorted(set(l.split()[0] for l in r.stdout.splitlines() if l.startswith("  " + prop + ".")))
            why = ""
            if r.returncode == 2:
                why = ("driver/unit no longer compiles" if "extraction failed" in r.stdout else
                       (re.findall(r"ANALYSIS-BROKEN property=\S+ (.{0,90})", r.stdout) or [""])[0])
            return name, r.returncode, rules, why
        finally:
            shutil.rmtree(s, ignore_errors=True)

    bad = 0
    res = []
    with ThreadPoolExecutor(max_workers=jobs) as ex:
        for name, rc, rules, why in ex.map(one, names):
            res.append((name, rc, rules, why))
            print("%-45s exit=%d %s %s" % (name, rc, " ".join(rules), why), flush=True)
            if rc == 1:
                bad += 1
    n0 = sum(1 for r in res if r[1] == 0)
    n2 = sum(1 for r in res if r[1] == 2)
    print("%s: %d names renamed one at a time: %d verdict unchanged, %d cannot-decide (name anchor or public API), %d FALSE ALARMS" % (
        prop, len(res), n0, n2, bad))
    out = os.path.join(VERIF, "rename_sweep_results.json" if "--fields" not in sys.argv else "rename_sweep_fields_results.json")
    allr = json.load(open(out)) if os.path.exists(out) else {}
    allr[prop] = {"names": len(res), "unchanged": n0, "cannot_decide": sorted(r[0] for r in res if r[1] == 2),
                  "false_alarms": sorted(r[0] for r in res if r[1] == 1)}
    json.dump(allr, open(out, "w"), indent=1, sort_keys=True)
    return 1 if bad else 0


if __name__ == "__main__":
    sys.exit(main())
