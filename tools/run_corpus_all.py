#!/usr/bin/env python3
"""run_corpus_all.py: run the negative and benign corpus of every property against the current /repo and write
/verif/corpus_results.json (which rule reported which mutant); used by tools/gen_design.py"""
import json, os, sys
sys.path.insert(0, os.path.join(os.path.dirname(os.path.dirname(os.path.abspath(__file__))), "engine"))
sys.path.insert(0, os.path.join(os.path.dirname(os.path.dirname(os.path.abspath(__file__))), "rules"))
from bsa import selftest
out = {}
for i in range(1, 21):
    p = "C%02d" % i
    out[p] = selftest.corpus(p, parallel=6)
    print(p, out[p]["mutants_caught"], "/", out[p]["mutants"], "benign", out[p]["benign_silent"], "/", out[p]["benign"], flush=True)
json.dump(out, open(os.path.join(os.path.dirname(os.path.dirname(os.path.abspath(__file__))), "corpus_results.json"), "w"), indent=1, sort_keys=True)
