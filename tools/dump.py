#!/usr/bin/env python3
"""dump.py <driver-or-lib-path> <qname-regex> [targs-substr]: pretty-print extracted facts (debug aid)"""
import sys, os, re, json, tempfile, shutil
sys.path.insert(0, os.path.join(os.path.dirname(os.path.abspath(__file__)), "..", "engine"))
from bsa import core
from bsa.facts import FactBase, pstr
src = sys.argv[1]
u = core.Unit(src if os.path.isabs(src) else os.path.join(core.VERIF, src))
d = tempfile.mkdtemp(dir="/dev/shm")
try:
    fb = FactBase(core.extract([u], d))
finally:
    shutil.rmtree(d)
rx = re.compile(sys.argv[2])
sub = sys.argv[3] if len(sys.argv) > 3 else ""
def ev_str(ev):
    e = ev["e"]
    if e in ("call", "ctor"):
        th = pstr(ev["this"]) + " . " if "this" in ev else ""
        return "e%d %s %s%s(%s)%s" % (ev["id"], e, th, ev.get("callee", "fn:" + pstr(ev.get("fn"))), ", ".join(pstr(a) for a in ev.get("args", [])), " [cid]" if "cid" in ev else "")
    if e == "asg":
        return "e%d asg %s %s %s" % (ev["id"], pstr(ev["lhs"]), ev["op"], pstr(ev.get("rhs")))
    if e == "decl":
        return "e%d decl %s#%d : %s = %s" % (ev["id"], ev["name"], ev["var"], ev["type"][:50], pstr(ev.get("init")))
    if e == "ret":
        return "e%d ret %s" % (ev["id"], pstr(ev.get("v")))
    if e == "dtor":
        return "e%d dtor %s %s %s" % (ev["id"], ev.get("how"), ev.get("name", ev.get("field", "")), ev.get("type", "")[:60])
    if e == "new":
        return "e%d new %s placement=%s init=%s" % (ev["id"], ev["type"][:50], [pstr(x) for x in ev.get("placement", [])], pstr(ev.get("init")))
    if e == "delete":
        return "e%d delete %s" % (ev["id"], pstr(ev["x"]))
    if e == "init":
        return "e%d init %s = %s" % (ev["id"], ev.get("field", ev.get("base", "delegating")), pstr(ev.get("v")))
    return "e%s %s" % (ev.get("id"), e)
n = 0
for fn in fb.find(rx.pattern):
    if sub and sub not in fn.targs + fn.sig:
        continue
    n += 1
    print("=" * 100)
    print(fn.label, fn.sig[:100], fn.loc, fn.kind, "access=%s" % fn.d.get("access"))
    for bid in sorted(fn.blocks, reverse=True):
        b = fn.blocks[bid]
        su = ", ".join("%s%s" % (s["to"], ("[%s]" % ("T" if s["pol"] else "F")) if "pol" in s else ("[case %s]" % s["case"] if "case" in s else "")) for s in b["succ"])
        print("  B%d -> %s %s%s%s" % (bid, su, ("cond: " + pstr(b["cond"])) if "cond" in b else "", " NORETURN" if b.get("noreturn") else "", " loopback" if b.get("loopback") else ""))
        for ev in b["events"]:
            print("      %4s %s" % (ev.get("line", ""), ev_str(ev)))
    if n >= 6:
        break
