#!/usr/bin/env python3
"""gen_known_functions.py: (re)write /verif/known_functions.json - per property the member functions defined in its anchor
files on the current tree, i.e. the functions that exist while the rules are being armed / confirmed. A function that
appears later is treated as an extracted helper (core.mark_unknown_helpers)."""
import importlib, json, os, shutil, sys, tempfile
VERIF = os.path.dirname(os.path.dirname(os.path.abspath(__file__)))
sys.path.insert(0, os.path.join(VERIF, "engine")); sys.path.insert(0, os.path.join(VERIF, "rules"))
from bsa import core
from bsa.facts import FactBase
out = {}
for i in range(1, 21):
    p = "C%02d" % i
    mod = importlib.import_module(p)
    files = core.anchor_files(p)
    d = tempfile.mkdtemp(dir="/dev/shm")
    try:
        units = mod.units("quick") + [core.test_unit(t) for t in getattr(mod, "SWEEP", [])]
        fb = FactBase(core.extract(units, d))
        s = set()
        for fn in fb.all_fns():
            if fn.file in files and not fn.lambda_ and fn.kind in ("method", "function"):
                s.add(core.fn_base_name(fn))
        out[p] = sorted(s)
        print(p, len(s), flush=True)
    finally:
        shutil.rmtree(d, ignore_errors=True)
json.dump(out, open(os.path.join(VERIF, "known_functions.json"), "w"), indent=0, sort_keys=True)
