#!/usr/bin/env python3
"""mkmut.py <Cxx> <name> <file-rel-to-repo> <old> <new> [--count N]
create /verif/mutants/<Cxx>/<name>.patch replacing the N-th (default: only) occurrence"""
import difflib, os, sys
prop, name, rel, old, new = sys.argv[1:6]
nth = None
if "--nth" in sys.argv:
    nth = int(sys.argv[sys.argv.index("--nth") + 1])
repo = os.environ.get("BSA_REPO", "/repo")
src = open(os.path.join(repo, rel)).read()
cnt = src.count(old)
if cnt == 0:
    sys.exit("pattern not found")
if cnt > 1 and nth is None:
    sys.exit("pattern occurs %d times; use --nth" % cnt)
if nth is None:
    dst = src.replace(old, new)
else:
    parts = src.split(old)
    dst = old.join(parts[:nth + 1]) + new + old.join(parts[nth + 1:])
diff = "".join(difflib.unified_diff(src.splitlines(True), dst.splitlines(True), "a/" + rel, "b/" + rel))
d = os.path.join(os.path.dirname(os.path.dirname(os.path.abspath(__file__))), "mutants", prop)
os.makedirs(d, exist_ok=True)
open(os.path.join(d, name + ".patch"), "w").write(diff)
print("wrote", os.path.join(d, name + ".patch"))
