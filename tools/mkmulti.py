#!/usr/bin/env python3
"""mkmulti.py <dir under mutants/> <name> <edits.json>: create a multi-file patch. edits.json = [[file-rel-to-repo, old, new], ...]
(each `old` must occur exactly once)."""
import difflib, json, os, sys
dest, name, spec = sys.argv[1:4]
repo = os.environ.get("BSA_REPO", "/repo")
edits = json.load(open(spec))
files = {}
for rel, old, new in edits:
    src = files.get(rel) or open(os.path.join(repo, rel)).read()
    if src.count(old) != 1:
        sys.exit("pattern occurs %d times in %s: %r" % (src.count(old), rel, old[:60]))
    files[rel] = src.replace(old, new)
out = ""
for rel, dst in files.items():
    src = open(os.path.join(repo, rel)).read()
    out += "".join(difflib.unified_diff(src.splitlines(True), dst.splitlines(True), "a/" + rel, "b/" + rel))
d = os.path.join(os.path.dirname(os.path.dirname(os.path.abspath(__file__))), "mutants", dest)
os.makedirs(d, exist_ok=True)
open(os.path.join(d, name + ".patch"), "w").write(out)
print("wrote", os.path.join(d, name + ".patch"))
