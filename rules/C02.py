"""C02 bounded queue: no lost wake-up (DESIGN §4 C02)."""
import re

from bsa.core import driver
from bsa.graph import IG, cond_atoms
from bsa import atomics as A
from bsa import lib as L
from bsa.facts import pstr, strip_cast, const_val
import C01

EXPLANATION = (
    "Structural necessary conditions of the sleeper/waker protocol on the slot word, decided per instantiation: "
    "R1 every futex wait is reached only through the success edge of the CAS that sets the waiter bit or through an "
    "observation of the bit already set, the CAS installs observed+2^16, and the waited value derives from the word; "
    "R2 the single-element waker advances with an RMW whose *result* decides wake_all, and wake_all is unavoidable on "
    "the waiters-present edge; R3 the batch waker re-loads the word behind a seq_cst fence on every path from the "
    "relaxed 16-bit stores, with the 2^16 threshold; R4 every USE_FUTEX_WAKE=true public entry reaches a waiter "
    "check after every version store on all paths; R5 the timed exclusive pop never waits without its timeout and "
    "the slow path leaves on ETIMEDOUT. Kernel futex semantics are trusted; global deadlock freedom is NOT decided.")

SLOTFUTEX_REC = re.compile(r"ConcurrentBoundedQueue<.*>::SlotFutex$")
WAIT_RE = r"^babylon::Futex<.*>::wait$"
WAKE_RE = r"^babylon::Futex<.*>::wake_all$"
WAITER_UNIT = 65536


def units(tier):
    return [driver("bounded_queue.cc")]


def direct_calls(fn, rx):
    return [ev for _, ev in fn.all_events() if ev["e"] == "call" and re.search(rx, ev.get("callee", "") or "")]


def full_ig(fn, **kw):
    return IG(fn, inline=lambda fr, ev, callee: not callee.lambda_, **kw)


def plus_consts(ig, desc):
    """sum of integer constants in a chain of '+' and the non-constant operands"""
    d = strip_cast(desc)
    if isinstance(d, dict) and d.get("k") == "b" and d.get("op") == "+":
        s1, r1 = plus_consts(ig, d["l"])
        s2, r2 = plus_consts(ig, d["r"])
        return s1 + s2, r1 + r2
    v = const_val(d)
    if isinstance(v, int):
        return v, []
    return 0, [d]


def waiters_present_edges(ig, live, must_derive_from=None):
    """edges on which `X > 65535` (equivalently X >= 65536) is known to hold"""
    def pred(atom, pol, lab):
        c = L.effective_cmp(atom, pol)
        if c is None:
            return False
        op, l, r = c
        if const_val(l) is not None and const_val(r) is None:
            op, l, r = L.SWAP[op], r, l
        v = const_val(r)
        if not ((op == ">" and v == WAITER_UNIT - 1) or (op == ">=" and v == WAITER_UNIT)):
            return False
        if must_derive_from is not None:
            for o in ig.leaves(l):
                n = ig.ev_of(o)
                if n is not None and n.id in must_derive_from:
                    return True
            return False
        return True
    return L.cond_edges(ig, pred, live)


def run(ctx):
    fb = ctx.fb
    sf_fns = fb.find(pred=lambda f: SLOTFUTEX_REC.search(f.record or "") and f.has_cfg())
    ctx.floor("C02.slotfutex", len(sf_fns), 20, "SlotFutex member function instances")

    # ------------------------------------------------------------ R6 version operands are 16 bits wide
    # the slot word is (waiters:16 | version:16) and versions wrap modulo 2^16; a version that is carried in a
    # wider type stops wrapping (65535 + 1 == 65536): at the wrap the waker's "version still current?" test fails
    # and an exchange installs a phantom waiter bit
    def type_of(fn, d):
        d0 = d
        d = strip_cast(d)
        if isinstance(d0, dict) and d0.get("k") == "cast":
            return d0.get("t")
        if not isinstance(d, dict):
            return None
        if d.get("k") == "p":
            i = d.get("i")
            return fn.params[i]["type"] if i is not None and i < len(fn.params) else None
        if d.get("k") == "l":
            return fn.vars.get(str(d.get("id")), {}).get("type")
        if d.get("k") == "e":
            ev = fn.events.get(d.get("id"))
            return ev.get("rtype") or ev.get("type") if ev else None
        return None
    n6 = 0
    # ... in the slot futex and in the queue functions that compare an expected version with the slot's (seed C01-5: the
    # version mapping returned a 32-bit value, the try_ paths compared it with the 16-bit slot version)
    q_fns = fb.find(pred=lambda f: C01.is_queue_fn(f) and f.has_cfg() and not f.lambda_)
    for fn in list(sf_fns) + list(q_fns):
        for bid, b in fn.blocks.items():
            if "cond" not in b:
                continue
            from bsa.graph import cond_atoms
            atom, _ = cond_atoms(b["cond"], True)
            c = L.cmp_parts(atom)
            if not c or c[0] not in ("==", "!="):
                continue
            tl, tr = type_of(fn, c[1]), type_of(fn, c[2])
            if tl is None or tr is None or "unsigned short" not in (tl, tr):
                continue
            n6 += 1
            ctx.ob("C02.R6a", "%s@%s" % (L.short(fn), b.get("cond_line")), tl == tr, "%s:%s" % (fn.file, b.get("cond_line")),
                   "a 16-bit slot version is compared with a value carried in '%s': after 65535 the wider value is 65536, "
                   "never equal to the wrapped version 0, so the waker decides 'already advanced' and skips the wake-up" %
                   (tr if tl == "unsigned short" else tl), site="%s@version-width" % L.short(fn))
        for _, ev in fn.all_events():
            if ev["e"] == "call" and ev.get("name") == "exchange" and ev.get("rec", "").startswith("std::") and "unsigned int" in ev.get("rec", ""):
                n6 += 1
                t = type_of(fn, ev["args"][0])
                ctx.ob("C02.R6b", "%s@%s" % (L.short(fn), ev["line"]), t == "unsigned short", "%s:%s" % (fn.file, ev["line"]),
                       "the word exchanged into the 32-bit slot word must be a 16-bit version (waiter half zero); it is "
                       "carried as '%s', so version 65535 + 1 installs the waiter bit instead of version 0" % t,
                       site="%s@version-width" % L.short(fn))
    ctx.floor("C02.R6", n6, 12, "version comparisons / exchanges in SlotFutex")

    # ------------------------------------------------------------ R1 sleepers
    sleepers = [f for f in sf_fns if direct_calls(f, WAIT_RE)]
    ctx.floor("C02.R1", len(sleepers), 3, "functions that futex-wait on a slot word")
    for fn in sleepers:
        ig = full_ig(fn)
        live = ig.live_nodes()
        slot, other, fences = C01.slot_ops(ig, live)
        inst = L.short(fn)
        waits = [n for n in L.call_nodes(ig, callee_re=WAIT_RE, live=live)]
        cas = [a for a in slot if a.op == "cas"]
        cas_ids = set(a.node.id for a in cas)
        succ_edges = [(s.id, d.id) for s, d, lab in ig.edges_where(
            lambda s, d, lab: A.is_cas_success_edge(ig, s, d, lab, cas_ids) is not None)]
        seen_edges = waiters_present_edges(ig, live)
        for w in waits:
            r = ig.reach([ig.entry], removed_edges=succ_edges + seen_edges)
            detail = None
            if w.id in r:
                detail = ig.describe_path(ig.witness_path(ig.entry, w, removed_edges=succ_edges + seen_edges))
            ctx.ob("C02.R1a", inst, w.id not in r, w.where,
                   "futex wait is reachable without having set (CAS success) or observed the waiter bit: the waker "
                   "would see no sleeper and skip the wake-up", detail, site="%s@wait" % inst)
            # provenance of the waited value
            ok = True
            why = ""
            for o in ig.leaves(ig.rarg(w, 0)):
                k = o.get("k") if isinstance(o, dict) else None
                if k == "p":
                    continue
                if k == "c":
                    continue
                if k == "e":
                    n = ig.ev_of(o)
                    a = A.classify(ig, n) if n is not None else None
                    if a is not None and a.reads and L.deep_find(ig, a.obj, C01.SLOT_FUTEX_FIELD) is not None:
                        continue
                ok = False
                why = pstr(o)
            only_const = all(isinstance(o, dict) and o.get("k") == "c" for o in ig.leaves(ig.rarg(w, 0)))
            ctx.ob("C02.R1b", inst, ok and not only_const, w.where,
                   "value waited on does not derive from the slot word (observed or installed): %s" % why,
                   site="%s@wait" % inst)
        for a in cas:
            exp = ig.rarg(a.node, 0)
            des = ig.rarg(a.node, 1)
            tot = None
            rest = []
            for o in ig.origins(des):
                tot, rest = plus_consts(ig, o)
            same = len(rest) == 1 and pstr(rest[0]) == pstr(exp)
            ctx.ob("C02.R1c", inst, tot == WAITER_UNIT and same, a.node.where,
                   "waiter registration must install <observed word> + 65536 (got +%s on %s, expected operand %s)" %
                   (tot, [pstr(x) for x in rest], pstr(exp)), site="%s@waiter-cas" % inst)
        # R5b after a wait the loop has an exit decided by the timeout (errno == ETIMEDOUT, or the
        # recomputed remaining time); either suffices, both missing means a timed wait can spin for ever
        def is_call_to(rx):
            return lambda d: d.get("k") == "e" and ig.ev_of(d) is not None and \
                re.search(rx, ig.ev_of(d).ev.get("callee", "") or "") is not None

        def timeout_exit(atom, pol, lab):
            c = L.effective_cmp(atom, pol)
            if c is not None:
                op, l, r = c
                if op == "==" and const_val(r) == 110 and \
                        L.deep_find(ig, l, is_call_to(r"^__errno_location$")) is not None:
                    return True
            # a comparison of the recomputed remaining time: absl::Duration relational operator, or an integer comparison of
            # nanosecond values - never a null test of the timeout pointer (which also derives from the recomputed timespec)
            a = strip_cast(atom)
            n_ = ig.ev_of(a) if isinstance(a, dict) else None
            is_rel = n_ is not None and n_.ev["e"] == "call" and re.search(r"operator(<=|<|>=|>)$", n_.ev.get("callee", "") or "")
            if c is not None and c[0] in ("<", "<=", ">", ">=") and const_val(c[2]) != "null":
                is_rel = True
            if is_rel and L.deep_find(ig, atom, is_call_to(r"^absl::.*(DurationFromTimespec|GetCurrentTimeNanos)$"),
                                      through_args=True) is not None:
                return True
            return False
        te = L.cond_edges(ig, timeout_exit, live)
        ok = False
        for (s, d) in te:
            dn = ig.nodes[d]
            if any(ig.path_exists(w, ig.nodes[s], strict=False) for w in waits) and \
                    ig.exit.id in ig.reach([dn], removed=waits):
                ok = True
        ctx.ob("C02.R5b", inst, ok, fn.loc,
               "after a futex wait no exit of the retry loop is decided by the timeout (neither errno == ETIMEDOUT "
               "nor the recomputed remaining time)")

        # R5e a timed wait is not re-entered with the timeout it was given before: between two waits the remaining time is
        # recomputed (the timeout variable is re-assigned) unless there is no timeout at all
        for w in waits:
            targ = strip_cast(ig.rarg(w, 1)) if len(w.ev.get("args", [])) > 1 else None
            if not (isinstance(targ, dict) and targ.get("k") == "p"):
                continue
            renew = [n for n in ig.ev_nodes() if n.id in live and n.ev["e"] == "asg" and n.ev.get("op") == "=" and
                     strip_cast(n.ev.get("lhs")).get("k") == "p" and strip_cast(n.ev["lhs"]).get("i") == targ.get("i")]

            def untimed(atom, pol, lab, targ=targ):
                c = L.effective_cmp(atom, pol)
                return c is not None and c[0] == "==" and const_val(c[2]) == "null" and \
                    strip_cast(c[1]).get("k") == "p" and strip_cast(c[1]).get("i") == targ.get("i")
            ue = L.cond_edges(ig, untimed, live)
            again = w.id in ig.reach([m for m, _ in w.succ], removed=renew, removed_edges=ue)
            ctx.ob("C02.R5e", inst, bool(renew) and not again, w.where,
                   "the futex wait can be re-entered with the same relative timeout it was entered with before (no path from the "
                   "wait back to itself may avoid the recomputation of the remaining time): each wake-up that is not the awaited "
                   "one - a signal, a spurious wake - then re-arms the full timeout and the timed pop overruns its deadline",
                   site="%s@timeout-renewed" % inst)

    # ------------------------------------------------------- R4f flag-less public operations that free or fill slots wake sleepers
    # (clear() has no USE_FUTEX_WAKE of its own: a pusher asleep on a full slot relies on the flag clear() chooses internally)
    n4f = 0
    for fn in fb.find(pred=lambda f: C01.is_queue_fn(f) and f.has_cfg() and not f.lambda_ and f.d.get("access") == 0 and
                      f.name in ("clear",) and L.tparam(f, "USE_FUTEX_WAKE") is None):
        ig = IG(fn, inline=lambda a, b, c: False)
        live = ig.live_nodes()
        inner = [n for n in ig.ev_nodes() if n.id in live and n.ev["e"] == "call" and
                 re.search(r"ConcurrentBoundedQueue<.*>::(try_)?(pop|push)(_n)?$", n.ev.get("callee", "") or "")]
        flags = []
        for n in inner:
            callee = ig.tu.fns.get(n.ev.get("cid"))
            flags.append(L.tparam(callee, "USE_FUTEX_WAKE") if callee is not None else None)
        n4f += 1
        ctx.ob("C02.R4f", L.short(fn), bool(inner) and all(f_ == "true" for f_ in flags), fn.loc,
               "%s() moves slot versions through an operation with USE_FUTEX_WAKE=%s: a thread asleep on one of those slots is never "
               "woken although the slot reached the version it waits for" % (fn.name, flags), site="%s@wakes" % fn.name)
    ctx.floor("C02.R4f", n4f, 2, "flag-less public slot-moving operations (clear)")

    # ------------------------------------------------------- R4g the entry points without flags sleep and wake (K23, after seed C15-5)
    QNAMES = ("push", "try_push", "push_n", "try_push_n", "pop", "try_pop", "pop_n", "try_pop_n")
    n4g = L.flag_forwarding(ctx, "C02.R4g", fb, C01.QUEUE_REC.pattern, QNAMES, ("USE_FUTEX_WAIT", "USE_FUTEX_WAKE"),
                            "a default push / pop that does not wake leaves the default sleepers of the other side asleep for ever")
    ctx.floor("C02.R4g", n4g, 16, "forwarded futex flags of push / pop and their try_ / _n variants")

    # ------------------------------------------------------- R5d errno reset before the wait (shared with C01.R10)
    C01.errno_discipline(ctx, "C02.R5d", fb)   # conditional: applies where a wait loop tests errno at all

    # ------------------------------------------------------- R2 set-and-wake
    def touches_slot_word(f):
        return any(ev["e"] == "call" and ev.get("name") in ("store", "exchange", "load", "fetch_add", "fetch_sub", "fetch_or", "fetch_and",
                                                           "compare_exchange_weak", "compare_exchange_strong") for _, ev in f.all_events())

    def direct_slot_writes(fn):
        # helpers of the same class that only wake (no access to the slot word) are part of the function: extracting
        # `_futex.wake_all()` into a private member must not change the verdict
        ig = IG(fn, inline=lambda fr, ev, callee: bool(re.match(r"^babylon::Futex<", callee.record or "")) or
                (callee.record == fn.record and not callee.lambda_ and not touches_slot_word(callee)))
        live = ig.live_nodes()
        slot, other, fences = C01.slot_ops(ig, live)
        return ig, live, slot
    setwake, wakeonly = [], []
    for fn in sf_fns:
        ig, live, slot = direct_slot_writes(fn)
        if not list(L.call_nodes(ig, callee_re=WAKE_RE, live=live)) or not any(a.node.frame.owner_id == 0 for a in slot):
            continue
        if any(a.op in ("store", "rmw") for a in slot):
            setwake.append((fn, ig, live, slot))
        elif any(a.op == "load" for a in slot):
            wakeonly.append((fn, ig, live, slot))
    ctx.floor("C02.R2", len(setwake), 3, "advance-and-wake functions")
    ctx.floor("C02.R3", len(wakeonly), 3, "batch wake functions")
    for fn, ig, live, slot in setwake:
        inst = L.short(fn)
        ws = [a for a in slot if a.op in ("store", "rmw")]
        wakes = list(L.call_nodes(ig, callee_re=WAKE_RE, live=live))
        rmw_ids = set(a.node.id for a in ws if a.op == "rmw")
        ctx.ob("C02.R2a", inst, all(a.op == "rmw" for a in ws), ws[0].node.where,
               "single-element waker must advance the word with one read-modify-write (exchange); a plain store "
               "followed by a separate test re-opens the lost wake-up window")
        edges = waiters_present_edges(ig, live, must_derive_from=rmw_ids)
        for wk in wakes:
            r = ig.reach([ig.entry], removed_edges=edges)
            ctx.ob("C02.R2b", inst, bool(edges) and wk.id not in r, wk.where,
                   "wake_all is not decided by the old word returned by the advancing exchange (> 65535 test)",
                   site="%s@wake" % inst)
        ok = bool(edges)
        for (s, d) in edges:
            if ig.exit.id in ig.reach([ig.nodes[d]], removed=wakes):
                ok = False
        ctx.ob("C02.R2c", inst, ok, fn.loc,
               "on the edge where the old word shows a sleeper, wake_all can be skipped", site="%s@wake" % inst)
    wake_keys = set()
    for fn, ig, live, slot in wakeonly:
        inst = L.short(fn)
        wake_keys.add(fn.key)
        loads = set(a.node.id for a in slot if a.op == "load")
        wakes = list(L.call_nodes(ig, callee_re=WAKE_RE, live=live))
        edges = waiters_present_edges(ig, live, must_derive_from=loads)
        r = ig.reach([ig.entry], removed_edges=edges)
        ctx.ob("C02.R3a", inst, bool(edges) and all(wk.id not in r for wk in wakes) and bool(wakes), fn.loc,
               "batch waker must decide on the freshly loaded word with the 65535/65536 threshold")
        # the only ways to skip the wake on the sleeper-present edge: version moved on, or the clearing CAS failed
        cas_ids = set(a.node.id for a in slot if a.op == "cas")

        def skip_ok(atom, pol, lab):
            c = L.effective_cmp(atom, pol)
            if c is not None and c[0] == "!=":
                return True
            return False
        allowed = L.cond_edges(ig, skip_ok, live)
        fail_edges = []
        for s, d, lab in ig.edges_where(lambda s, d, lab: True):
            if lab.cond is None or lab.pol is None:
                continue
            atom, pol = cond_atoms(ig.resolve(lab.cond, lab.frame), lab.pol)
            for o in ig.origins(atom):
                n = ig.ev_of(o)
                if n is not None and n.id in cas_ids and not pol:
                    fail_edges.append((s.id, d.id))
        ok = True
        for (s, d) in edges:
            if ig.exit.id in ig.reach([ig.nodes[d]], removed=wakes, removed_edges=allowed + fail_edges):
                ok = False
        ctx.ob("C02.R3b", inst, ok, fn.loc,
               "with a sleeper present and the version unchanged, the batch waker can return without wake_all")

    # --------------------------------------- R3c fence between stores and re-load
    cs = C01.carriers(fb)
    ckeys = set(f.key for f in cs)
    n3 = 0
    for fn in cs:
        ig = C01.carrier_ig(fn, ckeys)
        live = ig.live_nodes()
        slot, other, fences = C01.slot_ops(ig, live)
        stores = [a for a in slot if a.op == "store"]
        wloads = [a for a in slot if a.op == "load" and a.node.frame.fn.key in wake_keys]
        if not stores or not wloads:
            continue
        n3 += 1
        sc = [f.node for f in fences if f.order == A.SEQ_CST]
        bad = None
        for s in stores:
            for l in wloads:
                if ig.path_exists(s.node, l.node, avoiding=sc):
                    bad = (s, l)
                    break
            if bad:
                break
        ctx.ob("C02.R3c", L.short(fn), bad is None, (bad[0].node.where if bad else fn.loc),
               "16-bit version store can reach the waiter re-load without a seq_cst fence in between "
               "(store-buffer forwarding of the mixed-size store lets both sides miss each other)")
    ctx.floor("C02.R3c", n3, 12, "batch instantiations with a wake stage")

    # ------------------------------------------------ R4 K=true entries always check
    entries = fb.find(pred=lambda f: C01.is_queue_fn(f) and f.has_cfg() and L.tparam(f, "USE_FUTEX_WAKE") == "true"
                      and f.d.get("access") == 0)
    ctx.floor("C02.R4", len(entries), 30, "public entries instantiated with USE_FUTEX_WAKE=true")
    sw_keys = set(fn.key for fn, _, _, _ in setwake)
    for fn in entries:
        ig = full_ig(fn, for_once=True)
        if ig.truncated:
            ctx.broken("graph of %s truncated" % fn.label)
        live = ig.live_nodes()
        slot, other, fences = C01.slot_ops(ig, live)
        inst = L.short(fn)
        vw = [a for a in slot if a.op in ("store", "rmw")]
        if not vw:
            ctx.ob("C02.R4a", inst, False, fn.loc, "USE_FUTEX_WAKE=true entry never advances a slot version")
            continue
        wloads = [a.node for a in slot if a.op == "load" and a.node.frame.fn.key in wake_keys]
        bad = None
        for w in vw:
            if w.op == "rmw":
                if w.node.frame.fn.key not in sw_keys:
                    bad = w
                continue
            if not ig.postdominated_by(w.node, wloads):
                bad = w
                break
        detail = None
        if bad is not None and bad.op == "store":
            detail = ig.describe_path(ig.witness_path(bad.node, ig.exit, removed=wloads))
        ctx.ob("C02.R4a", inst, bad is None, (bad.node.where if bad else fn.loc),
               "a version store of a USE_FUTEX_WAKE=true operation can reach the function exit without a "
               "waiter check: a sleeper registered on that slot is never woken", detail)

    # ---------------------------------------------- R5a timed pop never waits unbounded
    timed = fb.find(pred=lambda f: C01.is_queue_fn(f) and f.name == "try_pop_n_exclusively_until" and f.has_cfg())
    ctx.floor("C02.R5a", len(timed), 3, "try_pop_n_exclusively_until instances")
    for fn in timed:
        ig = full_ig(fn, for_once=True)
        live = ig.live_nodes()
        inst = L.short(fn)
        tparam = [i for i, p in enumerate(fn.params) if "timespec" in p["type"]]
        waits = list(L.call_nodes(ig, callee_re=WAIT_RE, live=live))
        ctx.ob("C02.R5a", inst, bool(waits) and bool(tparam), fn.loc, "timed pop does not reach a futex wait")
        for w in waits:
            ok = True
            for o in ig.origins(ig.rarg(w, 1)):
                o = strip_cast(o)
                if isinstance(o, dict) and o.get("k") == "p" and o.get("i") in tparam:
                    continue
                if isinstance(o, dict) and o.get("k") == "u" and o.get("op") == "&":
                    continue
                ok = False
            ctx.ob("C02.R5a", inst, ok, w.where,
                   "futex wait inside the timed pop uses a timeout that is not the caller's deadline "
                   "(or a remaining-time value derived in place): %s" % pstr(ig.rarg(w, 1)), site="%s@wait" % inst)
        # no spinning wait (usleep loop without deadline) may be reached
        spins = [n for n in L.call_nodes(ig, name="usleep", live=live)]
        ctx.ob("C02.R5c", inst, not spins, fn.loc, "timed pop reaches the untimed spin-wait path")


SWEEP = ["concurrent/test_bounded_queue.cpp",
         "concurrent/test_bounded_queue_press_mpmc.cpp",
         "concurrent/test_sched_interface.cpp",
         "test_executor.cpp"]


# name anchors (validated by tools/rename_sweep.py; a vanished name is exit 2, see core.check_anchor_names)
ANCHORS = {
    'set_version_and_wakeup_waiters': ['^babylon::ConcurrentBoundedQueue(<|$)'],
    'wake_all': ['^babylon::Futex(<|$)'],
    'wakeup_waiters': ['^babylon::ConcurrentBoundedQueue(<|$)'],
}
