"""C03 concurrent hash table: one winner per key (DESIGN §4 C03)."""
import re

from bsa.core import driver
from bsa.graph import IG
from bsa import atomics as A
from bsa import lib as L
from bsa.facts import pstr, strip_cast, const_val, walk

EXPLANATION = (
    "Structural clauses of C03 on ConcurrentFixedSwissTable / ConcurrentTransientHashSet / Map (int, string, pair, "
    "move-only mapped values): R1 an element is constructed, the size counted and {it,true} returned only on the "
    "success edge of CAS(control: EMPTY -> BUSY) taken with acquire, and on that edge the tag is release-stored to the "
    "slot and to its mirror (same value) after the construction; R2 every key comparison is separated from the SIMD "
    "group load by an acquire fence; R3 a CAS loser does not move its probe position before the loop condition is "
    "evaluated again (it re-examines the same group); R4 nothing is constructed on a path that reports failure, the "
    "placeholder (DUMMY) state ends the probe with failure; R5 a growth table is published by the winning CAS on "
    "node->next or deleted - never both, never neither - with release/acquire orders, and every traversal load of "
    "next is acquire; R7 find and do_emplace advance their probe position identically (a lookup stops at the first "
    "group with a free byte, so it must walk the groups in the order insertion does). Linearizability, probe-sequence "
    "coverage and SIMD matching are NOT decided.")

FIXED = re.compile(r"^babylon::ConcurrentFixedSwissTable<.*>$")
TRANS = re.compile(r"^babylon::ConcurrentTransientHashSet<.*>$")
EMPTY, BUSY, DUMMY = -128, -127, -126
CTRL_ATOMIC = re.compile(r"^std::(atomic|__atomic_base)<signed char>$")
NEXT_FIELD = L.field_pred(name="next", rec_re=r"ConcurrentTransientHashSet<.*>::TableNode$")


def units(tier):
    return [driver("hash_table.cc")]


def nin(a, b, c):
    return False


def ctrl_ops(ig, live):
    return [a for a in A.atomic_ops(ig, live) if a.op != "fence" and CTRL_ATOMIC.match(a.node.ev.get("rec", "") or "")]


def probe_state(ig, fn, live):
    """(loop-head block nodes, probe variables, writes to probe variables) of a probing function"""
    groups = [n for n in ig.ev_nodes() if n.id in live and n.ev["e"] == "ctor" and
              n.ev.get("callee", "").endswith("::Group::Group")]
    pv = set()
    for g in groups:
        for o in ig.leaves(ig.rarg(g, 0)):
            if isinstance(o, dict) and o.get("k") == "l":
                pv.add(o["id"])
        a = strip_cast(ig.rarg(g, 0))
        for sd in walk(a):
            if sd.get("k") == "l":
                pv.add(sd["id"])
                for n_, rhs, how in ig.local_defs(ig.frames[0], sd["id"]):
                    if rhs is not None:
                        for s2 in walk(rhs):
                            if s2.get("k") == "l":
                                pv.add(s2["id"])
    heads = []
    for bid, b in fn.blocks.items():
        if b.get("term") == "WhileStmt" and "cond" in b:
            c = L.cmp_parts(b["cond"])
            if c and strip_cast(c[1]).get("k") == "l" and strip_cast(c[2]).get("n") == "_bucket_mask":
                pv.add(strip_cast(c[1])["id"])
                heads.append(ig.frames[0].block_node[bid])
    writes = [n for n in ig.ev_nodes() if n.id in live and n.frame.owner_id == 0 and n.ev["e"] == "asg" and
              strip_cast(n.ev.get("lhs", {})).get("k") == "l" and strip_cast(n.ev["lhs"]).get("id") in pv]
    return groups, heads, pv, writes


def run(ctx):
    fb = ctx.fb
    fixed = fb.find(pred=lambda f: FIXED.match(f.record or "") and f.has_cfg() and not f.lambda_)
    ctx.floor("C03.fixed", len(fixed), 40, "ConcurrentFixedSwissTable member instances")

    inserters, finders = [], []
    for fn in fixed:
        has_cas = any(ev["e"] == "call" and ev.get("name", "").startswith("compare_exchange") and
                      CTRL_ATOMIC.match(ev.get("rec", "") or "") for _, ev in fn.all_events())
        has_group = any(ev["e"] == "ctor" and ev.get("callee", "").endswith("::Group::Group") for _, ev in fn.all_events())
        has_while = any(b.get("term") == "WhileStmt" for b in fn.blocks.values())
        if has_cas:
            inserters.append(fn)
        elif has_group and has_while and fn.name == "find":
            finders.append(fn)
    ctx.floor("C03.R1", len(inserters), 5, "inserting probe functions (CAS on a control byte)")
    ctx.floor("C03.R2", len(finders), 3, "lookup probe functions")

    advance_sig = {}
    for fn in inserters + finders:
        inst = L.short(fn)
        ig = IG(fn, inline=nin)
        live = ig.live_nodes()
        groups, heads, pv, writes = probe_state(ig, fn, live)
        fences = [a for a in A.atomic_ops(ig, live) if a.op == "fence"]
        acq = [f.node for f in fences if A.acquires(f.order)]
        # ---------------- R2 acquire fence between group load and key comparison
        ats = [n for n in L.call_nodes(ig, name="at", live=live)]
        cas_nodes = [a for a in ctrl_ops(ig, live) if a.op == "cas"]
        cas_ids = set(a.node.id for a in cas_nodes)
        succ = L.result_edges(ig, cas_ids, True, live)
        fail = L.result_edges(ig, cas_ids, False, live)
        for a in ats:
            if succ and a.id not in ig.reach([ig.entry], removed_edges=succ):
                continue        # the winner's own slot
            bad = any(ig.path_exists(g, a, avoiding=acq) for g in groups)
            ctx.ob("C03.R2", "%s@%s" % (inst, a.line), bool(groups) and not bad, a.where,
                   "an element is read for key comparison without an acquire fence after the control-group load: a "
                   "reader may compare a half-constructed key", site="%s@compare" % inst)
        # ---------------- R7 probe advance signature
        sig = []
        names = {}

        def canon(d):
            """alpha-renamed rendering: locals are numbered in order of first appearance, so that
            renaming a variable in one of the sibling functions does not change the signature"""
            import copy
            d = copy.deepcopy(d)
            for sd in walk(d):
                if sd.get("k") == "l":
                    sd["n"] = names.setdefault(sd["id"], "v%d" % len(names))
            return pstr(d)
        for w in sorted(writes, key=lambda n: (n.block is None, -(n.block or 0), n.id)):
            if not any(ig.path_exists(w, h, strict=False) for h in heads):
                continue
            if any(ig.path_exists(g, w) for g in groups):
                sig.append((w.ev.get("op"), canon(w.ev.get("lhs")), canon(w.ev.get("rhs"))))
        advance_sig[fn.key] = (fn, sig, re.sub(r"::(find|do_emplace).*$", "", fn.qname))
        if fn in finders:
            continue
        # ---------------- R1 insertion protocol
        constructs = [n for n in ig.ev_nodes() if n.id in live and
                      ((n.ev["e"] == "call" and n.ev.get("name") == "construct") or
                       (n.ev["e"] == "new" and n.ev.get("placement")))]
        r_nosucc = ig.reach([ig.entry], removed_edges=succ)
        ctx.ob("C03.R1a", inst, bool(constructs) and bool(succ) and all(c.id not in r_nosucc for c in constructs), fn.loc,
               "an element can be constructed without owning the slot (success edge of CAS EMPTY->BUSY)",
               site="%s@construct" % inst)
        for c in cas_nodes:
            ctx.ob("C03.R1b", inst, A.acquires(c.order) and const_val(ig.rarg(c.node, 1)) == BUSY and
                   all(const_val(o) == EMPTY for o in ig.origins(ig.rarg(c.node, 0)) if not (isinstance(o, dict) and o.get("lab"))),
                   c.node.where,
                   "slot claim must be CAS(EMPTY -> BUSY) with acquire on success; got order %s, desired %s" %
                   (A.ORDER_NAME.get(c.order), pstr(ig.rarg(c.node, 1))))
        # R1f the claim is made on the slot's own control byte: the byte indexed exactly like the element that is constructed
        slot_idx = set()
        for c_ in constructs:
            for sd in walk(ig.rarg(c_, 0) if c_.ev["e"] == "call" else c_.ev.get("place")):
                n_ = ig.ev_of(sd) if isinstance(sd, dict) and sd.get("k") == "e" else None
                if n_ is not None and n_.ev.get("name") == "at" and n_.ev.get("args"):
                    slot_idx.add(pstr(strip_cast(ig.resolve(n_.ev["args"][0], n_.frame))))
        for c in cas_nodes:
            o = strip_cast(ig.resolve(c.obj, c.node.frame)) if isinstance(c.obj, dict) else None
            for _ in range(4):
                if isinstance(o, dict) and o.get("k") == "l" and "fr" in o:
                    defs = ig.local_defs(ig.frames[o["fr"]], o["id"])
                    if len(defs) == 1 and defs[0][1] is not None:
                        o = strip_cast(defs[0][1])
                        continue
                break
            own = isinstance(o, dict) and o.get("k") == "idx" and isinstance(strip_cast(o.get("b")), dict) and \
                strip_cast(o["b"]).get("k") == "f" and strip_cast(o["b"]).get("n") == "_controls" and \
                strip_cast(strip_cast(o["b"]).get("b")).get("k") == "this" and \
                pstr(strip_cast(ig.resolve(o.get("i"), c.node.frame))) in slot_idx
            ctx.ob("C03.R1f", inst, bool(slot_idx) and own, c.node.where,
                   "the slot is claimed on %s, not on _controls[<index of the element constructed>]: the first Group::SIZE-1 control "
                   "bytes are mirrored behind the table, and a claim on the mirror does not exclude a claim on the byte itself "
                   "(two winners of one slot)" % pstr(o), site="%s@claim-byte" % inst)
        stores = [a for a in ctrl_ops(ig, live) if a.op == "store"]
        pub = [s for s in stores if s.node.id not in r_nosucc]
        vals = set(pstr(ig.rarg(s.node, 0)) for s in pub)
        objs = set(pstr(s.obj) for s in pub)
        ok = len(pub) >= 2 and len(vals) == 1 and len(objs) >= 2 and all(A.releases(s.order) for s in pub) and \
            all(ig.dominated_by(s.node, constructs) for s in pub)
        for (s_, d_) in succ:
            for s in pub:
                if ig.exit.id in ig.reach([ig.nodes[d_]], removed=[s.node]):
                    ok = False
        ctx.ob("C03.R1c", inst, ok, fn.loc,
               "after constructing, the winner must release-store the same tag to the slot's control byte and to its "
               "mirror on every path (found %d publishing stores to %d bytes, values %s, orders %s)" %
               (len(pub), len(objs), sorted(vals), [A.ORDER_NAME.get(s.order) for s in pub]), site="%s@publish" % inst)
        ctx.ob("C03.R1c2", inst, all(s.node.id not in r_nosucc for s in stores), fn.loc,
               "a control byte is stored without owning the slot")
        # the mirror index formula: ((index - GROUP_MASK) & mask) + (GROUP_MASK & mask)
        rets = [n for n in ig.ev_nodes() if n.id in live and n.ev["e"] == "ret"]

        def ret_flag(r):
            n_ = ig.ev_of(strip_cast(ig.resolve(r.ev.get("v"), r.frame)))
            if n_ is not None and n_.ev["e"] == "ctor" and len(n_.ev.get("args", [])) == 2:
                return const_val(ig.rarg(n_, 1))
            return None
        trues = [r for r in rets if ret_flag(r) == 1]
        falses = [r for r in rets if ret_flag(r) == 0]
        ctx.ob("C03.R1d", inst, bool(trues) and all(r.id not in r_nosucc for r in trues), fn.loc,
               "insertion success is reported without having won the slot")
        sizes = [n for n in ig.ev_nodes() if n.id in live and n.ev["e"] == "call" and
                 strip_cast(n.ev.get("this", {})).get("n") == "_size"]
        st = ig.count_on_paths(ig.entry, disp_nodes=sizes)
        ok = bool(sizes) and all(s.id not in r_nosucc for s in sizes) and \
            all(st.get(r.id, frozenset()) == frozenset([1]) for r in trues) and \
            all(st.get(r.id, frozenset()) == frozenset([0]) for r in falses)
        ctx.ob("C03.R1e", inst, ok, fn.loc, "the element counter must be bumped exactly once per successful insertion and never otherwise")
        # ---------------- R4 nothing constructed on failure paths
        bad = any(ig.path_exists(c, r) for c in constructs for r in falses)
        ctx.ob("C03.R4a", inst, not bad and bool(falses), fn.loc,
               "an insertion that reports failure has constructed (consumed its arguments)")

        def dummy_edge(atom, pol, lab):
            c = L.effective_cmp(atom, pol)
            return c is not None and c[0] == "==" and const_val(c[2]) == DUMMY
        de = L.cond_edges(ig, dummy_edge, live)
        ok = bool(de)
        for (s_, d_) in de:
            r = ig.reach([ig.nodes[d_]])
            if any(c.node.id in r for c in cas_nodes) or any(t.id in r for t in trues):
                ok = False
        ctx.ob("C03.R4b", inst, ok, fn.loc,
               "observing the placeholder (DUMMY) control must end the probe with failure (the default-constructed table is full)")
        # ---------------- R3 loser does not advance
        ok = bool(fail) and bool(heads)
        for (s_, d_) in fail:
            r = ig.reach([ig.nodes[d_]], removed=heads)
            if any(w.id in r for w in writes):
                ok = False
        ctx.ob("C03.R3", inst, ok, fn.loc,
               "a CAS loser changes its probe position before the loop condition is evaluated again: two inserters of "
               "one key could both win in different groups", site="%s@loser" % inst)

    # R7 agreement
    by_table = {}
    for key, (fn, sig, table) in advance_sig.items():
        by_table.setdefault(table, []).append((fn, sig))
    n7 = 0
    for table, lst in sorted(by_table.items()):
        ins = [x for x in lst if x[0] in inserters]
        fnd = [x for x in lst if x[0] in finders]
        if not ins or not fnd:
            continue
        ref = ins[0][1]
        for fn, sig in ins[1:] + fnd:
            n7 += 1
            ctx.ob("C03.R7", L.short(fn), bool(sig) and sig == ref, fn.loc,
                   "lookup and insertion advance their probe position differently: insertion does %s, this function does "
                   "%s - a key placed in a group the lookup never visits (or visits after a group with a free byte) is "
                   "reported absent" % (ref, sig), site="%s@probe-advance" % L.short(fn))
        shape_ok = len(ref) == 2 and ref[0][0] == "+=" and ref[1][0] == "=" and ref[0][1] in ref[1][2] and ref[1][1] in ref[1][2]
        ctx.ob("C03.R7b", L.short(ins[0][0]), shape_ok, ins[0][0].loc,
               "probe advance must be 'step += G; base = (base + step) & mask' (triangular, covers every group of a 2^n table): %s" % ref)
    ctx.floor("C03.R7", n7, 3, "lookup/insert probe pairs")

    # ---------------------------------------------------------------- R5 growth chain
    trans = fb.find(pred=lambda f: (TRANS.match(f.record or "") or re.match(r"^babylon::ConcurrentTransientHashSet<.*>::Iterator<.*>$", f.record or ""))
                    and f.has_cfg() and not f.lambda_)
    ctx.floor("C03.trans", len(trans), 30, "ConcurrentTransientHashSet member instances")
    n5 = 0
    for fn in trans:
        ig = IG(fn, inline=nin)
        live = ig.live_nodes()
        nops = [a for a in A.atomic_ops(ig, live) if a.op != "fence" and L.deep_find(ig, a.obj, NEXT_FIELD) is not None]
        if not nops:
            continue
        inst = L.short(fn)
        concurrent_api = fn.name in ("emplace", "find", "begin", "operator++", "size", "total_size", "insert", "contains",
                                     "count", "empty")
        for a in nops:
            if a.unresolved:
                ctx.broken("unresolved order at %s" % a.node.where)
            if a.op == "load" and concurrent_api:
                ctx.ob("C03.R5a", "%s@%s" % (inst, a.node.line), A.acquires(a.order), a.node.where,
                       "chain pointer 'next' loaded with %s on a path concurrent with growth: the new table's memory "
                       "is published through this pointer" % A.ORDER_NAME.get(a.order))
            if a.op == "cas":
                ctx.ob("C03.R5b", "%s@%s" % (inst, a.node.line), A.releases(a.order) and A.acquires(a.fail_order),
                       a.node.where, "growth CAS must release (publishes the table) and acquire on failure (the loser "
                       "continues in the winner's table): %s/%s" % (A.ORDER_NAME.get(a.order), A.ORDER_NAME.get(a.fail_order)))
        cas = [a for a in nops if a.op == "cas"]
        if not cas:
            continue
        n5 += 1
        cas_ids = set(a.node.id for a in cas)
        succ = L.result_edges(ig, cas_ids, True, live)
        fail = L.result_edges(ig, cas_ids, False, live)
        news = [n for n in ig.ev_nodes() if n.id in live and n.ev["e"] == "new" and not n.ev.get("placement")]
        dels = [n for n in ig.ev_nodes() if n.id in live and n.ev["e"] == "delete" and
                any(ig.ev_of(o) in news for o in ig.origins(ig.resolve(n.ev["x"], n.frame)))]
        ok = len(news) == 1 and bool(succ) and bool(fail) and bool(dels)
        if ok:
            N = news[0]
            ok = all(any(ig.ev_of(o) is N for o in ig.origins(ig.rarg(c.node, 1))) for c in cas)
            r = ig.reach([m for m, _ in N.succ], removed=[c.node for c in cas])
            ok = ok and ig.exit.id not in r and N.id not in r
            for (s_, d_) in fail:
                r = ig.reach([ig.nodes[d_]], removed=dels)
                if ig.exit.id in r or N.id in r or any(h.node.id in r for h in cas):
                    ok = False
            for (s_, d_) in succ:
                r = ig.reach([ig.nodes[d_]], removed=[N])
                if any(d.id in r for d in dels):
                    ok = False
        ctx.ob("C03.R5c", inst, ok, fn.loc,
               "a freshly allocated growth table must be CAS-published as node->next or deleted - exactly one of the two "
               "- before the loop continues or returns", site="%s@growth" % inst)
        # size of the new table doubles the full one
        for N in news:
            arg = None
            init = ig.ev_of(strip_cast(ig.resolve(N.ev.get("init"), N.frame))) if N.ev.get("init") else None
            if init is not None and init.ev.get("args"):
                arg = strip_cast(ig.rarg(init, 0))
            ok2 = isinstance(arg, dict) and arg.get("k") == "b" and arg.get("op") == "<<" and const_val(arg["r"]) >= 1 and \
                ig.ev_of(strip_cast(arg["l"])) is not None and ig.ev_of(strip_cast(arg["l"])).ev.get("name") == "bucket_count"
            ctx.ob("C03.R5d", inst, ok2, N.where, "a growth table must be at least twice the bucket count of the full table it follows")
        # R5e the chain-level verdict is the table-level verdict: every pair returned carries the `.second` of the table emplace
        # whose position it carries (or a literal false) - never a verdict of its own
        if fn.name == "emplace":
            rets = [n for n in ig.ev_nodes() if n.id in live and n.ev["e"] == "ret" and n.frame.id == 0]
            tabs = [n for n in ig.ev_nodes() if n.id in live and n.ev["e"] == "call" and n.ev.get("name") in ("emplace", "do_emplace") and
                    re.match(r"^babylon::ConcurrentFixedSwissTable<.*>$", n.ev.get("rec", "") or "")]
            okv = bool(rets) and bool(tabs)
            for r_ in rets:
                c_ = ig.ev_of(strip_cast(ig.resolve(r_.ev.get("v"), r_.frame)))
                if c_ is None or c_.ev["e"] != "ctor" or len(c_.ev.get("args", [])) != 2:
                    okv = False
                    continue
                flag = strip_cast(ig.resolve(c_.ev["args"][1], c_.frame))
                if const_val(flag) == 0:
                    continue
                src = None
                if isinstance(flag, dict) and flag.get("k") == "f" and flag.get("n") == "second":
                    os_ = ig.origins_at(strip_cast(flag.get("b")), c_)
                    src = [ig.ev_of(strip_cast(o)) for o in os_]
                pos_src = []
                for sd in walk(ig.resolve(c_.ev["args"][0], c_.frame)):
                    if isinstance(sd, dict) and sd.get("k") == "e":
                        e_ = ig.ev_of(sd)
                        for a_ in (e_.ev.get("args", []) if e_ is not None else []):
                            a_ = strip_cast(ig.resolve(a_, e_.frame))
                            if isinstance(a_, dict) and a_.get("k") == "f" and a_.get("n") == "first":
                                pos_src += [ig.ev_of(strip_cast(o)) for o in ig.origins_at(strip_cast(a_.get("b")), e_)]
                okv = okv and bool(src) and all(x in tabs for x in src) and (not pos_src or set(x.id for x in pos_src if x is not None) == set(x.id for x in src))
            ctx.ob("C03.R5e", inst, okv, fn.loc,
                   "the success flag returned by the chain-level emplace must be the `.second` of the table-level emplace that produced "
                   "the position it returns: a table that is already published can be reached by another inserter of the same key, so "
                   "'I appended this table' does not imply 'I inserted this key'", site="%s@verdict" % inst)
    ctx.floor("C03.R5", n5, 3, "growth functions (CAS on next)")


SWEEP = ["concurrent/test_transient_hash_table.cpp"]


# name anchors (validated by tools/rename_sweep.py; a vanished name is exit 2, see core.check_anchor_names)
ANCHORS = {
    '_bucket_mask': ['^babylon::ConcurrentFixedSwissTable(<|$)'],
    '_controls': ['^babylon::ConcurrentFixedSwissTable(<|$)', '^babylon::internal::concurrent_transient_hash_table::Group(<|$)'],
    '_size': ['^babylon::ConcurrentFixedSwissTable(<|$)'],
}
