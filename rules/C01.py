"""C01 bounded queue: publication / exclusivity / ticket-claim clauses (DESIGN §4 C01)."""
import re

from bsa.core import driver
from bsa.graph import IG
from bsa import atomics as A
from bsa import lib as L
from bsa.facts import pstr, strip_cast, const_val

EXPLANATION = (
    "Structural necessary conditions of C01 decided on every template instantiation of the queue's "
    "callback-carrying functions (found by role: member of ConcurrentBoundedQueue that invokes a callable "
    "parameter): R1 the last observation of the slot word before the callback is acquire-effective (order or "
    "fence); R2 the version advance after the callback is release-effective, post-dominates the callback and "
    "never precedes it; R4 concurrent try_ variants run the callback only on the success edge of the ticket "
    "CAS which itself follows a slot observation; R5 who-may-touch slot payload / reset / ticket counters; "
    "R6 constants of the version protocol. FIFO order, multiset equality and try_ failure conditions are NOT decided.")

QUEUE_REC = re.compile(r"^babylon::ConcurrentBoundedQueue<.*>$")
SLOT_FUTEX_FIELD = L.field_pred(rec_re=r"ConcurrentBoundedQueue<.*>::SlotFutex$", type_re=r"^babylon::Futex<")
TICKET_FIELD = L.field_pred(rec_re=r"^babylon::ConcurrentBoundedQueue<.*>$", type_re=r"^std::atomic<unsigned long>$")


def units(tier):
    return [driver("bounded_queue.cc")]


def is_queue_fn(fn):
    return bool(QUEUE_REC.match(fn.record or ""))


def carriers(fb):
    return [fn for fn in fb.find(pred=lambda f: is_queue_fn(f) and f.has_cfg() and L.fn_has_param_invoke(f))]


def carrier_ig(fn, carrier_keys):
    def inline(frame, ev, callee):
        if callee.key in carrier_keys:
            return False
        if callee.lambda_:
            return False
        return True
    return IG(fn, inline=inline, for_once=True)


def slot_ops(ig, live):
    ops = A.atomic_ops(ig, live)
    slot, other, fences = [], [], []
    for a in ops:
        if a.op == "fence":
            fences.append(a)
        elif L.deep_find(ig, a.obj, SLOT_FUTEX_FIELD) is not None:
            slot.append(a)
        else:
            other.append(a)
    return slot, other, fences


def read_order(a):
    return a.fail_order if a.op == "cas" else a.order


def _type_of(fn, d):
    d0 = d
    d = strip_cast(d)
    if isinstance(d0, dict) and d0.get("k") == "cast":
        return d0.get("t")
    if not isinstance(d, dict):
        return None
    if d.get("k") == "p":
        i = d.get("i")
        return fn.params[i]["type"] if i is not None and i < len(fn.params) else None
    if d.get("k") == "l":
        return fn.vars.get(str(d.get("id")), {}).get("type")
    if d.get("k") == "e":
        ev = fn.events.get(d.get("id"))
        return ev.get("rtype") or ev.get("type") if ev else None
    return None


def version_width(ctx, rule, fb):
    """slot versions live modulo 2^16: the ticket -> version mapping must return the width SlotFutex::version() returns, and
    every (in)equality in a queue function that has a 16-bit operand compares it with a 16-bit operand"""
    from bsa.graph import cond_atoms
    vt = set(f.d.get("rtype") for f in fb.find(pred=lambda f: re.search(r"ConcurrentBoundedQueue<.*>::SlotFutex$", f.record or "") and f.name == "version"))
    n = 0
    for fn in fb.find(pred=lambda f: is_queue_fn(f) and f.name in ("push_version_for_index", "pop_version_for_index")):
        n += 1
        ctx.ob(rule, L.short(fn), len(vt) == 1 and fn.d.get("rtype") in vt, fn.loc,
               "the expected version of a ticket is returned as '%s' but a slot publishes its version as '%s' (modulo 2^16): after "
               "32768 laps of the ring the two are never equal again and every try_ operation fails on an empty / non-full queue" %
               (fn.d.get("rtype"), "/".join(sorted(str(x) for x in vt))), site="%s@version-width" % fn.name)
    for fn in fb.find(pred=lambda f: is_queue_fn(f) and f.has_cfg() and not f.lambda_):
        for bid, b in fn.blocks.items():
            if "cond" not in b:
                continue
            atom, _ = cond_atoms(b["cond"], True)
            c = L.cmp_parts(atom)
            if not c or c[0] not in ("==", "!="):
                continue
            tl, tr = _type_of(fn, c[1]), _type_of(fn, c[2])
            if tl is None or tr is None or "unsigned short" not in (tl, tr):
                continue
            n += 1
            ctx.ob(rule, "%s@%s" % (L.short(fn)[:100], b.get("cond_line")), tl == tr, "%s:%s" % (fn.file, b.get("cond_line")),
                   "a 16-bit slot version is compared with a value carried in '%s'" % (tr if tl == "unsigned short" else tl),
                   site="%s@version-compare" % fn.name)
    ctx.floor(rule, n, 6, "version mapping functions and version comparisons")


def geometry_rebase(ctx, rule, fb):
    """a queue function that changes the field the round number is computed from (_slot_bits) stores 0 to every ticket
    counter on every path through that write to a return (shared: every component that re-sizes its queue relies on it)"""
    n11 = 0
    for fn in fb.find(pred=lambda f: is_queue_fn(f) and f.has_cfg() and not f.lambda_):
        ig = IG(fn, inline=lambda a, b, c: False)
        live = ig.live_nodes()
        geo = [n for n in ig.ev_nodes() if n.id in live and n.ev["e"] == "asg" and
               isinstance(strip_cast(n.ev.get("lhs")), dict) and strip_cast(n.ev["lhs"]).get("n") == "_slot_bits"]
        if not geo:
            continue
        n11 += 1
        zero = {}
        for a in A.atomic_ops(ig, live):
            if a.op == "store" and L.deep_find(ig, a.obj, TICKET_FIELD) is not None:
                v = strip_cast(ig.rarg(a.node, 0))
                if const_val(v) == 0:
                    zero.setdefault(A.obj_field(a.obj)[0], []).append(a.node)
        tickets = sorted(f["name"] for rn, rec in fb.records().items() if QUEUE_REC.match(rn)
                         for f in rec.get("fields", []) if re.match(r"^std::atomic<unsigned long>$", f.get("type", "")))
        tickets = sorted(set(tickets))
        rets = [n for n in ig.ev_nodes() if n.id in live and n.ev["e"] == "ret" and n.frame.id == 0]
        for g in geo:
            for t in tickets:
                zs = zero.get(t, [])
                ok = bool(zs) and not (ig.path_exists(ig.entry, g, avoiding=zs, strict=False) and
                                       any(ig.path_exists(g, r_, avoiding=zs) for r_ in rets))
                ctx.ob(rule, "%s %s" % (L.short(fn)[:100], t), ok, g.where,
                       "the round of a ticket is <ticket> >> _slot_bits and rebuilt slots start at round 0: when _slot_bits changes, "
                       "%s must be stored 0 before the function returns, or no slot ever shows the version the next ticket waits for" % t,
                       site="%s@%s" % (fn.name, t))
    ctx.floor(rule, n11, 1, "functions that change the ring geometry")



def check_concurrent_tickets(ctx, fb, rule, floor=None):
    """every public queue operation that is concurrent by construction (CONCURRENT=true, or the compensating
    batch variants, which claim their own range by fetch_add) must never - on any path through its helpers,
    including the compensating opposite-side operation - write a ticket counter with a plain store: a
    non-atomic claim lets two concurrent callers own the same ticket (slot handed out twice)"""
    n = 0
    for fn in fb.find(pred=lambda f: is_queue_fn(f) and f.has_cfg() and f.d.get("access") == 0 and
                      f.name in ("push", "pop", "push_n", "pop_n", "try_push", "try_pop", "try_push_n", "try_pop_n")):
        conc = L.tparam(fn, "CONCURRENT")
        if conc == "false":
            continue
        ig = IG(fn, inline=lambda fr, ev, callee: not callee.lambda_)
        live = ig.live_nodes()
        slot, other, fences = slot_ops(ig, live)
        tick = [a for a in other if L.deep_find(ig, a.obj, TICKET_FIELD) is not None]
        if conc is None and not any(a.op == "rmw" and a.node.frame.owner_id == 0 for a in tick):
            continue        # a forwarding overload without flags: its target is checked on its own
        n += 1
        plain = [a for a in tick if a.op == "store"]
        atomic = [a for a in tick if a.op in ("rmw", "cas")]
        bad = plain[0] if plain else None
        ctx.ob(rule, L.short(fn), bad is None and bool(atomic), (bad.node.where if bad else fn.loc),
               "a concurrent queue operation reaches a plain store to a ticket counter (%s): the claim is not atomic, two "
               "concurrent callers can take the same ticket - the same slot (cached page / pooled object) is handed out "
               "twice" % (" <- ".join(reversed(bad.node.frame.chain()[-3:])) if bad else "no atomic claim at all"),
               site="%s@ticket" % L.short(fn))
    if floor is not None:
        ctx.floor(rule, n, floor, "concurrent public queue entries")
    return n


def errno_discipline(ctx, rule, fb):
    """a decision taken on `errno == <code>` after a call is only meaningful when errno was reset before that call: on every
    path from the function entry, and from the call itself around the loop back to it, an `errno = 0` precedes the call
    (a successful futex wake-up leaves errno untouched, so a stale ETIMEDOUT of an earlier timed wait on the same thread
    would end the wait loop with the slot still owned by somebody else)"""
    n = 0
    for fn in fb.find(pred=lambda f: f.has_cfg() and re.search(r"ConcurrentBoundedQueue<.*>::SlotFutex$", f.record or "")):
        ig = IG(fn, inline=lambda a, b, c: False)
        live = ig.live_nodes()
        elocs = set(x.id for x in ig.ev_nodes() if x.id in live and x.ev["e"] == "call" and x.ev.get("name") == "__errno_location")

        def is_errno(d):
            d = strip_cast(d)
            return isinstance(d, dict) and d.get("k") == "u" and d.get("op") == "*" and ig.ev_of(strip_cast(d.get("x"))) is not None and \
                ig.ev_of(strip_cast(d.get("x"))).id in elocs

        def errno_test(atom, pol, lab):
            c = L.effective_cmp(atom, pol)
            return c is not None and c[0] in ("==", "!=") and is_errno(c[1]) and isinstance(const_val(c[2]), int)
        tests = L.cond_edges(ig, errno_test, live)
        if not tests:
            continue
        resets = [x for x in ig.ev_nodes() if x.id in live and x.ev["e"] == "asg" and x.ev.get("op") == "=" and
                  is_errno(ig.resolve(x.ev.get("lhs"), x.frame)) and const_val(x.ev.get("rhs")) == 0]
        waits = [x for x in ig.ev_nodes() if x.id in live and x.ev["e"] == "call" and x.ev.get("name") == "wait" and
                 any(ig.path_exists(x, ig.nodes[s_]) for (s_, d_) in tests)]
        for w in waits:
            n += 1
            ok = bool(resets) and ig.dominated_by(w, resets) and w.id not in ig.reach([w], removed=resets, include_starts=False)
            ctx.ob(rule, "%s@%s" % (L.short(fn)[:100], w.line), ok, w.where,
                   "the wait loop decides on errno after this wait but errno is not reset before it on every path: a stale ETIMEDOUT "
                   "from an earlier timed wait of the same thread ends the loop on the first wake-up, and the caller runs its callback "
                   "on a slot it does not own", site="%s@errno-reset" % fn.name)
    return n


def run(ctx):
    fb = ctx.fb
    cs = carriers(fb)
    ckeys = set(f.key for f in cs)
    names = set(f.name for f in cs)
    ctx.floor("C01.roles", len(cs), 60, "callback-carrying queue function instances")
    for need in ("deal", "try_deal", "deal_n_continuously", "try_deal_n_continuously"):
        # role names are only used for the floor message; obligations attach by role
        pass
    ctx.floor("C01.role-kinds", len(names), 4, "distinct callback-carrying member templates")

    n_r4 = 0
    for fn in cs:
        ig = carrier_ig(fn, ckeys)
        if ig.truncated:
            ctx.broken("inlined graph of %s truncated" % fn.label)
        live = ig.live_nodes()
        slot, other, fences = slot_ops(ig, live)
        for a in slot + fences:
            if a.unresolved:
                ctx.broken("memory order of %s not resolvable to a constant" % a.describe())
        invokes = [n for n in ig.ev_nodes() if n.id in live and n.frame.owner_id == 0 and L.is_param_invoke(n)]
        if not invokes:
            continue
        inst = L.short(fn)
        reads = [a for a in slot if a.reads]
        strong = [a.node for a in reads if A.acquires(read_order(a))] + \
                 [f.node for f in fences if A.acquires(f.order)]
        weak = [a for a in reads if not A.acquires(read_order(a))]
        vwrites = [a for a in slot if a.op in ("store", "rmw")]
        rel_fences = [f.node for f in fences if A.releases(f.order)]
        tcas = [a for a in other if a.op == "cas" and L.deep_find(ig, a.obj, TICKET_FIELD) is not None]
        for I in invokes:
            site = "%s@callback" % inst
            # R1a some observation dominates the callback
            ctx.ob("C01.R1a", inst, ig.dominated_by(I, [a.node for a in reads]), I.where,
                   "callback can run without any observation of the slot word", site=site)
            # R1b the last observation is acquire-effective
            bad = None
            for w in weak:
                if ig.path_exists(w.node, I, avoiding=strong):
                    bad = w
                    break
            detail = None
            if bad is not None:
                detail = ig.describe_path(ig.witness_path(bad.node, I, removed=strong))
            ctx.ob("C01.R1b", inst, bad is None, (bad.node.where if bad else I.where),
                   "slot word observed with %s (needs >= acquire, or an acquire fence before the callback) and the "
                   "callback at line %s is reachable without a stronger observation" %
                   (A.ORDER_NAME.get(read_order(bad)) if bad else "", I.line), detail, site=site)
            # R2a version advance post-dominates the callback
            ctx.ob("C01.R2a", inst, bool(vwrites) and ig.postdominated_by(I, [a.node for a in vwrites]), I.where,
                   "a path from the callback to the function exit does not advance the slot version", site=site)
            # R2b advance is release-effective
            bad = None
            for w in vwrites:
                if not ig.path_exists(I, w.node):
                    continue
                if A.releases(w.order):
                    continue
                if ig.path_exists(I, w.node, avoiding=rel_fences):
                    bad = w
                    break
            ctx.ob("C01.R2b", inst, bad is None, (bad.node.where if bad else I.where),
                   "slot version advanced with %s after the callback without a release fence in between" %
                   (A.ORDER_NAME.get(bad.order) if bad else ""), site=site)
            # R2c no advance before the callback
            bad = None
            for w in vwrites:
                if ig.path_exists(w.node, I):
                    bad = w
                    break
            ctx.ob("C01.R2c", inst, bad is None, (bad.node.where if bad else I.where),
                   "slot version is advanced on a path that reaches the callback afterwards: the peer may enter "
                   "the slot while the callback still runs", site=site)
            # R6a advance value is observed/expected version + 1
            for w in vwrites:
                if not ig.path_exists(I, w.node):
                    continue
                val = ig.rarg(w.node, 0)
                ok = False
                for o in ig.origins(val):
                    o = strip_cast(o)
                    if isinstance(o, dict) and o.get("k") == "b" and o.get("op") == "+" and \
                            (const_val(o.get("r")) == 1 or const_val(o.get("l")) == 1):
                        ok = True
                    else:
                        ok = False
                        break
                ctx.ob("C01.R6a", inst, ok, w.node.where,
                       "value stored as the next slot version is not <expected version> + 1: %s" % pstr(val),
                       site="%s@advance" % inst)
            # R3 batch range agreement: every slot whose payload the callback receives is observed before and
            # advanced after - the slot words touched are exactly [first, first + count) of the callback range
            if len(I.ev.get("args", [])) == 2:
                rng = []
                for k in (0, 1):
                    a = ig.rarg(I, k)
                    n_ = ig.ev_of(strip_cast(a))
                    if n_ is not None and n_.ev.get("name") == "value_iterator":
                        rng.append(strip_cast(ig.rarg(n_, 0)))
                if len(rng) != 2:
                    ctx.broken("%s: cannot read the slot range handed to the batch callback" % inst)
                first, end = rng
                cnt = None
                if isinstance(end, dict) and end.get("k") == "b" and end.get("op") == "+" and pstr(end["l"]) == pstr(first):
                    cnt = strip_cast(end["r"])
                ctx.ob("C01.R3a", inst, cnt is not None, I.where,
                       "batch callback range is not [first, first + count): %s .. %s" % (pstr(first), pstr(end)),
                       site=site)

                def ranged(op):
                    """slot index of this access is first + i, i the induction variable of `for (i = 0; i < count; ..)`"""
                    call = L.deep_find(ig, op.obj, lambda d: d.get("k") == "e" and ig.ev_of(d) is not None and
                                       ig.ev_of(d).ev.get("name") == "futex" and ig.ev_of(d).frame.owner_id == 0)
                    if call is None:
                        return False, "slot not selected through the slot vector in this function"
                    idx = strip_cast(ig.rarg(ig.ev_of(call), 0))
                    if not (isinstance(idx, dict) and idx.get("k") == "b" and idx.get("op") == "+" and
                            pstr(idx["l"]) == pstr(first)):
                        return False, "slot index %s is not <first slot of the callback range> + i" % pstr(idx)
                    iv = strip_cast(idx["r"])
                    if not (isinstance(iv, dict) and iv.get("k") == "l"):
                        return False, "slot index %s does not range over the batch" % pstr(idx)
                    init_ok = any(how == "decl" and const_val(r_) == 0 for n2, r_, how in ig.local_defs(ig.frames[0], iv["id"]))
                    bound_ok = False
                    for bid, b in fn.blocks.items():
                        if b.get("term") == "ForStmt" and "cond" in b:
                            c = L.cmp_parts(b["cond"])
                            if c and c[0] == "<" and strip_cast(c[1]).get("k") == "l" and \
                                    strip_cast(c[1]).get("id") == iv["id"] and cnt is not None and \
                                    pstr(ig.resolve(c[2], ig.frames[0])) == pstr(cnt):
                                bound_ok = True
                    if not (init_ok and bound_ok):
                        return False, "slot index %s: '%s' does not run from 0 to the callback's count %s" % (
                            pstr(idx), iv.get("n"), pstr(cnt))
                    return True, ""
                for a in [x for x in reads if ig.path_exists(x.node, I)] + [x for x in vwrites if ig.path_exists(I, x.node)]:
                    ok, why = ranged(a)
                    ctx.ob("C01.R3b", "%s@%s" % (inst, a.node.line), ok, a.node.where,
                           "a batch operation must observe/advance every slot it hands to the callback: " + why,
                           site="%s@range" % inst)
            # R4 ticket CAS
            if tcas:
                n_r4 += 1
                cas_ids = set(a.node.id for a in tcas)
                succ_edges = [(s.id, d.id) for s, d, lab in ig.edges_where(
                    lambda s, d, lab: A.is_cas_success_edge(ig, s, d, lab, cas_ids) is not None)]
                ok = bool(succ_edges) and I.id not in ig.reach([ig.entry], removed_edges=succ_edges)
                ctx.ob("C01.R4a", inst, ok, I.where,
                       "callback is reachable without passing the success edge of the ticket compare-exchange",
                       site=site)
                for c in tcas:
                    ctx.ob("C01.R4b", inst, ig.dominated_by(c.node, [a.node for a in reads]), c.node.where,
                           "ticket is claimed before the slot was observed ready", site="%s@ticket-cas" % inst)

    ctx.floor("C01.R4", n_r4, 10, "concurrent try_ instances with a ticket CAS")

    # ---- R4c: a CONCURRENT=true public try_ entry must reach a ticket CAS (else two callers share a ticket)
    n = 0
    for fn in fb.find(pred=lambda f: is_queue_fn(f) and f.name in ("try_push", "try_pop", "try_push_n", "try_pop_n")
                      and L.tparam(f, "CONCURRENT") == "true" and f.has_cfg()):
        ig = IG(fn, inline=lambda fr, ev, callee: not callee.lambda_)
        live = ig.live_nodes()
        slot, other, fences = slot_ops(ig, live)
        tc = [a for a in other if a.op in ("cas", "rmw") and L.deep_find(ig, a.obj, TICKET_FIELD) is not None]
        n += 1
        ctx.ob("C01.R4c", L.short(fn), bool(tc), fn.loc,
               "CONCURRENT=true try_ operation claims its ticket without an atomic read-modify-write")
    ctx.floor("C01.R4c", n, 8, "CONCURRENT=true public try_ entries")

    # ---------------------------------------------------------------- R12 the entry points without flags are the concurrent ones (K23, after seed C15-5)
    QNAMES = ("push", "try_push", "push_n", "try_push_n", "pop", "try_pop", "pop_n", "try_pop_n")
    n12 = L.flag_forwarding(ctx, "C01.R12", fb, QUEUE_REC.pattern, QNAMES, ("CONCURRENT",),
                            "with CONCURRENT=false the ticket is advanced by a separate load and store and two callers get the same slot")
    ctx.floor("C01.R12", n12, 12, "forwarding overloads of push / pop and their try_ / _n variants")
    n = 0
    for fn in fb.find(pred=lambda f: is_queue_fn(f) and f.name in ("push", "pop", "push_n", "pop_n")
                      and L.tparam(f, "CONCURRENT") == "true" and f.has_cfg()
                      and L.fn_calls(f, callee_re=r"::(deal|deal_n_continuously)$") is not None):
        tick = []
        for bid, ev in fn.all_events():
            if ev["e"] == "call" and ev.get("name") in ("fetch_add",) and \
                    strip_cast(ev.get("this", {})).get("t", "").startswith("std::atomic<unsigned long>"):
                tick.append(ev)
        stores = [ev for bid, ev in fn.all_events() if ev["e"] == "call" and ev.get("name") == "store"
                  and strip_cast(ev.get("this", {})).get("t", "").startswith("std::atomic<unsigned long>")]
        has_direct = any(True for bid, ev in fn.all_events() if ev["e"] == "call" and ev.get("name") in
                         ("deal", "deal_n_continuously"))
        if not has_direct:
            continue
        n += 1
        # reachable part only
        ig = IG(fn, inline=lambda fr, ev, callee: False)
        live = ig.live_nodes()
        live_tick = [e for e in tick if ig.frames[0].ev_node[e["id"]].id in live]
        live_store = [e for e in stores if ig.frames[0].ev_node[e["id"]].id in live]
        ctx.ob("C01.R4d", L.short(fn), bool(live_tick) and not live_store, fn.loc,
               "CONCURRENT=true blocking operation must take its ticket with fetch_add and never with load+store")
    ctx.floor("C01.R4d", n, 8, "CONCURRENT=true blocking entries")

    check_concurrent_tickets(ctx, fb, "C01.R4e", floor=30)

    # ---- R5 who-may
    allowed_payload = ckeys
    cnt = 0
    for fn in fb.find(pred=lambda f: f.has_cfg()):
        for bid, ev in fn.all_events():
            if ev["e"] != "call":
                continue
            callee = ev.get("callee", "")
            if re.search(r"ConcurrentBoundedQueue<.*>::SlotVector::(value|value_iterator)$", callee):
                cnt += 1
                ctx.ob("C01.R5a", "%s -> %s" % (L.short(fn), ev["name"]), fn.key in allowed_payload,
                       "%s:%s" % (fn.file, ev["line"]),
                       "slot payload accessor called outside the functions that own a slot turn")
            if re.search(r"ConcurrentBoundedQueue<.*>::SlotFutex::reset$", callee):
                ctx.ob("C01.R5b", "%s -> reset" % L.short(fn), fn.name == "reserve_and_clear" and is_queue_fn(fn),
                       "%s:%s" % (fn.file, ev["line"]), "slot version reset outside reserve_and_clear")
            if ev.get("name") in ("store", "operator=", "fetch_add", "exchange", "compare_exchange_weak",
                                  "compare_exchange_strong", "fetch_sub", "operator++", "operator--", "operator+="):
                th = strip_cast(ev.get("this"))
                if isinstance(th, dict) and TICKET_FIELD(th):
                    ok = is_queue_fn(fn) and fn.name in (
                        "push", "pop", "push_n", "pop_n", "try_deal", "try_deal_n_continuously", "swap",
                        "reserve_and_clear")
                    ctx.ob("C01.R5c", "%s writes %s" % (L.short(fn), th.get("n")), ok,
                           "%s:%s" % (fn.file, ev["line"]),
                           "ticket counter written outside the push/pop/try_/swap/reserve_and_clear family")
    ctx.floor("C01.R5a", cnt, 60, "slot payload accessor call sites")

    # ---- R6b/c constants of the version mapping
    for fn in fb.find(pred=lambda f: is_queue_fn(f) and f.name == "pop_version_for_index"):
        rets = [ev for b, ev in fn.all_events() if ev["e"] == "ret"]
        ok = False
        for r in rets:
            v = strip_cast(r.get("v"))
            if isinstance(v, dict) and v.get("k") == "b" and v.get("op") == "+" and const_val(v.get("r")) == 1:
                l = strip_cast(v.get("l"))
                if isinstance(l, dict) and l.get("k") == "e":
                    ce = fn.events.get(l["id"])
                    ok = bool(ce) and ce.get("name") == "push_version_for_index"
        ctx.ob("C01.R6b", L.short(fn), ok, fn.loc, "pop version must be push version of the same index + 1")
    for fn in fb.find(pred=lambda f: is_queue_fn(f) and f.name == "push_version_for_index"):
        rets = [ev for b, ev in fn.all_events() if ev["e"] == "ret"]
        ok = False
        for r in rets:
            v = strip_cast(r.get("v"))
            if isinstance(v, dict) and v.get("k") == "b" and v.get("op") == "<<" and const_val(v.get("r")) == 1:
                l = strip_cast(v.get("l"))
                if isinstance(l, dict) and l.get("k") == "b" and l.get("op") == ">>" and \
                        strip_cast(l.get("l")).get("k") == "p" and strip_cast(l.get("r")).get("n") == "_slot_bits":
                    ok = True
        ctx.ob("C01.R6c", L.short(fn), ok, fn.loc, "push version must be (index >> slot_bits) << 1 (round number, even)")

    # ---------------------------------------------------------------- R7 a batch split at the ring end stays contiguous
    n7 = 0
    for fn in fb.find(pred=lambda f: is_queue_fn(f) and f.has_cfg() and not f.lambda_):
        ig = IG(fn, inline=lambda a, b, c: False)
        live = ig.live_nodes()
        # partial batch steps: calls into the queue that take (callback, index, num) and report how many they handled
        parts = [n for n in ig.ev_nodes() if n.id in live and n.ev["e"] == "call" and len(n.ev.get("args", [])) == 3 and
                 re.search(r"ConcurrentBoundedQueue<.*>::\w+$", n.ev.get("callee", "") or "") and
                 re.search(r"unsigned long|size_t", n.ev.get("rtype", "") or "")]
        for a in parts:
            for b in parts:
                if a is b or not ig.path_exists(a, b):
                    continue
                n7 += 1
                want = pstr(strip_cast(ig.rarg(a, 2)))

                def complete(atom, pol, lab, a=a, want=want):
                    c = L.effective_cmp(atom, pol)
                    if c is None:
                        return False
                    op, l, r = c
                    if any(ig.ev_of(o) is a for o in ig.origins(r)):
                        op, l, r = L.SWAP[op], r, l
                    if not any(ig.ev_of(o) is a for o in ig.origins(l)):
                        return False
                    return op in (">=", "==") and pstr(strip_cast(ig.resolve(r, lab.frame) if False else r)) == want
                ce = L.cond_edges(ig, complete, live)
                ctx.ob("C01.R7", "%s@%s" % (L.short(fn)[:100], b.line), bool(ce) and b.id not in ig.reach([ig.entry], removed_edges=ce),
                       b.where,
                       "the second piece of a batch that wraps the ring end may only run when the first piece was handled completely "
                       "(result == requested): otherwise an exclusive producer/consumer, whose ticket is advanced by a plain store, "
                       "jumps over the slot that was not ready - that ticket is never served and everything behind it is stranded",
                       site="%s@split-batch" % fn.name)
    ctx.floor("C01.R7", n7, 6, "split batches in try_push_n / try_pop_n instances")

    # ---------------------------------------------------------------- R8 the two pieces of a wrapping batch partition it
    # (linear identities over the call arguments: piece 2 starts where piece 1 ends, the counts add up to the count of the
    # unsplit call, both start at the same ticket; the boundary is the next multiple of the capacity)
    n8 = 0
    for fn in fb.find(pred=lambda f: is_queue_fn(f) and f.has_cfg() and not f.lambda_):
        ig = IG(fn, inline=lambda a, b, c: False)
        live = ig.live_nodes()
        steps = [n for n in ig.ev_nodes() if n.id in live and n.ev["e"] == "call" and len(n.ev.get("args", [])) >= 3 and
                 re.search(r"ConcurrentBoundedQueue<.*>::(try_)?deal_n_continuously$", n.ev.get("callee", "") or "")]
        if len(steps) != 3:
            continue
        seq = [(a, b) for a in steps for b in steps if a is not b and ig.path_exists(a, b)]
        if len(seq) != 1:
            continue
        p1, p2 = seq[0]
        whole = [x for x in steps if x is not p1 and x is not p2][0]
        n8 += 1
        st = lambda n: L.linear(ig, n.ev["args"][-2], n.frame)
        ct = lambda n: L.linear(ig, n.ev["args"][-1], n.frame)
        ok = L.lin_eq(st(p1), st(whole)) and L.lin_eq(st(p2), L.lin_add(st(p1), ct(p1))) and \
            L.lin_eq(L.lin_add(ct(p1), ct(p2)), ct(whole))
        # the boundary: (index + mask + 1) & ~mask
        bd = strip_cast(ig.resolve(p2.ev["args"][-2], p2.frame))
        shape = False
        for o in ig.origins(bd):
            o = strip_cast(o)
            if isinstance(o, dict) and o.get("k") == "b" and o.get("op") == "&":
                l_, r_ = strip_cast(o.get("l")), strip_cast(o.get("r"))
                la = L.linear(ig, l_, None)
                neg = isinstance(r_, dict) and r_.get("k") == "u" and r_.get("op") == "~" and strip_cast(r_.get("x")).get("n") == "_slot_mask"
                shape = neg and la[1] == 1 and sorted(la[0].values()) == [1, 1] and any("_slot_mask" in k_ for k_ in la[0]) and \
                    L.lin_eq(L.lin_add((dict((k_, v_) for k_, v_ in la[0].items() if "_slot_mask" not in k_), 0), st(p1), -1), ({}, 0))
        ctx.ob("C01.R8", "%s@%s" % (L.short(fn)[:100], p2.line), ok and shape, p2.where,
               "a batch that wraps the ring end must be split exactly: piece 1 = [ticket, boundary), piece 2 = [boundary, ticket + n) "
               "with boundary = (ticket + mask + 1) & ~mask; got starts %s / %s, counts %s + %s vs %s" % (
                   st(p1), st(p2), ct(p1), ct(p2), ct(whole)), site="%s@split-arithmetic" % fn.name)
    ctx.floor("C01.R8", n8, 20, "wrapping batch splits")

    # ---------------------------------------------------------------- R9 ticket -> slot and ticket -> version mappings
    n9 = 0
    for fn in fb.find(pred=lambda f: is_queue_fn(f) and f.has_cfg() and not f.lambda_):
        ig = IG(fn, inline=lambda a, b, c: False)
        live = ig.live_nodes()
        inst = L.short(fn)[:110]
        acc = [n for n in ig.ev_nodes() if n.id in live and n.ev["e"] == "call" and n.ev.get("args") and
               re.search(r"ConcurrentBoundedQueue<.*>::SlotVector::(value|futex|value_iterator|futex_iterator)$", n.ev.get("callee", "") or "")]
        for a in acc:
            if fn.name in ("reserve_and_clear", "clear"):
                continue        # single-threaded maintenance: walks every slot by plain position, no ticket involved
            n9 += 1
            masked = False
            for o in ig.origins(ig.rarg(a, 0)):
                o = strip_cast(o)
                if isinstance(o, dict) and o.get("k") == "b" and o.get("op") == "&" and \
                        any(isinstance(strip_cast(x), dict) and strip_cast(x).get("n") == "_slot_mask" for x in (o.get("l"), o.get("r"))):
                    masked = True
                elif isinstance(o, dict) and o.get("k") == "b" and o.get("op") == "+":
                    # slot_index + i inside a contiguous piece (the piece never crosses the ring end: R8)
                    masked = any(isinstance(strip_cast(y), dict) and strip_cast(y).get("k") == "b" and strip_cast(y).get("op") == "&"
                                 for x in (o.get("l"), o.get("r")) for y in ig.origins(x))
            ctx.ob("C01.R9a", "%s@%s" % (inst, a.line), masked, a.where,
                   "a slot must be addressed by <ticket> & _slot_mask: any other mapping sends two live tickets to one slot or "
                   "leaves slots unused", site="%s@slot-index" % fn.name)
        pp = L.tparam(fn, "PUSH_OR_POP")
        if pp in ("true", "false"):
            names = [n.ev.get("name") for n in ig.ev_nodes() if n.id in live and n.ev["e"] == "call" and
                     n.ev.get("name") in ("push_version_for_index", "pop_version_for_index")]
            if names:
                n9 += 1
                want = "push_version_for_index" if pp == "true" else "pop_version_for_index"
                ctx.ob("C01.R9b", inst, set(names) == set([want]), fn.loc,
                       "a %s must wait for the %s version of its ticket (got %s): with the other mapping it takes the slot in the "
                       "wrong phase of the round" % ("push" if pp == "true" else "pop", "push" if pp == "true" else "pop", sorted(set(names))),
                       site="%s@version-mapping" % fn.name)
    ctx.floor("C01.R9", n9, 100, "slot accesses and version mappings")

    # ---------------------------------------------------------------- R11 a change of ring geometry re-bases both tickets
    geometry_rebase(ctx, "C01.R11", fb)
    # ---------------------------------------------------------------- R6d versions are 16 bits wide wherever they are compared
    version_width(ctx, "C01.R6d", fb)

    # ---------------------------------------------------------------- R10 errno is reset before a wait whose errno is tested
    errno_discipline(ctx, "C01.R10", fb)       # conditional: applies where a wait loop tests errno at all


SWEEP = ["concurrent/test_bounded_queue.cpp", "concurrent/test_bounded_queue_press_mpmc.cpp", "concurrent/test_execution_queue.cpp",
         "test_executor.cpp", "logging/test_async_file_appender.cpp"]


# name anchors (validated by tools/rename_sweep.py; a vanished name is exit 2, see core.check_anchor_names)
ANCHORS = {
    '_slot_bits': ['^babylon::ConcurrentBoundedQueue(<|$)'],
    '_slot_mask': ['^babylon::ConcurrentBoundedQueue(<|$)'],
    'pop_version_for_index': ['^babylon::ConcurrentBoundedQueue(<|$)'],
    'push_version_for_index': ['^babylon::ConcurrentBoundedQueue(<|$)'],
    'try_deal_n_continuously': ['^babylon::ConcurrentBoundedQueue(<|$)'],
}
