"""C15 transient topic (DESIGN §4 C15)."""
import re

from bsa.core import driver
from bsa.graph import IG
from bsa import atomics as A
from bsa import lib as L
from bsa.facts import pstr, strip_cast, const_val, walk

EXPLANATION = (
    "Structural clauses of C15 on ConcurrentTransientTopic<T,S> (inline and heap futex word): R1 in the per-block "
    "publish step the client callback is followed, on every path, by a release fence, then the status stores of every "
    "slot of the block, then a seq_cst fence, then the waiter re-load + wake of every slot; a CONCURRENT publisher takes "
    "its index range with one fetch_add(num) and non-concurrent ones with load+store, and the range handed to the "
    "callback is exactly [begin, begin+num); R2 close stores CLOSED into the slot at the next event index, then a "
    "seq_cst fence, then the waiter check; R3 a consumer counts a slot only on the edge where it saw PUBLISHED, stops "
    "at CLOSED, sleeps otherwise, advances its cursor by the count, and an acquire fence separates the status reads "
    "from handing out the range; R4 a consumer sleeps on the futex only after setting (CAS success) or seeing the "
    "waiter bit, installs observed+2^16, waits on the word it installed/observed, and the waker's threshold is 2^16 and "
    "wake_all cannot be skipped on the waiters-present edge; R5 clear() resets every slot word and the event index. "
    "Delivery order across blocks and termination of consumers are NOT decided.")

TOPIC = re.compile(r"^babylon::ConcurrentTransientTopic<.*>$")
SLOT_WORD = L.field_pred(rec_re=r"ConcurrentTransientTopic<.*>::SlotFutex$", type_re=r"^babylon::Futex<")
WAIT_RE = r"^babylon::Futex<.*>::wait$"
WAKE_RE = r"^babylon::Futex<.*>::wake_all$"
INITIAL, PUBLISHED, CLOSED = 0, 1, 2
UNIT = 65536


DEPENDS = {
    "C04": "the topic's slots live in a ConcurrentVector that grows while consumers hold slot addresses",
}

def units(tier):
    return [driver("topic.cc")]


def sf_inline(fr, ev, callee):
    return bool(re.search(r"ConcurrentTransientTopic<.*>::SlotFutex$|^babylon::Futex<", callee.record or "")) and not callee.lambda_


def nin(a, b, c):
    return False


def slot_ops(ig, live):
    ops = A.atomic_ops(ig, live)
    return ([a for a in ops if a.op != "fence" and L.deep_find(ig, a.obj, SLOT_WORD) is not None],
            [a for a in ops if a.op == "fence"])


def waiters_present(ig, live, ids):
    def pred(atom, pol, lab):
        c = L.effective_cmp(atom, pol)
        if c is None:
            return False
        op, l, r = c
        v = const_val(r)
        if not ((op == ">" and v == UNIT - 1) or (op == ">=" and v == UNIT)):
            return False
        return any(ig.ev_of(o) is not None and ig.ev_of(o).id in ids for o in ig.leaves(l))
    return L.cond_edges(ig, pred, live)


def run(ctx):
    fb = ctx.fb
    # ---------------------------------------------------------------- R1 publish step
    steps = fb.find(pred=lambda f: f.lambda_ and f.has_cfg() and re.search(r"ConcurrentTransientTopic<.*>::publish_n", f.outer or ""))
    ctx.floor("C15.R1", len(steps), 6, "per-block publish steps")
    for fn in steps:
        inst = L.short(fn)
        ig = IG(fn, inline=sf_inline, for_once=True)
        live = ig.live_nodes()
        sops, fences = slot_ops(ig, live)
        cbs = [n for n in ig.ev_nodes() if n.id in live and n.frame.owner_id == 0 and n.ev["e"] == "call" and
               n.ev.get("name") == "operator()" and strip_cast(n.ev.get("this", {})).get("k") == "cap"]
        stores = [a for a in sops if a.op == "store"]
        wloads = [a for a in sops if a.op == "load"]
        rel = [f.node for f in fences if A.releases(f.order)]
        sc = [f.node for f in fences if f.order == A.SEQ_CST]
        ok = len(cbs) == 1 and bool(stores) and bool(wloads)
        ctx.ob("C15.R1a", inst, ok, fn.loc, "publish step must run the callback once, store the status and check for waiters")
        if not ok:
            continue
        cb = cbs[0]
        ctx.ob("C15.R1b", inst, all(const_val(ig.rarg(s.node, 0)) == PUBLISHED for s in stores) and
               all(ig.dominated_by(s.node, [cb]) for s in stores) and ig.postdominated_by(cb, [s.node for s in stores]), fn.loc,
               "every slot of the block must be marked PUBLISHED after - and only after - the callback filled it")
        bad = any((not A.releases(s.order)) and ig.path_exists(cb, s.node, avoiding=rel) for s in stores)
        ctx.ob("C15.R1c", inst, not bad, fn.loc,
               "a status store can follow the callback without a release fence (or release order) in between: a consumer "
               "may see PUBLISHED before the item's contents")
        bad = any(ig.path_exists(s.node, l.node, avoiding=sc) for s in stores for l in wloads)
        ctx.ob("C15.R1d", inst, not bad, fn.loc,
               "the waiter re-load can follow the 16-bit status store without a seq_cst fence in between (lost wake-up)")
        ctx.ob("C15.R1e", inst, all(ig.postdominated_by(s.node, [l.node for l in wloads]) for s in stores), fn.loc,
               "a published slot is not checked for sleeping consumers on some path")
        # every slot of the block: status stores and waiter checks iterate [begin, end)
        def ranged(op):
            # the induction variable may live in a helper expanded into this lambda: resolve start and bound in the frame
            # that declares it (a helper's parameters resolve to the block bounds the lambda received)
            hidden = set(f.id for f in ig.frames if getattr(f.fn, "unknown_helper", False))
            v = L.deep_find(ig, op.obj, lambda d: d.get("k") == "l" and (d.get("fr") == 0 or d.get("fr") in hidden))
            if v is None:
                return False
            fr = ig.frames[v["fr"]]

            def is_root_param(d, i):
                d = strip_cast(ig.resolve(d, fr))
                return isinstance(d, dict) and d.get("k") == "p" and d.get("i") == i and d.get("fr", 0) == 0
            init_ok = any(how == "decl" and is_root_param(r_, 0) for n_, r_, how in ig.local_defs(fr, v["id"]))
            bound_ok = False
            for bid, b in fr.fn.blocks.items():
                if b.get("term") == "ForStmt" and "cond" in b:
                    c = L.cmp_parts(b["cond"])
                    if c and c[0] in ("!=", "<") and strip_cast(c[1]).get("k") == "l" and strip_cast(c[1]).get("id") == v["id"] and \
                            is_root_param(c[2], 1):
                        bound_ok = True
            return init_ok and bound_ok
        for a in stores + wloads:
            ctx.ob("C15.R1i", "%s@%s" % (inst, a.node.line), ranged(a), a.node.where,
                   "the status store / waiter check does not range over every slot [begin, end) of the block handed to the "
                   "callback: some published items never become visible (or their sleepers are never woken)")
        # callback range is exactly the block [begin, end)
        a0 = ig.ev_of(strip_cast(ig.rarg(cb, 0)))
        a1 = ig.ev_of(strip_cast(ig.rarg(cb, 1)))
        ok = a0 is not None and a1 is not None and strip_cast(ig.rarg(a0, 0)).get("k") == "p" and \
            strip_cast(ig.rarg(a1, 0)).get("k") == "p" and strip_cast(ig.rarg(a0, 0)).get("i") == 0 and strip_cast(ig.rarg(a1, 0)).get("i") == 1
        ctx.ob("C15.R1f", inst, ok, cb.where, "the callback must receive exactly the block handed to this step")
    pubs = fb.find(pred=lambda f: TOPIC.match(f.record or "") and f.name == "publish_n" and f.has_cfg() and
                   L.tparam(f, "CONCURRENT") is not None)
    ctx.floor("C15.R1g", len(pubs), 6, "publish_n<CONCURRENT> instances")
    for fn in pubs:
        inst = L.short(fn)
        ig = IG(fn, inline=nin)
        live = ig.live_nodes()
        idx = [a for a in A.atomic_ops(ig, live) if a.op != "fence" and strip_cast(a.obj).get("n") == "_next_event_index"]
        conc = L.tparam(fn, "CONCURRENT") == "true"
        if conc:
            ok = len(idx) == 1 and idx[0].op == "rmw" and idx[0].name == "fetch_add" and \
                strip_cast(ig.rarg(idx[0].node, 0)).get("k") == "p" and strip_cast(ig.rarg(idx[0].node, 0)).get("i") == 0
            ctx.ob("C15.R1g", inst, ok, fn.loc,
                   "a concurrent publisher must claim its index range with one fetch_add(num): with load+store two "
                   "publishers share slots")
        fe = list(L.call_nodes(ig, name="for_each", live=live))
        ok = len(fe) == 1
        if ok:
            b, e = ig.rarg(fe[0], 0), ig.rarg(fe[0], 1)
            es = ig.origins_at(e, fe[0])
            ok = all(isinstance(o, dict) and o.get("k") == "b" and o.get("op") == "+" and pstr(o["l"]) == pstr(b) and
                     strip_cast(o["r"]).get("k") == "p" for o in es) and bool(es)
            bs = ig.origins_at(b, fe[0])
            ok = ok and all(ig.ev_of(o) is not None and ig.ev_of(o).id in set(a.node.id for a in idx) for o in bs) and bool(bs)
        ctx.ob("C15.R1h", inst, ok, fn.loc, "the published range must be [claimed index, claimed index + num)")

    # ---------------------------------------------------------------- R2 close
    closes = fb.find(pred=lambda f: TOPIC.match(f.record or "") and f.name == "close" and f.has_cfg())
    ctx.floor("C15.R2", len(closes), 3, "close instances")
    for fn in closes:
        inst = L.short(fn)
        ig = IG(fn, inline=sf_inline)
        live = ig.live_nodes()
        sops, fences = slot_ops(ig, live)
        stores = [a for a in sops if a.op == "store"]
        wloads = [a for a in sops if a.op == "load"]
        sc = [f.node for f in fences if f.order == A.SEQ_CST]
        ok = bool(stores) and bool(wloads) and all(const_val(ig.rarg(s.node, 0)) == CLOSED for s in stores) and \
            not any(ig.path_exists(s.node, l.node, avoiding=sc) for s in stores for l in wloads) and \
            all(ig.postdominated_by(s.node, [l.node for l in wloads]) for s in stores)
        ctx.ob("C15.R2a", inst, ok, fn.loc, "close must store CLOSED, then a seq_cst fence, then check for sleeping consumers")
        ens = list(L.call_nodes(ig, name="ensure", live=live))
        ok = bool(ens) and all(any(ig.ev_of(o) is not None and A.classify(ig, ig.ev_of(o)) is not None and
                                   strip_cast(A.classify(ig, ig.ev_of(o)).obj).get("n") == "_next_event_index"
                                   for o in ig.origins(ig.rarg(e, 0))) for e in ens)
        ctx.ob("C15.R2b", inst, ok, fn.loc, "the end marker must be placed at the next event index")

    # ---------------------------------------------------------------- R3 consumer
    cons = fb.find(pred=lambda f: re.search(r"ConcurrentTransientTopic<.*>::Consumer$", f.record or "") and f.name == "consume"
                   and len(f.params) == 1 and f.has_cfg())
    ctx.floor("C15.R3", len(cons), 3, "Consumer::consume(num) instances")
    for fn in cons:
        inst = L.short(fn)
        ig = IG(fn, inline=nin)
        live = ig.live_nodes()
        fe = list(L.call_nodes(ig, name="for_each", live=live))
        acq = [a.node for a in A.atomic_ops(ig, live) if a.op == "fence" and A.acquires(a.order)]
        rets = [n for n in ig.ev_nodes() if n.id in live and n.ev["e"] == "ret"]
        ok = len(fe) == 1 and bool(acq) and not any(ig.path_exists(fe[0], r, avoiding=acq) for r in rets)
        ctx.ob("C15.R3a", inst, ok, fn.loc,
               "the consumed range is handed out without an acquire fence after the (relaxed) status reads: the consumer "
               "may read an item before the publisher's writes")
        adv = [n for n in ig.ev_nodes() if n.id in live and n.ev["e"] == "asg" and strip_cast(n.ev.get("lhs", {})).get("n") == "_next_consume_index"]
        ok = len(adv) == 1 and adv[0].ev["op"] == "+=" and strip_cast(adv[0].ev["rhs"]).get("n") == "consumed" and ig.dominated_by(adv[0], fe)
        ctx.ob("C15.R3b", inst, ok, fn.loc, "the consumer cursor must advance by exactly the number of slots seen PUBLISHED")
        lam = L.lambda_of(ig, ig.rarg(fe[0], 2)) if fe else None
        if lam is None:
            ctx.broken("%s: slot walk callback not found" % inst)
        lig = IG(lam, inline=nin)
        llive = lig.live_nodes()
        pub = set(n.id for n in L.call_nodes(lig, name="is_published", live=llive))
        clo = set(n.id for n in L.call_nodes(lig, name="is_closed", live=llive))
        waits = list(L.call_nodes(lig, name="wait_until_ready", live=llive))
        pe = L.result_edges(lig, pub, True, llive)
        ce = L.result_edges(lig, clo, True, llive)
        counts = [n for n in lig.ev_nodes() if n.id in llive and n.ev["e"] == "asg" and strip_cast(n.ev.get("lhs", {})).get("n") == "consumed"]
        ok = bool(pe) and bool(counts) and all(c.id not in lig.reach([lig.entry], removed_edges=pe) for c in counts) and \
            all(c.ev["op"] == "++" for c in counts)
        ctx.ob("C15.R3c", inst, ok, lam.loc, "a slot is counted as consumed without having been observed PUBLISHED")
        ok = bool(ce)
        for (s, d) in ce:
            r = lig.reach([lig.nodes[d]])
            if any(c.id in r for c in counts) or any(w.id in r for w in waits):
                ok = False
        ctx.ob("C15.R3d", inst, ok, lam.loc, "after observing CLOSED the consumer must stop (no further counting or waiting)")
        # R3f the walk is handed to the snapshot block by block: CLOSED must also end the following invocations
        flags = L.sticky_flags(lig, llive, ce)
        nofl = L.flag_edges(lig, flags, False)
        r = L.reach_across_invocations(lig, [lig.nodes[d] for (_, d) in ce], nofl)
        again = [n for n in counts + waits if n.id in r]
        ctx.ob("C15.R3f", inst, bool(ce) and not again, lam.loc,
               "the slot walk runs once per block of the slot vector: after CLOSED was seen in one block the walk of the next block "
               "still counts or waits (line %s) - items behind the end marker (stale slots of an earlier cycle) are delivered, or the "
               "consumer sleeps for ever" % (again[0].line if again else "?"), site="consume@closed-is-sticky")
        # R3g the range handed out starts at the cursor as it was before the advance and the walk covers [cursor, cursor + num)
        ok = False
        rng = [n for n in ig.ev_nodes() if n.id in live and n.ev["e"] == "ctor" and re.search(r"ConsumeRange$", n.ev.get("type", "") or n.ev.get("callee", "") or "")
               and len(n.ev.get("args", [])) == 3]
        if rng and fe and adv:
            def cursor_before(d, at):
                """d, evaluated at node `at`, is the cursor as it was before the advance: a local copied from the cursor field
                by a definition the advance cannot precede, or the field itself read where the advance has not happened yet"""
                d = strip_cast(ig.resolve(d, at.frame))
                if isinstance(d, dict) and d.get("k") == "l" and "fr" in d:
                    defs = ig.local_defs(ig.frames[d["fr"]], d["id"])
                    return len(defs) == 1 and defs[0][1] is not None and strip_cast(defs[0][1]).get("n") == "_next_consume_index" and \
                        not ig.path_exists(adv[0], defs[0][0], strict=False)
                return isinstance(d, dict) and d.get("n") == "_next_consume_index" and not ig.path_exists(adv[0], at, strict=False)
            b0 = ig.rarg(fe[0], 0)
            e0 = L.linear(ig, fe[0].ev["args"][1], fe[0].frame)
            bl = L.linear(ig, fe[0].ev["args"][0], fe[0].frame)
            nump = [k for k in e0[0] if k not in bl[0]]
            ok = all(cursor_before(r_.ev["args"][1], r_) and strip_cast(ig.resolve(r_.ev["args"][2], r_.frame)).get("n") == "consumed" for r_ in rng) and \
                cursor_before(fe[0].ev["args"][0], fe[0]) and e0[1] == bl[1] and len(nump) == 1 and all(e0[0].get(k) == v for k, v in bl[0].items())
        ctx.ob("C15.R3g", inst, ok, fn.loc,
               "the range handed out must be (cursor before the advance, number counted) and the walk must cover exactly "
               "[cursor, cursor + num): any other window skips or repeats items", site="consume@range")
        ok = bool(waits) and all(w.id not in lig.reach([lig.entry], removed_edges=L.result_edges(lig, pub, False, llive)) for w in waits)
        ctx.ob("C15.R3e", inst, ok, lam.loc, "the consumer must sleep only on a slot that is neither PUBLISHED nor CLOSED")

    # ---------------------------------------------------------------- R4 sleeper / waker
    sf = fb.find(pred=lambda f: re.search(r"ConcurrentTransientTopic<.*>::SlotFutex$", f.record or "") and f.has_cfg())
    n4 = n4w = 0
    for fn in sf:
        direct_wait = any(ev["e"] == "call" and re.search(WAIT_RE, ev.get("callee", "") or "") for _, ev in fn.all_events())
        direct_wake_entry = fn.name == "wakeup_waiters"
        if direct_wait:
            n4 += 1
            inst = L.short(fn)
            ig = IG(fn, inline=sf_inline)
            live = ig.live_nodes()
            sops, _ = slot_ops(ig, live)
            cas = [a for a in sops if a.op == "cas"]
            cas_ids = set(a.node.id for a in cas)
            succ = L.result_edges(ig, cas_ids, True, live)

            def seen(atom, pol, lab):
                c = L.effective_cmp(atom, pol)
                return c is not None and ((c[0] == ">" and const_val(c[2]) == UNIT - 1) or (c[0] == ">=" and const_val(c[2]) == UNIT))
            se = L.cond_edges(ig, seen, live)
            waits = list(L.call_nodes(ig, callee_re=WAIT_RE, live=live))
            r = ig.reach([ig.entry], removed_edges=succ + se)
            for w in waits:
                ctx.ob("C15.R4a", "%s@%s" % (inst, w.line), w.id not in r, w.where,
                       "futex wait reachable without having set or seen the waiter bit: the publisher sees no sleeper")
                leaves = ig.leaves(ig.rarg(w, 0))
                ok = all(isinstance(o, dict) and (o.get("k") in ("p", "c") or
                         (ig.ev_of(o) is not None and A.classify(ig, ig.ev_of(o)) is not None)) for o in leaves) and \
                    not all(isinstance(o, dict) and o.get("k") == "c" for o in leaves)
                ctx.ob("C15.R4b", "%s@%s" % (inst, w.line), ok, w.where, "value waited on does not derive from the slot word")
            for c in cas:
                tot = None
                for o in ig.origins(ig.rarg(c.node, 1)):
                    import C02
                    tot, rest = C02.plus_consts(ig, o)
                ctx.ob("C15.R4c", inst, tot == UNIT, c.node.where, "waiter registration must install observed + 65536")
            # loop continues only while INITIAL is observed; leaves when status changed
        if direct_wake_entry:
            n4w += 1
            inst = L.short(fn)
            ig = IG(fn, inline=sf_inline)
            live = ig.live_nodes()
            sops, _ = slot_ops(ig, live)
            loads = set(a.node.id for a in sops if a.op == "load")
            we = waiters_present(ig, live, loads)
            wakes = list(L.call_nodes(ig, callee_re=WAKE_RE, live=live))
            ok = bool(we) and bool(wakes)
            for (s, d) in we:
                if ig.exit.id in ig.reach([ig.nodes[d]], removed=wakes):
                    ok = False
            ctx.ob("C15.R4d", inst, ok, fn.loc,
                   "when the re-loaded word shows a sleeper (>= 65536) wake_all must be unavoidable")
    ctx.floor("C15.R4", n4, 3, "sleeping functions")
    ctx.floor("C15.R4d", n4w, 3, "waker functions")

    # ---------------------------------------------------------------- R5 clear
    for fn in fb.find(pred=lambda f: TOPIC.match(f.record or "") and f.name == "clear" and f.has_cfg()):
        ig = IG(fn, inline=nin)
        live = ig.live_nodes()
        fe = list(L.call_nodes(ig, name="for_each", live=live))
        ok = len(fe) == 1 and const_val(ig.rarg(fe[0], 0)) == 0
        if ok:
            e = ig.ev_of(strip_cast(ig.rarg(fe[0], 1)))
            ok = e is not None and e.ev.get("name") == "size"
            lam = L.lambda_of(ig, ig.rarg(fe[0], 2))
            ok = ok and lam is not None and any(ev["e"] == "call" and ev.get("name") == "reset" for _, ev in lam.all_events())
        idx = [a for a in A.atomic_ops(ig, live) if a.op == "store" and strip_cast(a.obj).get("n") == "_next_event_index" and
               const_val(ig.rarg(a.node, 0)) == 0]
        ctx.ob("C15.R5", L.short(fn), ok and bool(idx), fn.loc,
               "clear() must reset every slot word [0, size()) and the next event index")
    for fn in fb.find(pred=lambda f: re.search(r"ConcurrentTransientTopic<.*>::SlotFutex$", f.record or "") and f.name == "reset" and f.has_cfg()):
        ig = IG(fn, inline=sf_inline)
        sops, _ = slot_ops(ig, ig.live_nodes())
        ctx.ob("C15.R5b", L.short(fn), any(a.op == "store" and const_val(ig.rarg(a.node, 0)) == INITIAL and a.width == 32 for a in sops), fn.loc,
               "reset must store INITIAL over the whole 32-bit word (status and waiter bits)")
    n6 = L.check_special_members(ctx, "C15.R6", fb, r"^babylon::ConcurrentTransientTopic<[^:]*(::[^:<>]+)*<?[^:]*>$")

    # ---------------------------------------------------------------- R7 flag forwarding (after seed C15-5)
    # the entry points without a CONCURRENT argument are the ones several publishers may call at once (the range is
    # reserved by fetch_add only when CONCURRENT is true): they forward `true`; an entry point that has the flag hands the
    # same value down
    n7 = L.flag_forwarding(ctx, "C15.R7", fb, TOPIC.pattern, ("publish", "publish_n"), ("CONCURRENT",),
                           "with CONCURRENT=false the slot range is reserved by a separate load and store and two publishers "
                           "get the same slots", same_name=False)
    ctx.floor("C15.R7", n7, 4, "publish / publish_n forwarding calls")


SWEEP = ["concurrent/test_transient_topic.cpp"]


# name anchors (validated by tools/rename_sweep.py; a vanished name is exit 2, see core.check_anchor_names)
ANCHORS = {
    '_next_consume_index': ['^babylon::ConcurrentTransientTopic(<|$)'],
    '_next_event_index': ['^babylon::ConcurrentTransientTopic(<|$)'],
    'ensure': ['^babylon::ConcurrentVector(<|$)'],
    'for_each': ['^babylon::ConcurrentVector(<|$)'],
    'is_closed': ['^babylon::ConcurrentTransientTopic(<|$)'],
    'is_published': ['^babylon::ConcurrentTransientTopic(<|$)'],
    'set_published': ['^babylon::ConcurrentTransientTopic(<|$)'],
    'wait_until_ready': ['^babylon::ConcurrentTransientTopic(<|$)'],
}
