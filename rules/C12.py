"""C12 reusable containers: retained capacity, constructed-prefix bookkeeping, manager re-creation protocol (DESIGN §4 C12)."""
import re

from bsa.core import driver, lib
from bsa.graph import IG
from bsa import lib as L
from bsa.facts import pstr, strip_cast, const_val, walk

EXPLANATION = (
    "Structural clauses of C12 over ReusableVector<int | SwissString | ReusableVector<SwissString>>, MonotonicBasicString, "
    "the ReusableTraits of std::string/std::vector/MonotonicBasicString/ReusableVector and ReusableManager, all instantiated by a "
    "driver through the public API: R1 clear() only resets the size; outside constructors and swap the capacity is only ever "
    "replaced by a provably larger value and the constructed size only incremented; no shrinking operation (clear, pop_back, "
    "erase, resize, assign) destroys an element; R2 every raw construction into the vector's storage is paired one-to-one with an "
    "increment of the constructed size, re-use (reconstruct / move-assign) happens only below a bound derived from the constructed "
    "size and raw construction only at or above it, constructors build exactly the number of elements they record; R3 "
    "ReusableManager::clear either re-creates (all update() before release() before all recreate(), counter reset) or clears "
    "every unit, never releases on the clearing branch; accessors hold the address of the unit's slot, units have stable "
    "addresses, recreate stores the new instance into that slot; R4 every update_allocation_metadata sibling raises each metadata "
    "field to max(old, current), ReusableVector visits every constructed element (not just size()), every recorded field is "
    "consumed by construct_with_allocation_metadata; R5 an argument that may refer to an element of the vector is consumed before "
    "anything relocates or shifts the elements (violated by the original tree: finding F8, replayed; push_back/emplace_back "
    "repaired, emplace/insert/resize(value) listed as known findings); R6 reconstruct of a type with clear()/Clear() resolves to "
    "that call and not to destroy+construct, MonotonicBasicString move-assignment swaps on equal allocators. Equivalence with "
    "std::vector/std::string over operation sequences, index arithmetic of the shifting loops and zero growth at convergence are "
    "NOT decided (sequence- and value-dependent).")

VEC = re.compile(r"^babylon::ReusableVector<")
NOSHRINK = ("clear", "pop_back", "erase", "resize", "assign", "operator=")


def units(tier):
    return [driver("reusable.cc"), driver("reusable.cc", ndebug=False), lib("reusable/message.cpp"), lib("reusable/message.trick.cpp", extra=["-fno-access-control"])]


def nin(a, b, c):
    return False


def this_field(d, name=None):
    d = strip_cast(d)
    return isinstance(d, dict) and d.get("k") == "f" and isinstance(d.get("b"), dict) and d["b"].get("k") == "this" and \
        (name is None or d.get("n") == name)


def elem(d):
    """(base, index) when d is X[i] or &X[i]"""
    d = strip_cast(d)
    if isinstance(d, dict) and d.get("k") == "u" and d.get("op") == "&":
        d = strip_cast(d.get("x"))
    if isinstance(d, dict) and d.get("k") == "idx":
        return strip_cast(d.get("b")), d.get("i")
    return None


def mentions_data_elem(d):
    for sd in walk(d):
        if sd.get("k") == "idx" and this_field(sd.get("b"), "_data"):
            return True
    return False


def grows_only(ig, a, live):
    """the assignment `F = v` can only raise F: v is max(F, ...) or the store is behind `F < v`"""
    lhs = strip_cast(a.ev["lhs"])
    rhs = ig.resolve(a.ev.get("rhs"), a.frame)
    srcs = [ig.ev_of(o) for o in ig.origins(rhs)]
    mx = [s for s in srcs if s is not None and s.ev.get("name") == "max"]
    if mx and any(pstr(strip_cast(ig.resolve(x, mx[0].frame))) == pstr(lhs) for x in mx[0].ev.get("args", [])):
        return True

    def less(atom, pol, lab):
        c = L.effective_cmp(atom, pol)
        if c is None:
            return False
        op, l, r = c
        if op == ">":
            op, l, r = "<", r, l
        return op == "<" and pstr(strip_cast(l)) == pstr(lhs) and pstr(strip_cast(r)) == pstr(strip_cast(rhs))
    le = L.cond_edges(ig, less, live)
    return bool(le) and a.id not in ig.reach([ig.entry], removed_edges=le)


def run(ctx):
    fb = ctx.fb
    vfns = fb.find(pred=lambda f: VEC.match(f.record or "") and f.has_cfg() and not f.lambda_)
    ctx.floor("C12.fns", len(vfns), 150, "ReusableVector member function instances")
    recs = sorted(set(f.record for f in vfns))
    ctx.floor("C12.recs", len(recs), 3, "ReusableVector instantiations")

    def short(fn):
        r = re.sub(r"babylon::MonotonicAllocator<.*", "...>", fn.record.replace("babylon::", ""))
        r = re.sub(r"MonotonicBasicString<char, std::char_traits<char>, SwissMemoryResource>", "SwissString", r)
        return "%s::%s%s" % (r[:60], fn.name, fn.sig[:50])

    def fsite(fn, what):
        return "ReusableVector::%s%s@%s" % (fn.name, re.sub(r"babylon::MonotonicAllocator<[^()]*>", "A", re.sub(
            r"babylon::(ReusableVector|MonotonicBasicString)<[^()]*>", "T", fn.sig))[:60], what)

    # ---------------------------------------------------------------- R1 retained capacity
    n1 = 0
    for fn in vfns:
        ig = IG(fn, inline=nin)
        live = ig.live_nodes()
        inst = short(fn)
        evs = [n for n in ig.ev_nodes() if n.id in live]
        if fn.name == "clear":
            n1 += 1
            asg = [n for n in evs if n.ev["e"] == "asg"]
            ok = len(asg) == 1 and this_field(asg[0].ev.get("lhs"), "_size") and const_val(asg[0].ev.get("rhs")) == 0 and \
                not [n for n in evs if n.ev["e"] in ("call", "dtor", "delete")]
            ctx.ob("C12.R1a", inst, ok, fn.loc,
                   "clear() must only reset the size: elements stay constructed and their capacity stays with them")
        if fn.kind in ("ctor", "copy_ctor", "move_ctor") or fn.name == "swap":
            continue
        for n in evs:
            if n.ev["e"] != "asg":
                continue
            lhs = n.ev.get("lhs")
            if this_field(lhs, "_capacity"):
                n1 += 1
                rhs = n.ev.get("rhs")
                ok = False
                why = "not recognised as growing"
                if n.ev.get("op") == "=":
                    # (i) behind the failing side of `_capacity >= rhs`
                    def smaller(atom, pol, lab, rhs=rhs, n=n):
                        c = L.effective_cmp(atom, pol)
                        if c is None:
                            return False
                        op, l, r = c
                        if op == "<" and this_field(l, "_capacity") and pstr(strip_cast(r)) == pstr(strip_cast(ig.resolve(rhs, n.frame))):
                            return True
                        if op == ">" and this_field(r, "_capacity") and pstr(strip_cast(l)) == pstr(strip_cast(ig.resolve(rhs, n.frame))):
                            return True
                        return False
                    ge = L.cond_edges(ig, smaller, live)
                    if ge and n.id not in ig.reach([ig.entry], removed_edges=ge):
                        ok = True
                    else:
                        # (ii) `_capacity == 0 ? c : _capacity * k`
                        for o in [rhs] + [d[1] for d in ig.local_defs(n.frame, strip_cast(rhs).get("id"))
                                          if isinstance(strip_cast(rhs), dict) and strip_cast(rhs).get("k") == "l"]:
                            o = strip_cast(ig.resolve(o, n.frame)) if o is not None else None
                            if isinstance(o, dict) and o.get("k") == "cond":
                                c = L.cmp_parts(o.get("c"))
                                t, f = strip_cast(o.get("t")), strip_cast(o.get("f"))
                                if c and c[0] == "==" and this_field(c[1], "_capacity") and const_val(c[2]) == 0 and \
                                        (const_val(t) or 0) > 0 and isinstance(f, dict) and f.get("k") == "b" and \
                                        ((f.get("op") == "*" and this_field(f.get("l"), "_capacity") and (const_val(f.get("r")) or 0) >= 2) or
                                         (f.get("op") == "+" and this_field(f.get("l"), "_capacity") and (const_val(f.get("r")) or 0) >= 1)):
                                    ok = True
                ctx.ob("C12.R1b", "%s@%s" % (inst, n.line), ok, n.where,
                       "the retained capacity may only be replaced by a larger one (%s): a clear/reuse cycle must never shrink it" % why,
                       site=fsite(fn, "capacity-write"))
            if this_field(lhs, "_constructed_size"):
                n1 += 1
                ctx.ob("C12.R1c", "%s@%s" % (inst, n.line), n.ev.get("op") == "++", n.where,
                       "the number of constructed elements only grows, one element at a time",
                       site=fsite(fn, "constructed-write"))
        if fn.name in NOSHRINK:
            n1 += 1
            bad = [n for n in evs if (n.ev["e"] == "call" and n.ev.get("name") in ("destroy", "deallocate")) or
                   n.ev["e"] in ("dtor", "delete") and mentions_data_elem(n.ev.get("obj") or n.ev.get("x") or {})]
            bad += [n for n in evs if n.ev["e"] == "call" and re.match(r"^~", n.ev.get("name", ""))]
            ctx.ob("C12.R1d", inst, not bad, bad[0].where if bad else fn.loc,
                   "a logically removed element must stay constructed for reuse: %s destroys or frees" % fn.name,
                   site=fsite(fn, "no-destroy"))
    ctx.floor("C12.R1", n1, 60, "capacity/constructed-size write sites and shrinking functions")

    # ---------------------------------------------------------------- R2 constructed prefix
    n2 = n2b = 0
    unrecognised = []
    for fn in vfns:
        if fn.kind == "dtor":
            continue
        ig = IG(fn, inline=nin)
        live = ig.live_nodes()
        inst = short(fn)
        evs = [n for n in ig.ev_nodes() if n.id in live]
        is_ctor = fn.kind in ("ctor", "copy_ctor", "move_ctor")

        def raw_construct(n):
            if n.ev["e"] != "call" or n.ev.get("name") not in ("construct", "construct_with_allocation_metadata"):
                return False
            args = n.ev.get("args", [])
            if not args:
                return False
            e_ = elem(ig.resolve(args[0], n.frame))
            if e_ is None:
                return False
            if this_field(e_[0], "_data"):
                return True
            return isinstance(e_[0], dict) and e_[0].get("k") == "l" and not any(mentions_data_elem(a) for a in args[1:])
        cons = [n for n in evs if raw_construct(n)]
        incs = [n for n in evs if n.ev["e"] == "asg" and this_field(n.ev.get("lhs"), "_constructed_size") and n.ev.get("op") == "++"]
        if not is_ctor and (cons or incs):
            n2 += 1
            ok = True
            why = ""
            for c in cons:
                r = ig.reach([c], removed=incs, include_starts=False)
                if ig.exit.id in r or any(o.id in r for o in cons):
                    ok, why = False, "the construction at line %s can be followed by the function's end or another construction without an increment" % c.line
            for i_ in incs:
                r = ig.reach([i_], removed=cons, include_starts=False)
                if any(o.id in r for o in incs):
                    ok, why = False, "the increment at line %s can be followed by another increment without a construction" % i_.line
            r0 = ig.reach([ig.entry], removed=cons)
            for i_ in incs:
                if i_.id in r0:
                    ok, why = False, "the increment at line %s is reachable without a construction" % i_.line
            ctx.ob("C12.R2a", inst, ok, fn.loc,
                   "raw constructions into the storage and increments of the constructed size must pair one to one (%s): otherwise a "
                   "slot is constructed twice (leak / lost capacity) or an unconstructed slot is later re-used as an object" % why,
                   site=fsite(fn, "construct-pairing"))
        if is_ctor and cons:
            n2 += 1
            inits = {}
            for n in evs:
                if n.ev["e"] == "init" and n.ev.get("field"):
                    inits[n.ev["field"]] = n.ev.get("v") if "v" in n.ev else n.ev.get("init")

            def val(d, depth=0):
                d = strip_cast(d)
                while isinstance(d, dict) and d.get("k") == "init" and len(d.get("xs", [])) == 1:
                    d = strip_cast(d["xs"][0])
                if this_field(d) and d["n"] in inits and depth < 4:
                    return val(inits[d["n"]], depth + 1)
                return pstr(d)
            bounds = []
            for bid, b in fn.blocks.items():
                if b.get("term") in ("ForStmt", "WhileStmt") and "cond" in b:
                    c = L.cmp_parts(b["cond"])
                    if c and c[0] == "<":
                        bounds.append(val(c[2]))
            ok = bool(bounds) and all(bv == val({"k": "f", "n": "_constructed_size", "b": {"k": "this"}}) for bv in bounds) and \
                val({"k": "f", "n": "_capacity", "b": {"k": "this"}}) == val({"k": "f", "n": "_constructed_size", "b": {"k": "this"}})
            alloc = [n for n in evs if n.ev["e"] == "call" and n.ev.get("name") == "allocate"]
            for a in alloc:
                ok = ok and val(ig.rarg(a, 0)) == val({"k": "f", "n": "_capacity", "b": {"k": "this"}})
            ctx.ob("C12.R2c", inst, ok and bool(alloc), fn.loc,
                   "a constructor must construct exactly the elements it records as constructed and allocate exactly the recorded capacity")

        # R2b: which side of the constructed boundary a slot access is on
        def cbound(d, at, incl=False):
            """'min' / 'max' / 'exact' when d derives from the constructed size"""
            for o in ig.origins_at(d, at, incl=incl):
                o = strip_cast(o)
                if this_field(o, "_constructed_size"):
                    return "exact"
                n_ = ig.ev_of(o)
                if n_ is not None and n_.ev["e"] == "call":
                    if n_.ev.get("name") in ("min", "max") and any(this_field(ig.resolve(a, n_.frame), "_constructed_size") for a in n_.ev.get("args", [])):
                        return n_.ev["name"]
                    if n_.ev.get("name") == "prepare_for_insert":
                        return "min"
            return None

        if is_ctor:
            continue
        reuse = []
        for n in evs:
            if n.ev["e"] == "call" and n.ev.get("name") == "reconstruct" and n.ev.get("args"):
                e_ = elem(ig.resolve(n.ev["args"][0], n.frame))
                if e_ and this_field(e_[0], "_data"):
                    reuse.append((n, e_[1]))
            if n.ev["e"] == "call" and n.ev.get("name") == "operator=" and "this" in n.ev:
                e_ = elem(ig.resolve(n.ev["this"], n.frame))
                if e_ and this_field(e_[0], "_data"):
                    reuse.append((n, e_[1]))
            if n.ev["e"] == "asg" and n.ev.get("op") == "=":
                e_ = elem(ig.resolve(n.ev.get("lhs"), n.frame))
                if e_ and this_field(e_[0], "_data"):
                    reuse.append((n, e_[1]))
        raws = [(n, elem(ig.resolve(n.ev["args"][0], n.frame))[1]) for n in cons
                if this_field(elem(ig.resolve(n.ev["args"][0], n.frame))[0], "_data")]
        def other_bound(d, at, incl=False):
            """the bound derives from the size or the capacity instead of the constructed size"""
            for o in ig.origins_at(d, at, incl=incl):
                n_ = ig.ev_of(strip_cast(o))
                if n_ is not None and n_.ev["e"] == "call" and n_.ev.get("name") in ("min", "max"):
                    for a_ in n_.ev.get("args", []):
                        if this_field(ig.resolve(a_, n_.frame), "_capacity") or this_field(ig.resolve(a_, n_.frame), "_size"):
                            return strip_cast(ig.resolve(a_, n_.frame)).get("n")
                if this_field(o, "_capacity"):
                    return "_capacity"
            return None

        for kind, lst in (("reuse", reuse), ("raw", raws)):
            for n, idx in lst:
                n2b += 1
                facts = set()
                idx_l = strip_cast(idx)
                steps = []
                if isinstance(idx_l, dict) and idx_l.get("k") == "l":
                    steps = [x for x in evs if x.ev["e"] == "asg" and isinstance(strip_cast(x.ev.get("lhs")), dict) and
                             strip_cast(x.ev["lhs"]).get("k") == "l" and strip_cast(x.ev["lhs"]).get("id") == idx_l["id"]]
                # guards that dominate the access
                for nd in ig.nodes:
                    if nd.id not in live:
                        continue
                    for m, lab in nd.succ:
                        if lab is None or lab.cond is None or lab.pol is None:
                            continue
                        atom, pol = ig.expand_cond(ig.resolve(lab.cond, lab.frame), lab.pol)
                        c = L.effective_cmp(atom, pol)
                        if c is None:
                            continue
                        op, l, r = c
                        if op in (">", ">="):
                            op, l, r = {">": "<", ">=": "<="}[op], r, l
                        if op not in ("<", "<="):
                            continue
                        # now l < r (or <=); the edge must dominate the access
                        if n.id in ig.reach([ig.entry], removed_edges=[(nd.id, m.id)]):
                            continue
                        bl, br = cbound(l, nd, True), cbound(r, nd, True)
                        # a decrement of the index between the guard and the access moves it one slot down
                        dec = any(s_.ev.get("op") == "--" and s_.id in ig.reach([m]) and n.id in ig.reach([s_]) and
                                  s_.id not in ig.reach([ig.entry], removed_edges=[(nd.id, m.id)]) and
                                  n.id not in ig.reach([m], removed=[s_]) for s_ in steps)
                        fact = None
                        if br in ("exact", "min") and bl is None:
                            fact = "below" if (op == "<" or dec) else "at-or-below"
                        elif bl in ("exact", "max") and br is None:
                            if op == "<=":
                                fact = "one-below" if dec else "at-or-above"
                            else:
                                fact = "at-or-above" if dec else "strictly-above"
                        elif bl == "min" and br is None and op == "<=" and not dec:
                            # min(x + k, constructed) <= x  implies  constructed <= x   (k >= 1): accepted when the bound is the
                            # result of prepare_for_insert(x, k) for this very x (its return shape is checked by R2d)
                            for o in ig.origins_at(l, nd, incl=True):
                                pn = ig.ev_of(strip_cast(o))
                                if pn is not None and pn.ev.get("name") == "prepare_for_insert" and \
                                        pstr(strip_cast(ig.rarg(pn, 0))) == pstr(strip_cast(r)):
                                    fact = "at-or-above"
                        elif bl is None and br is None:
                            ob_ = other_bound(r, nd, True) if isinstance(strip_cast(r), dict) and strip_cast(r).get("k") in ("l", "e") else None
                            if ob_:
                                fact = "wrong-bound:%s" % ob_
                        if fact:
                            facts.add(fact)
                # ascending loop that starts at the boundary (raw) / descending loop that starts at max(...) (re-use, decrement first)
                if isinstance(idx_l, dict) and idx_l.get("k") == "l":
                    for dn, rhs, how in ig.local_defs(n.frame, idx_l["id"]):
                        if rhs is not None and dn.ev["e"] == "decl":
                            cb = cbound(rhs, dn)
                            ups = all(s_.ev.get("op") == "++" for s_ in steps) and bool(steps)
                            downs = all(s_.ev.get("op") == "--" for s_ in steps) and bool(steps)
                            if cb in ("exact", "min") and ups:
                                facts.add("at-or-above")
                            elif cb in ("exact", "max") and downs and all(n.id not in ig.reach([dn], removed=[s_]) for s_ in steps):
                                facts.add("below")
                            elif cb is None and (ups or downs):
                                ob_ = other_bound(rhs, dn)
                                if ob_:
                                    facts.add("wrong-bound:%s" % ob_)
                want = "below" if kind == "reuse" else "at-or-above"
                if not facts:
                    # accesses whose index is not compared with anything derived from the constructed size:
                    # erase's compaction walks [first, end()) which lies below size <= constructed
                    if kind == "reuse" and fn.name in ("erase",):
                        facts.add("below")
                    else:
                        unrecognised.append("%s line %s (%s)" % (inst, n.line, kind))
                        continue
                ok = want in facts and not [f_ for f_ in facts if f_.startswith("wrong-bound")] or \
                    (want in facts and all(f_ == want or f_.startswith("wrong-bound") for f_ in facts) and
                     not [f_ for f_ in facts if f_.startswith("wrong-bound")])
                ctx.ob("C12.R2b", "%s@%s %s" % (inst, n.line, kind), ok, n.where,
                       "%s of a slot is not confined to the right side of the constructed boundary (must be %s it; the guards give: %s)" %
                       ("re-use (assign / reconstruct)" if kind == "reuse" else "raw construction",
                        "strictly below" if want == "below" else "at or above", ", ".join(sorted(facts))),
                       site=fsite(fn, "boundary-%s" % kind))
    for fn in vfns:
        if fn.name != "prepare_for_insert":
            continue
        ig = IG(fn, inline=nin)
        rets = [n for n in ig.ev_nodes() if n.ev["e"] == "ret" and "v" in n.ev]
        ok = bool(rets)
        for r_ in rets:
            srcs = [ig.ev_of(strip_cast(o)) for o in ig.origins_at(r_.ev["v"], r_)]
            ok = ok and bool(srcs) and all(
                s_ is not None and s_.ev.get("name") == "min" and len(s_.ev.get("args", [])) == 2 and
                any(this_field(ig.resolve(a, s_.frame), "_constructed_size") for a in s_.ev["args"]) and
                any(isinstance(strip_cast(ig.resolve(a, s_.frame)), dict) and strip_cast(ig.resolve(a, s_.frame)).get("k") == "b" and
                    strip_cast(ig.resolve(a, s_.frame)).get("op") == "+" and
                    sorted(x.get("i", -1) for x in (strip_cast(strip_cast(ig.resolve(a, s_.frame)).get("l")), strip_cast(strip_cast(ig.resolve(a, s_.frame)).get("r")))
                           if isinstance(x, dict) and x.get("k") == "p") == [0, 1] for a in s_.ev["args"])
                for s_ in srcs)
        n2 += 1
        ctx.ob("C12.R2d", short(fn), ok, fn.loc,
               "prepare_for_insert must return min(index + count, constructed size): its callers re-use slots below that bound and "
               "construct raw ones from it on")
    # R2e: when the size is raised by assignment (resize), every slot between the old and the new size is touched: the
    # re-use loop starts at the old size, the raw-construction loop continues where it ends, up to the assigned value
    n2e = 0
    for fn in vfns:
        if fn.kind in ("ctor", "copy_ctor", "move_ctor", "dtor") or fn.name in ("clear", "swap", "pop_back", "erase"):
            continue
        ig = IG(fn, inline=nin)
        live = ig.live_nodes()
        evs = [n for n in ig.ev_nodes() if n.id in live]
        sets = [n for n in evs if n.ev["e"] == "asg" and n.ev.get("op") == "=" and this_field(n.ev.get("lhs"), "_size") and
                const_val(n.ev.get("rhs")) is None]
        if not sets:
            continue
        # counting loops of this instance: (init rendering, bound rendering, touches a slot)
        loops = []
        for bid, b in fn.blocks.items():
            if b.get("term") not in ("ForStmt", "WhileStmt") or "cond" not in b:
                continue
            c = L.cmp_parts(b["cond"])
            if not c or c[0] != "<":
                continue
            iv = strip_cast(c[1])
            if not (isinstance(iv, dict) and iv.get("k") == "l"):
                continue
            hdr = ig.frames[0].block_node.get(bid)
            if hdr is None or hdr.id not in live:
                continue
            init = None
            for dn, rhs, how in ig.local_defs(ig.frames[0], iv["id"]):
                if how == "decl" and rhs is not None:
                    init = pstr(strip_cast(ig.resolve(rhs, ig.frames[0])))
            body = ig.reach([hdr])
            touches = any(x.id in body and x.ev["e"] == "call" and x.ev.get("name") in ("reconstruct", "construct") and x.ev.get("args") and
                          elem(ig.resolve(x.ev["args"][0], x.frame)) is not None and
                          pstr(strip_cast(elem(ig.resolve(x.ev["args"][0], x.frame))[1])) == pstr(iv) for x in evs)
            loops.append((init, pstr(strip_cast(ig.resolve(c[2], ig.frames[0]))), touches))
        for st in sets:
            n2e += 1
            target = pstr(strip_cast(ig.resolve(st.ev["rhs"], st.frame)))
            cur = "this->_size"
            seen = 0
            while cur != target and seen < 4:
                seen += 1
                nxt = [l for l in loops if l[0] == cur and l[2]]
                if not nxt:
                    break
                cur = nxt[0][1]
            ctx.ob("C12.R2e", "%s@%s" % (short(fn), st.line), cur == target, st.where,
                   "the size is raised to '%s' but the slots from the old size are only covered up to '%s' by loops that reconstruct / "
                   "construct them: the remaining slots become visible with whatever a logically erased element left in them "
                   "(std::vector::resize value-initialises)" % (target, cur), site=fsite(fn, "growth-coverage"))
    ctx.floor("C12.R2e", n2e, 6, "size-raising assignments")
    ctx.floor("C12.R2a", n2, 30, "functions that construct into the storage")
    ctx.floor("C12.R2b", n2b, 40, "slot accesses classified against the constructed boundary")
    if unrecognised:
        ctx.unmet.append("C12.R2b: %d slot access(es) are not guarded by a comparison the rule recognises (cannot decide): %s" %
                         (len(unrecognised), "; ".join(unrecognised[:4])))

    # ---------------------------------------------------------------- R5 argument stability (finding F8)
    n5 = 0
    for fn in vfns:
        if fn.kind in ("ctor", "copy_ctor", "move_ctor", "dtor") or fn.name == "assign":
            # constructors: nothing to alias yet; assign(n, t): [sequence.reqmts] forbids t referring into *this
            continue
        ig = IG(fn, inline=nin)
        live = ig.live_nodes()
        evs = [n for n in ig.ev_nodes() if n.id in live]
        vparams = [i for i, p in enumerate(fn.params) if re.search(r"&&?$|&&?\.\.\.$", p.get("type", "").strip()) and
                   not re.search(r"ReusableVector<", p.get("type", "")) and not re.search(r"initializer_list", p.get("type", ""))]
        if not vparams:
            continue
        uses = []
        for n in evs:
            if n.ev["e"] == "call" and n.ev.get("name") in ("construct", "reconstruct") and len(n.ev.get("args", [])) > 1:
                for a in n.ev["args"][1:]:
                    for sd in walk(a):
                        if sd.get("k") == "p" and sd.get("i") in vparams:
                            uses.append((n, sd.get("i")))
        if not uses:
            continue
        reloc = [n for n in evs if n.ev["e"] == "call" and (
            n.ev.get("name") in ("reserve", "prepare_for_insert") and this_field({"k": "f", "n": "x", "b": n.ev.get("this", {})}) or
            (n.ev.get("name") == "destroy" and n.ev.get("args") and elem(ig.resolve(n.ev["args"][0], n.frame)) and
             this_field(elem(ig.resolve(n.ev["args"][0], n.frame))[0], "_data")))]
        for u, pi in uses:
            n5 += 1
            before = [r for r in reloc if u.id in ig.reach([r], include_starts=False)]
            ctx.ob("C12.R5", "%s@%s" % (short(fn), u.line), not before, u.where,
                   "the argument '%s' may refer to an element of this vector (std::vector supports v.push_back(v[0]), v.insert(p, v[i]), "
                   "v.resize(n, v[0])) but is read after %s at line %s relocated or shifted the elements" %
                   (fn.params[pi].get("name"), before[0].ev.get("name") if before else "", before[0].line if before else 0),
                   site="ReusableVector::%s(%s)@argument-after-relocation" % (fn.name, ",".join(
                       "V" if i in vparams else "_" for i in range(len(fn.params)))))
    ctx.floor("C12.R5", n5, 20, "uses of caller-provided values in element construction")

    # ---------------------------------------------------------------- R7 assignment replaces (after seed C12-6)
    # operator= / assign give the vector the contents of their source: whatever they append must land behind a reset of
    # the size (clear(), a delegation to another assign / operator=, or a swap with the source) on every path
    n7 = 0
    GROW = ("emplace_back", "push_back", "resize", "insert", "emplace")
    RESET = ("clear", "assign", "operator=", "swap")
    for fn in vfns:
        if fn.name not in ("operator=", "assign"):
            continue
        ig = IG(fn, inline=nin)
        live = ig.live_nodes()
        evs = [n for n in ig.ev_nodes() if n.id in live]

        def own_call(n, names, fn=fn):
            if n.ev["e"] != "call" or n.ev.get("name") not in names:
                return False
            callee = ig.tu.fns.get(n.ev.get("cid"))
            if callee is not None:
                return callee.record == fn.record
            return strip_cast(n.ev.get("this", {})).get("k") == "this" if isinstance(strip_cast(n.ev.get("this", {})), dict) else False

        def lam_grows(n):
            for a in n.ev.get("args", []) or []:
                lf = L.lambda_of(ig, a)
                if lf is not None and lf.has_cfg() and any(
                        e["e"] == "call" and e.get("name") in GROW and (ig.tu.fns.get(e.get("cid")) is None or
                                                                        ig.tu.fns.get(e.get("cid")).record == fn.record)
                        for _, e in lf.all_events()):
                    return True
            return False
        grows = [n for n in evs if own_call(n, GROW) or (n.ev["e"] in ("call", "ctor") and lam_grows(n))]
        resets = [n for n in evs if own_call(n, RESET)] + [
            n for n in evs if n.ev["e"] == "asg" and this_field(n.ev.get("lhs"), "_size") and n.ev.get("op") == "=" and const_val(n.ev.get("rhs")) == 0]
        if not grows and not resets:
            continue
        n7 += 1
        bad = [g for g in grows if not ig.dominated_by(g, resets)]
        ctx.ob("C12.R7", short(fn), not bad, bad[0].where if bad else fn.loc,
               "%s appends the source's elements (line %s) on a path that did not reset the size first: the old contents stay in front "
               "of the new ones, where std::vector's assignment replaces them" % (fn.name, bad[0].line if bad else 0),
               site=fsite(fn, "assignment-replaces"))
    ctx.floor("C12.R7", n7, 8, "operator= / assign instances that rebuild or delegate")

    # ---------------------------------------------------------------- R3 manager protocol
    n3 = 0
    for fn in fb.find(pred=lambda f: re.match(r"^babylon::ReusableManager<", f.record or "") and f.name == "clear" and
                      "TypedReusableUnit" not in f.record and f.has_cfg()):
        n3 += 1
        ig = IG(fn, inline=nin)
        live = ig.live_nodes()
        inst = L.short(fn)
        upd = list(L.call_nodes(ig, name="update", live=live))
        rec = list(L.call_nodes(ig, name="recreate", live=live))
        clr = [n for n in L.call_nodes(ig, name="clear", live=live)]
        rel = list(L.call_nodes(ig, name="release", live=live))
        ok = len(upd) == 1 and len(rec) == 1 and len(clr) == 1 and len(rel) == 1
        why = "expected one update loop, one release, one recreate loop and one clear loop"
        if ok:
            u, r_, c_, l_ = upd[0], rec[0], clr[0], rel[0]
            # release dominated by the loop exit of update: no update after release, no recreate before it
            if u.id in ig.reach([l_], include_starts=False):
                ok, why = False, "update() can run after release(): it would read instances whose memory is gone"
            elif not ig.dominated_by(r_, [l_]):
                ok, why = False, "recreate() can run before release(): the new instance would be released at once"
            elif not ig.dominated_by(l_, [u]) and not any(True for _ in [0] if ig.path_exists(u, l_)):
                ok, why = False, "release() is not preceded by the metadata update"
            elif c_.id in ig.reach([l_]) or l_.id in ig.reach([c_]) or c_.id in ig.reach([u]) or u.id in ig.reach([c_]):
                ok, why = False, "the clearing branch and the re-creating branch are not exclusive"
            else:
                # the re-create branch is taken on ++_clear_times >= _recreate_interval and resets the counter
                resets = [n for n in ig.ev_nodes() if n.id in live and n.ev["e"] == "asg" and this_field(n.ev.get("lhs"), "_clear_times") and
                          n.ev.get("op") == "=" and const_val(n.ev.get("rhs")) == 0]
                if not resets or not all(ig.dominated_by(l_, [x]) or ig.path_exists(x, l_) for x in resets) or \
                        any(c_.id in ig.reach([x]) for x in resets):
                    ok, why = False, "the clear counter is not reset exactly on the re-creating branch"
        ctx.ob("C12.R3a", inst, ok, fn.loc, "ReusableManager::clear: %s" % why)
    for fn in fb.find(pred=lambda f: "TypedReusableUnit<" in (f.record or "") and f.has_cfg() and f.name in ("accessor", "recreate", "clear", "update")):
        n3 += 1
        ig = IG(fn, inline=nin)
        live = ig.live_nodes()
        inst = L.short(fn)[:120]
        evs = [n for n in ig.ev_nodes() if n.id in live]
        if fn.name == "accessor":
            ok = any(n.ev["e"] in ("ctor", "ret", "call", "init") and any(
                isinstance(strip_cast(sd), dict) and strip_cast(sd).get("k") == "u" and strip_cast(sd).get("op") == "&" and
                this_field(strip_cast(sd).get("x"), "_instance") for a in (n.ev.get("args", []) + [n.ev.get("v")]) if a is not None
                for sd in walk(a)) for n in evs)
            ctx.ob("C12.R3b", inst, ok, fn.loc,
                   "an accessor must hold the address of the unit's instance slot (not the instance): only then does it stay valid "
                   "across the periodic re-creation")
        elif fn.name == "recreate":
            asg = [n for n in evs if n.ev["e"] == "asg" and this_field(n.ev.get("lhs"), "_instance")]
            ok = len(asg) == 1 and any(ig.ev_of(o) is not None and ig.ev_of(o).ev.get("name") == "create_with_allocation_metadata"
                                       for o in ig.origins(ig.resolve(asg[0].ev.get("rhs"), asg[0].frame)))
            if ok:
                c = [ig.ev_of(o) for o in ig.origins(ig.resolve(asg[0].ev.get("rhs"), asg[0].frame)) if ig.ev_of(o) is not None][0]
                ok = any(this_field(ig.resolve(a, c.frame), "_meta") for a in c.ev.get("args", []))
            ctx.ob("C12.R3c", inst, ok, fn.loc,
                   "recreate must store the instance built from the recorded metadata into the slot the accessors point to")
        elif fn.name == "update":
            ok = any(n.ev["e"] == "call" and n.ev.get("name") == "update_allocation_metadata" and
                     any(this_field(ig.resolve(a, n.frame), "_meta") for a in n.ev.get("args", [])) for n in evs)
            ctx.ob("C12.R3c", inst, ok, fn.loc, "update must record the instance's capacities into the unit's metadata")
        elif fn.name == "clear":
            ok = any(n.ev["e"] == "call" and n.ev.get("name") == "reconstruct" for n in evs) and \
                not any(n.ev["e"] == "call" and n.ev.get("name") in ("destroy", "release", "create_with_allocation_metadata") for n in evs)
            ctx.ob("C12.R3c", inst, ok, fn.loc, "a logical clear re-uses the instance (reconstruct), it neither destroys nor re-creates it")
    for fn in fb.find(pred=lambda f: re.match(r"^babylon::ReusableAccessor<", f.record or "") and f.name == "get" and f.has_cfg()):
        n3 += 1
        ig = IG(fn, inline=nin)
        rets = [n for n in ig.ev_nodes() if n.ev["e"] == "ret"]
        ok = bool(rets) and all(isinstance(strip_cast(r.ev.get("v")), dict) and strip_cast(r.ev["v"]).get("k") == "u" and
                                strip_cast(r.ev["v"]).get("op") == "*" and this_field(strip_cast(r.ev["v"]).get("x"), "_instance") for r in rets)
        ctx.ob("C12.R3b", L.short(fn)[:100], ok, fn.loc, "ReusableAccessor::get must read the unit's slot on every call (not cache the instance)")
    for fn in fb.find(pred=lambda f: re.match(r"^babylon::ReusableManager<", f.record or "") and f.name == "register_object" and f.has_cfg()):
        n3 += 1
        ig = IG(fn, inline=nin)
        evs = list(ig.ev_nodes())
        news = [n for n in evs if n.ev["e"] == "new"]
        acc = [n for n in evs if n.ev["e"] == "call" and n.ev.get("name") == "accessor"]
        ok = bool(news) and bool(acc)
        ctx.ob("C12.R3b", L.short(fn)[:120], ok, fn.loc,
               "units are heap objects owned through unique_ptr (stable address while the unit list grows) and the accessor is taken from the unit")
        # objects may be created from several threads: the unit list only grows under the manager's mutex
        live = ig.live_nodes()
        grows = [n for n in evs if n.id in live and n.ev["e"] == "call" and n.ev.get("name") in ("emplace_back", "push_back") and
                 this_field(n.ev.get("this"), "_units")]
        locks = [n for n in evs if n.id in live and n.ev["e"] == "ctor" and
                 re.match(r"^std::(lock_guard|unique_lock|scoped_lock)<", n.ev.get("type", "")) and
                 any(this_field(a, "_mutex") for a in n.ev.get("args", []))]
        unlocks = [n for n in evs if n.id in live and n.ev["e"] == "dtor" and
                   re.match(r"^std::(lock_guard|unique_lock|scoped_lock)<", n.ev.get("type", ""))]
        n3 += 1
        ctx.ob("C12.R3d", L.short(fn)[:120], bool(grows) and bool(locks) and all(
            ig.dominated_by(g, locks) and not any(ig.path_exists(u, g, avoiding=locks) for u in unlocks) for g in grows), fn.loc,
            "the unit list is extended without the manager's mutex held (create_object is callable from several threads)")
    ctx.floor("C12.R3", n3, 12, "manager / unit / accessor functions")

    # ---------------------------------------------------------------- R4 metadata siblings
    n4 = 0
    metas = {}
    for fn in fb.find(pred=lambda f: f.name == "update_allocation_metadata" and f.has_cfg() and
                      not re.match(r"^babylon::(Reuse|BasicReusableTraits<)", f.record or "") and "TypedReusableUnit" not in (f.record or "")):
        ig = IG(fn, inline=nin)
        live = ig.live_nodes()
        evs = [n for n in ig.ev_nodes() if n.id in live]
        inst = L.short(fn)[:120]
        asgs = [n for n in evs if n.ev["e"] == "asg" and isinstance(strip_cast(n.ev.get("lhs")), dict) and strip_cast(n.ev["lhs"]).get("k") == "f"
                and not this_field(n.ev["lhs"]) and re.search(r"unsigned|size_t|int|long", strip_cast(n.ev["lhs"]).get("t", ""))
                and "*" not in strip_cast(n.ev["lhs"]).get("t", "")]
        if not asgs and not any(n.ev["e"] == "call" and n.ev.get("name") == "update_allocation_metadata" for n in evs):
            continue
        n4 += 1
        ok = True
        why = ""
        for a in asgs:
            lhs = strip_cast(a.ev["lhs"])
            metas.setdefault(lhs.get("rec"), set()).add(lhs.get("n"))
            if not grows_only(ig, a, live):
                ok, why = False, "field %s is overwritten instead of raised to max(old, current)" % lhs.get("n")
        if VEC.match(fn.record or ""):
            # the element walk covers every constructed element
            loops = [b for b in fn.blocks.values() if b.get("term") in ("ForStmt", "WhileStmt") and "cond" in b]
            okb = any(L.cmp_parts(b["cond"]) and this_field(L.cmp_parts(b["cond"])[2], "_constructed_size") for b in loops)
            cap = [a for a in asgs if strip_cast(a.ev["lhs"]).get("n") == "capacity"]
            okc = all(any(this_field(ig.resolve(x, a.frame), "_constructed_size") or this_field(ig.resolve(x, a.frame), "_capacity")
                          for s in [ig.ev_of(o) for o in ig.origins(ig.resolve(a.ev.get("rhs"), a.frame))] if s is not None
                          for x in s.ev.get("args", [])) for a in cap)
            if not okb:
                ok, why = False, "element metadata is collected over size() instead of every constructed element (capacity kept beyond size() is forgotten)"
            if not okc or not cap:
                ok, why = False, "the recorded capacity does not come from the constructed size / capacity"
        ctx.ob("C12.R4a", inst, ok, fn.loc,
               "allocation metadata must only grow across cycles: %s" % why, site="%s@metadata-max" % inst)
    for fn in fb.find(pred=lambda f: f.name == "construct_with_allocation_metadata" and f.has_cfg() and
                      not re.match(r"^babylon::(Reuse|BasicReusableTraits<)", f.record or "")):
        n4 += 1
        ig = IG(fn, inline=nin)
        evs = list(ig.ev_nodes())
        used = set()
        for n in evs:
            for d in L._event_descs(n.ev):
                for sd in walk(d):
                    if sd.get("k") == "f" and not this_field(sd):
                        used.add(sd.get("n"))
        cons = [n for n in evs if n.ev["e"] == "call" and n.ev.get("name") == "construct"]
        res = [n for n in evs if n.ev["e"] == "call" and n.ev.get("name") in ("reserve", "stable_reserve")]
        # protobuf messages: the metadata object applies itself (MessageAllocationMetadata::reserve(message))
        by_meta = any(isinstance(strip_cast(r.ev.get("this")), dict) and strip_cast(r.ev["this"]).get("k") == "p" for r in res)
        ctx.ob("C12.R4b", L.short(fn)[:120], ("capacity" in used or by_meta) and bool(cons) and bool(res) and
               all(ig.dominated_by(r, cons) for r in res), fn.loc,
               "re-creation must construct the object and then reserve the recorded capacity")
    mfn = fb.find(pred=lambda f: VEC.match(f.record or "") and f.kind == "ctor" and "AllocationMetadata" in f.sig and f.has_cfg())
    for fn in mfn:
        n4 += 1
        ig = IG(fn, inline=nin)
        evs = list(ig.ev_nodes())
        cw = [n for n in evs if n.ev["e"] == "call" and n.ev.get("name") == "construct_with_allocation_metadata"]
        ok = bool(cw) and all(any("value_metadata" in pstr(a) for a in n.ev.get("args", [])) for n in cw) and \
            any(n.ev["e"] == "init" and n.ev.get("field") == "_size" and const_val(n.ev.get("v", n.ev.get("init"))) == 0 for n in evs)
        ctx.ob("C12.R4b", short(fn), ok, fn.loc,
               "a vector re-created from metadata is empty and pre-constructs its elements from the element metadata")
    FAM = "babylon::MessageAllocationMetadata::FieldAllocationMetadata"
    sw = {}
    for fn in fb.find(pred=lambda f: f.record == FAM and f.has_cfg() and f.name in
                      ("update", "update_repeated_field", "reserve_repeated_field")):
        ig = IG(fn, inline=nin)
        live = ig.live_nodes()
        evs = [n for n in ig.ev_nodes() if n.id in live]
        if fn.name.startswith("update"):
            asgs = [n for n in evs if n.ev["e"] == "asg" and this_field(n.ev.get("lhs")) and strip_cast(n.ev["lhs"]).get("n", "").endswith("_reserved")]
            if asgs:
                n4 += 1
                bad = [a for a in asgs if not grows_only(ig, a, live)]
                ctx.ob("C12.R4a", "%s%s" % (L.short(fn)[:90], fn.sig[:60]), not bad, bad[0].where if bad else fn.loc,
                       "allocation metadata must only grow across cycles: a recorded reservation is overwritten instead of raised",
                       site="FieldAllocationMetadata::%s@metadata-max" % fn.name)
        if fn.name.endswith("_repeated_field"):
            cases = set()
            for nd in ig.nodes:
                for m, lab in nd.succ:
                    if lab is None or lab.case in (None, "default"):
                        continue
                    r = ig.reach([m], removed=[nd])
                    if fn.name.startswith("reserve"):
                        eff = any(x.id in r and x.ev["e"] == "call" and x.ev.get("name") == "Reserve" for x in evs)
                    else:
                        eff = any(x.id in r and x.ev["e"] == "asg" and this_field(x.ev.get("lhs"), "repeated_reserved") for x in evs)
                    if eff:
                        cases.add(lab.case)
            sw[fn.name] = (cases, fn)
    # R4d the element capacities are collected over the same elements the count covers: live + cleared
    for fn in fb.find(pred=lambda f: f.record == FAM and f.has_cfg() and f.name == "update_repeated_field"):
        ig = IG(fn, inline=nin)
        live = ig.live_nodes()
        ups = [n for n in ig.ev_nodes() if n.id in live and n.ev["e"] == "call" and n.ev.get("name") == "update" and n.ev.get("rec") == FAM]
        cmps = [n for n in ig.ev_nodes() if n.id in live and n.ev["e"] == "call" and n.ev.get("name") in ("operator!=", "operator<", "operator==")]

        def cleared(d):
            return isinstance(d, dict) and d.get("k") == "e" and ig.ev_of(d) is not None and ig.ev_of(d).ev.get("name") == "ClearedCount"
        for u_ in ups:
            ctl = [c_ for c_ in cmps if u_.id not in ig.reach([ig.entry], removed_edges=L.result_edges(ig, set([c_.id]), True, live))]
            ok = any(L.deep_find(ig, x, cleared, through_args=True) is not None
                     for c_ in ctl for x in [ig.rthis(c_)] + [ig.rarg(c_, i) for i in range(len(c_.ev.get("args", [])))] if x is not None)
            n4 += 1
            ctx.ob("C12.R4d", "FieldAllocationMetadata::update_repeated_field@%s" % u_.line, bool(ctl) and ok, u_.where,
                   "the capacities of the elements of a repeated string / message field are collected in a walk that is not bounded by "
                   "size() + ClearedCount(): elements that Clear() kept alive behind size() hold the largest buffers of the cycle, and "
                   "re-creation then rebuilds them too small", site="update_repeated_field@covers-cleared-elements")
    if "update_repeated_field" in sw and "reserve_repeated_field" in sw:
        n4 += 1
        u, r_ = sw["update_repeated_field"][0], sw["reserve_repeated_field"][0]
        ctx.ob("C12.R4c", "FieldAllocationMetadata::update_repeated_field / reserve_repeated_field", u == r_ and len(u) >= 8,
               sw["reserve_repeated_field"][1].loc,
               "every repeated-field kind whose capacity is recorded must be reserved on re-creation and vice versa: recorded %s, "
               "reserved %s" % (sorted(u - r_), sorted(r_ - u)))
    ctx.floor("C12.R4", n4, 12, "allocation-metadata producers and consumers")

    # ---------------------------------------------------------------- R6 reconstruct dispatch
    n6 = 0
    recs_ = fb.records()
    for fn in fb.find(pred=lambda f: f.record == "babylon::Reuse" and f.name == "call_reconstruct" and f.has_cfg()):
        t = (fn.d.get("targl") or [None])[0]
        if t is None:
            continue
        n_args = len(fn.params) - 2
        rec = recs_.get(t) or {}
        methods = set(m.get("name") if isinstance(m, dict) else m for m in rec.get("methods", []))
        bases = [b.get("type") for b in rec.get("bases", [])]
        for b in bases:
            methods |= set(m.get("name") if isinstance(m, dict) else m for m in (recs_.get(b) or {}).get("methods", []))
        calls = [ev.get("name") for _, ev in fn.all_events() if ev["e"] == "call"]
        n6 += 1
        if n_args == 0 and (("clear" in methods) or ("Clear" in methods) or t.startswith("std::") or "MonotonicBasicString" in t or "ReusableVector" in t):
            ctx.ob("C12.R6a", L.short(fn)[:120], ("clear" in calls or "Clear" in calls) and "destroy" not in calls, fn.loc,
                   "reconstruct of a type that can be cleared must clear it (keeping its capacity), not destroy and re-construct it")
        elif n_args >= 1 and ("MonotonicBasicString" in t or "ReusableVector" in t or t.startswith("std::")):
            ctx.ob("C12.R6a", L.short(fn)[:120], ("operator=" in calls or "assign" in calls) and "destroy" not in calls, fn.loc,
                   "reconstruct with a value must assign into the existing object (re-using its capacity), not destroy and re-construct it")
        else:
            n6 -= 1
    for fn in fb.find(pred=lambda f: re.match(r"^babylon::MonotonicBasicString<", f.record or "") and f.kind == "move_assign" and f.has_cfg()):
        n6 += 1
        ig = IG(fn, inline=nin)
        live = ig.live_nodes()
        sw = list(L.call_nodes(ig, name="swap", live=live))

        def eq(atom, pol, lab):
            n_ = ig.ev_of(strip_cast(atom))
            return n_ is not None and n_.ev.get("name") in ("operator==",) and pol is True
        ee = L.cond_edges(ig, eq, live)
        ctx.ob("C12.R6b", L.short(fn)[:120], bool(sw) and bool(ee) and all(s.id not in ig.reach([ig.entry], removed_edges=ee) for s in sw), fn.loc,
               "move assignment may swap buffers only when both strings use the same allocator (otherwise memory of one resource "
               "outlives or escapes it)")
    ctx.floor("C12.R6", n6, 6, "reconstruct dispatch instances")


SWEEP = ["reusable/test_vector.cpp",
         "reusable/test_string.cpp",
         "reusable/test_manager.cpp",
         "reusable/test_traits.cpp",
         "reusable/test_message.cpp"]


# name anchors (validated by tools/rename_sweep.py; a vanished name is exit 2, see core.check_anchor_names)
ANCHORS = {
    'clear': ['^babylon::ReusableVector(<|$)'],
    'assign': ['^babylon::ReusableVector(<|$)'],
    'emplace_back': ['^babylon::ReusableVector(<|$)'],
    '_allocator': ['^babylon::ReusableVector(<|$)'],
    '_capacity': ['^babylon::ReusableVector(<|$)'],
    '_clear_times': ['^babylon::ReusableManager(<|$)'],
    '_constructed_size': ['^babylon::ReusableVector(<|$)'],
    '_data': ['^babylon::ReusableVector(<|$)'],
    '_instance': ['^babylon::ReusableAccessor(<|$)', '^babylon::ReusableManager(<|$)'],
    '_meta': ['^babylon::ReusableManager(<|$)'],
    '_mutex': ['^babylon::ReusableManager(<|$)'],
    '_size': ['^babylon::ReusableVector(<|$)'],
    '_units': ['^babylon::ReusableManager(<|$)'],
    'accessor': ['^babylon::ReusableManager(<|$)'],
    'construct_with_allocation_metadata': ['^babylon::BasicReusableTraits(<|$)', '^babylon::ReusableTraits(<|$)'],
    'recreate': ['^babylon::ReusableManager(<|$)'],
    'repeated_reserved': ['^babylon::MessageAllocationMetadata::FieldAllocationMetadata(<|$)'],
    'stable_reserve': ['^babylon(<|$)'],
    'update': ['^babylon::MessageAllocationMetadata(<|$)', '^babylon::MessageAllocationMetadata::FieldAllocationMetadata(<|$)', '^babylon::ReusableManager(<|$)'],
}
