"""C10 garbage collector (DESIGN §4 C10)."""
import re

from bsa.core import driver
from bsa.graph import IG
from bsa import atomics as A
from bsa import lib as L
from bsa.facts import pstr, strip_cast, const_val

EXPLANATION = (
    "Structural clauses of C10 on GarbageCollector<R> (functor and std::function reclaimers): R1 drain-before-exit - "
    "in the collector thread's loop every path from a queue pop to the function exit passes an edge on which "
    "'index == tasks.size()' (or !(index < size)) is known, so consumed reclaimers are never destroyed un-invoked "
    "(this is the clause the unfixed tree violated: finding F2, repaired by a fix: commit); R2 a reclaimer is invoked "
    "only on the edge where its epoch <= the low water mark read from the epoch object, the count returned to the "
    "caller is incremented exactly once per invocation, and the caller advances its cursor by that count and refills "
    "only when drained; R3 stop pushes the marker before joining, both under joinable(), the destructor stops, and "
    "retire stamps the task with a fresh tick; R4 queue flag pairing and the single-consumer precondition of the "
    "non-concurrent pop. Which regions are open at retire time (the Epoch argument) is C09; schedule-level "
    "exactly-once is NOT decided.")

GC_REC = re.compile(r"^babylon::GarbageCollector<.*>$")
POP_RE = r"^babylon::ConcurrentBoundedQueue<.*>::(try_)?pop(_n)?$"
PUSH_RE = r"^babylon::ConcurrentBoundedQueue<.*>::(try_)?push(_n)?$"


DEPENDS = {
    "C01": "retired tasks travel through a ConcurrentBoundedQueue",
    "C02": "the reclaim thread sleeps in the queue's pop, retire() in its push",
    "C09": ("reclamation is gated by the Epoch's low water mark", "all"),
}

def units(tier):
    return [driver("epoch_gc.cc")]


def is_gc(fn):
    return bool(GC_REC.match(fn.record or "")) and not fn.lambda_


def gc_inline(fr, ev, callee):
    # inline the collector's own helpers, keep the queue and the epoch opaque
    return bool(GC_REC.match(callee.record or "")) and not callee.lambda_


def size_cmp_edges(ig, live, var_pred):
    """edges on which <cursor> == <vector>.size() or <cursor> >= <vector>.size() holds"""
    def pred(atom, pol, lab):
        c = L.effective_cmp(atom, pol)
        if c is None:
            return False
        op, l, r = c
        n = ig.ev_of(strip_cast(r)) if isinstance(strip_cast(r), dict) and strip_cast(r).get("k") == "e" else None
        if n is None or n.ev.get("name") != "size":
            # maybe written the other way round
            n2 = ig.ev_of(strip_cast(l)) if isinstance(strip_cast(l), dict) and strip_cast(l).get("k") == "e" else None
            if n2 is None or n2.ev.get("name") != "size":
                return False
            op, l, r = L.SWAP[op], r, l
        return op in ("==", ">=") and var_pred(strip_cast(l))
    return L.cond_edges(ig, pred, live)


def run(ctx):
    fb = ctx.fb
    # ---------------------------------------------------------------- Q1 the queue this component re-sizes keeps tickets and rounds in step
    # (set_queue_capacity() relies on ConcurrentBoundedQueue::reserve_and_clear; the clause is C01.R11, evaluated on the queue instantiation used here)
    import C01 as _C01
    _C01.geometry_rebase(ctx, "C10.Q1", fb)
    gcs = fb.find(pred=lambda f: is_gc(f) and f.has_cfg())
    ctx.floor("C10.fns", len(gcs), 14, "GarbageCollector member function instances")
    called = set()
    for fn in gcs:
        for _, ev in fn.all_events():
            if ev["e"] == "call" and GC_REC.match(ev.get("rec", "") or "") and "cid" in ev:
                called.add((fn.tu.path, ev["cid"]))

    # ---------------------------------------------------------------- R1 drain before exit
    n1 = 0
    for fn in gcs:
        if (fn.tu.path, fn.id) in called or fn.kind in ("ctor", "dtor"):
            continue
        ig = IG(fn, inline=gc_inline)
        live = ig.live_nodes()
        pops = list(L.call_nodes(ig, callee_re=POP_RE, live=live))
        if not pops:
            continue
        n1 += 1
        inst = L.short(fn)
        drained = size_cmp_edges(ig, live, lambda l: isinstance(l, dict) and l.get("k") == "l" and l.get("fr") == 0)
        for p in pops:
            r = ig.reach([p], removed_edges=drained)
            detail = None
            if ig.exit.id in r:
                detail = ig.describe_path(ig.witness_path(p, ig.exit, removed_edges=drained))
            ctx.ob("C10.R1", inst, bool(drained) and ig.exit.id not in r, p.where,
                   "after popping reclaim tasks the collector loop can reach its exit without an edge proving that "
                   "every consumed task was handled (cursor == tasks.size()): reclaimers that share a batch with the "
                   "stop marker and are not yet reclaimable are destroyed without being invoked", detail,
                   site="%s@loop-exit" % inst)
        # R2c caller side: cursor advanced by the callee's count, refill only when drained
        rec_calls = [n for n in ig.ev_nodes() if n.id in live and n.frame.owner_id == 0 and n.ev["e"] == "call"
                     and n.inlined and any(True for _ in L.call_nodes(IG(ig.tu.fns[n.ev["cid"]], inline=lambda a, b, c: False),
                                                              name="operator()"))]
        for p in pops:
            ctx.ob("C10.R2d", inst, p.id not in ig.reach([ig.entry], removed_edges=drained), p.where,
                   "the task buffer is refilled (cleared and popped into) while un-reclaimed tasks may remain",
                   site="%s@refill" % inst)
    ctx.floor("C10.R1", n1, 2, "collector thread entry functions")

    # ---------------------------------------------------------------- R2 reclaim guard
    # decided on the collector thread's entry function with the collector's own helpers inlined, so that
    # passing the mark / the cursor through parameters of private helpers does not change the verdict
    n2a = 0
    for fn in gcs:
        if (fn.tu.path, fn.id) in called or fn.kind in ("ctor", "dtor"):
            continue
        ig = IG(fn, inline=gc_inline)
        live = ig.live_nodes()
        invs = [n for n in ig.ev_nodes() if n.id in live and n.ev["e"] == "call" and n.ev.get("name") == "operator()"
                and strip_cast(n.ev.get("this", {})).get("n") == "reclaimer"]
        pops = list(L.call_nodes(ig, callee_re=POP_RE, live=live))
        if not invs or not pops:
            continue
        n2a += 1
        inst = L.short(fn)
        lwm = [n for n in L.call_nodes(ig, callee_re=r"^babylon::Epoch::low_water_mark$", live=live)]
        lwm_ids = set(n.id for n in lwm)

        def reclaimable(atom, pol, lab):
            c = L.effective_cmp(atom, pol)
            if c is None:
                return False
            op, l, r = c
            lf = L.deep_find(ig, l, lambda d: d.get("k") == "f" and d.get("n") == "lowest_epoch")
            rl = any(ig.ev_of(o) is not None and ig.ev_of(o).id in lwm_ids for o in ig.origins(r))
            if lf is not None and rl:
                return op in ("<=",)
            lf2 = L.deep_find(ig, r, lambda d: d.get("k") == "f" and d.get("n") == "lowest_epoch")
            rl2 = any(ig.ev_of(o) is not None and ig.ev_of(o).id in lwm_ids for o in ig.origins(l))
            if lf2 is not None and rl2:
                return op in (">=",)
            return False
        ge = L.cond_edges(ig, reclaimable, live)
        r = ig.reach([ig.entry], removed_edges=ge)
        for i in invs:
            ctx.ob("C10.R2a", inst, bool(ge) and bool(lwm) and i.id not in r, i.where,
                   "reclaimer can be invoked without the test 'task.lowest_epoch <= low_water_mark()' having held: "
                   "it may run while a region that can still see the object is open", site="%s@invoke" % inst)
            # the mark must be read after the task was popped: low_water_mark() is UINT64_MAX while no region is
            # open and *drops* when one opens, so a mark sampled before the pop is not conservative
            bad = None
            for p_ in pops:
                if ig.path_exists(p_, i, avoiding=lwm):
                    bad = p_
            detail = ig.describe_path(ig.witness_path(bad, i, removed=lwm)) if bad is not None else None
            ctx.ob("C10.R2e", inst, bad is None, (bad.where if bad else i.where),
                   "a reclaimer popped from the queue can be invoked under a low water mark that was read before the "
                   "pop: a region opened (and the object retired) between the scan and the pop is not seen, so the "
                   "reclaimer runs while that region is still open", detail, site="%s@stale-mark" % inst)
    ctx.floor("C10.R2a", n2a, 2, "collector entry functions that invoke reclaimers")
    n2 = 0
    for fn in gcs:
        ig = IG(fn, inline=lambda a, b, c: False)
        live = ig.live_nodes()
        invs = [n for n in ig.ev_nodes() if n.id in live and n.ev["e"] == "call" and n.ev.get("name") == "operator()"
                and strip_cast(n.ev.get("this", {})).get("n") == "reclaimer"]
        if not invs:
            continue
        n2 += 1
        inst = L.short(fn)
        # counting discipline
        rets = [n for n in ig.ev_nodes() if n.id in live and n.ev["e"] == "ret" and "v" in n.ev]
        cnt = None
        for rr in rets:
            v = strip_cast(rr.ev["v"])
            if isinstance(v, dict) and v.get("k") == "l":
                cnt = v["id"]
        incs = [n for n in ig.ev_nodes() if n.id in live and n.ev["e"] == "asg" and n.ev.get("op") in ("++", "+=", "=", "-=", "--")
                and strip_cast(n.ev.get("lhs", {})).get("k") == "l" and strip_cast(n.ev["lhs"]).get("id") == cnt]
        ok = cnt is not None and bool(incs) and all(
            n.ev["op"] == "++" or (n.ev["op"] == "+=" and const_val(n.ev.get("rhs")) == 1) for n in incs)
        for i in invs:
            rr = ig.reach([i], removed=incs, include_starts=False)
            if ig.exit.id in rr or any(j.id in rr for j in invs):
                ok = False
        for c in incs:
            rr = ig.reach([m for m, _ in c.succ], removed=invs)
            if any(j.id in rr for j in incs):
                ok = False
            if c.id in ig.reach([ig.entry], removed=invs):
                ok = False
        ctx.ob("C10.R2b", inst, ok, fn.loc,
               "the count of reclaimed tasks returned to the collector loop is not incremented exactly once per "
               "invoked reclaimer (the loop advances its cursor by this count: a miscount skips or repeats tasks)")
    ctx.floor("C10.R2", n2, 2, "functions that invoke a reclaimer")
    # caller advances cursor by the returned count
    for fn in gcs:
        for _, ev in fn.all_events():
            if ev["e"] == "asg" and ev.get("op") == "+=" and strip_cast(ev.get("lhs", {})).get("n") == "index":
                rhs = strip_cast(ev.get("rhs"))
                ok = False
                if isinstance(rhs, dict) and rhs.get("k") == "l":
                    for _, e2 in fn.all_events():
                        if e2["e"] == "decl" and e2.get("var") == rhs["id"]:
                            init = strip_cast(e2.get("init"))
                            if isinstance(init, dict) and init.get("k") == "e":
                                ce = fn.events.get(init["id"])
                                ok = bool(ce) and bool(GC_REC.match(ce.get("rec", "") or ""))
                ctx.ob("C10.R2c", L.short(fn), ok, "%s:%s" % (fn.file, ev["line"]),
                       "collector cursor is not advanced by the number of tasks the reclaim step reports")

    # ---------------------------------------------------------------- R3 stop / retire
    stops = [f for f in gcs if f.name == "stop"]
    ctx.floor("C10.R3", len(stops), 2, "GarbageCollector::stop instances")
    for fn in stops:
        inst = L.short(fn)
        ig = IG(fn, inline=lambda a, b, c: False)
        live = ig.live_nodes()
        joins = list(L.call_nodes(ig, callee_re=r"^std::thread::join$", live=live))
        pushes = list(L.call_nodes(ig, callee_re=PUSH_RE, live=live))
        joinable = set(n.id for n in L.call_nodes(ig, callee_re=r"^std::thread::joinable$", live=live))
        je = L.result_edges(ig, joinable, True, live)
        r = ig.reach([ig.entry], removed_edges=je)
        ok = bool(joins) and bool(pushes) and all(ig.dominated_by(j, pushes) for j in joins) and \
            all(n.id not in r for n in joins + pushes)
        ctx.ob("C10.R3a", inst, ok, fn.loc,
               "stop() must push the stop marker before joining the collector thread, both only when joinable()")
        for p in pushes:
            a0 = ig.rarg(p, 0)
            n0 = ig.ev_of(strip_cast(a0))
            ctx.ob("C10.R3b", inst, n0 is not None and n0.ev["e"] == "ctor" and not n0.ev.get("args"), p.where,
                   "the stop marker must be a default-constructed task (lowest_epoch == UINT64_MAX)")
    recs = fb.records()
    for name, rec in recs.items():
        if re.match(r"^babylon::GarbageCollector<.*>::ReclaimTask$", name):
            f = [x for x in rec["fields"] if x["name"] == "lowest_epoch"]
            ctx.ob("C10.R3c", name.replace("babylon::", ""), bool(f) and f[0].get("init_const") == str(2**64 - 1),
                   "%s:%s" % (rec["file"], rec["line"]),
                   "default task (the stop marker) must carry lowest_epoch == UINT64_MAX")
    for fn in [f for f in gcs if f.kind == "dtor"]:
        ctx.ob("C10.R3d", L.short(fn), any(True for _ in L.fn_calls(fn, name="stop")), fn.loc,
               "destructor does not stop (drain and join) the collector")
    for fn in [f for f in gcs if f.name == "retire" and len(f.params) == 1]:
        ok = False
        for ev in L.fn_calls(fn, name="retire"):
            a1 = strip_cast(ev["args"][1]) if len(ev.get("args", [])) > 1 else None
            if isinstance(a1, dict) and a1.get("k") == "e":
                ce = fn.events.get(a1["id"])
                ok = bool(ce) and ce.get("callee") == "babylon::Epoch::tick"
        ctx.ob("C10.R3e", L.short(fn), ok, fn.loc,
               "retire(reclaimer) must stamp the task with a fresh Epoch::tick(): an older epoch lets the reclaimer "
               "run while a region that started before the unlink is still open")
    # marker detection in the consumer: compares with UINT64_MAX and stops
    n = 0
    for fn in fb.find(pred=lambda f: f.lambda_ and GC_REC.match(re.sub(r"::consume_reclaim_task.*$", "", f.outer or "")) and f.has_cfg()):
        n += 1
        found = False
        from bsa.graph import cond_atoms
        for bid, b in fn.blocks.items():
            c = L.cmp_parts(cond_atoms(b.get("cond"), True)[0]) if "cond" in b else None
            if c and c[0] == "==" and const_val(c[2]) == 2**64 - 1 and strip_cast(c[1]).get("n") == "lowest_epoch":
                found = True
        ctx.ob("C10.R3f", L.short(fn), found, fn.loc, "consumer does not recognise the stop marker (lowest_epoch == UINT64_MAX)")

        # R3g every popped task that is not the marker is kept: the marker edge aside, no path from the element fetch to the next
        # loop test avoids the append, and the appended value is the element fetched
        lig = IG(fn, inline=lambda a, b, c: False)
        llive = lig.live_nodes()
        keeps = [n_ for n_ in lig.ev_nodes() if n_.id in llive and n_.ev["e"] == "call" and n_.ev.get("name") in ("emplace_back", "push_back") and
                 strip_cast(n_.ev.get("this")).get("k") == "cap"]
        fetch = [n_ for n_ in lig.ev_nodes() if n_.id in llive and
                 ((n_.ev["e"] == "asg" and n_.ev.get("op") == "++" and strip_cast(n_.ev.get("lhs")).get("k") == "p") or
                  (n_.ev["e"] == "call" and n_.ev.get("name") == "operator++" and strip_cast(n_.ev.get("this")).get("k") == "p"))]

        def marker_edge(atom, pol, lab):
            c_ = L.effective_cmp(atom, pol)
            return c_ is not None and c_[0] == "==" and const_val(c_[2]) == 2**64 - 1
        me = L.cond_edges(lig, marker_edge, llive)
        ok = bool(keeps) and bool(fetch) and bool(me)
        for f_ in fetch:
            r_ = lig.reach([m for m, _ in f_.succ], removed=keeps, removed_edges=me)
            # reaching the exit or the fetch again without an append = a task dropped
            if lig.exit.id in r_ or f_.id in r_:
                ok = False
        ctx.ob("C10.R3g", L.short(fn), ok, fn.loc,
               "a task popped from the queue that is not the stop marker must be appended to the batch on every path: a task that "
               "is skipped has left the queue and is destroyed without its reclaimer having run", site="consume_reclaim_task@keeps-every-task")

    # ---------------------------------------------------------------- R4 pairing
    sites = L.queue_sites(fb, r"^babylon::GarbageCollector<.*>$")
    ctx.floor("C10.R4", len(sites), 6, "queue push/pop call sites of the collector")
    L.check_queue_pairing(ctx, "C10.R4", sites)


SWEEP = ["concurrent/test_garbage_collector.cpp"]


# name anchors (validated by tools/rename_sweep.py; a vanished name is exit 2, see core.check_anchor_names)
ANCHORS = {
    'keep_reclaim': ['^babylon::GarbageCollector(<|$)'],
    'lowest_epoch': ['^babylon::GarbageCollector(<|$)'],
    'reclaim_start_from': ['^babylon::GarbageCollector(<|$)'],
}
