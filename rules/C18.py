"""C18 hash set/map vs reference set: chain walkers, placeholder, rebuild paths (DESIGN §4 C18)."""
import re

from bsa.core import driver
from bsa.graph import IG
from bsa import atomics as A
from bsa import lib as L
from bsa.facts import pstr, strip_cast, const_val, walk
import C03

EXPLANATION = (
    "Structural clauses of C18 on ConcurrentTransientHashSet/Map: R1 every chain walker (begin, iterator++, find, "
    "total_size, emplace) that loops on a node pointer advances it along that node's own next field, and an "
    "iterator handed out for traversal carries the successor of exactly the node whose table produced its position "
    "(not a constant, not the head's successor) - violated by the original tree (finding F1, replayed, fixed); "
    "R2 placeholder consistency: the default-constructed head (DUMMY controls, 16 'buckets', zero elements) is never "
    "counted by bucket_count() in an element count and empty() is not answered from the head table alone - also "
    "finding F1; the default constructor installs the dummy controls; R3 every rebuild path (copy, copy-assign, "
    "reserve, rehash, clear-with-chain) iterates the whole source through begin()/end() and sizes the target from "
    "size(); R4 user-provided move/swap members of the table, the node and the set transfer every field. Equality with "
    "std::unordered_set over operation histories is NOT decided.")

TRANS = C03.TRANS
ITER = re.compile(r"^babylon::ConcurrentTransientHashSet<.*>::Iterator<.*>$")
NEXT_FIELD = C03.NEXT_FIELD


DEPENDS = {
    "C03": "the set / map is the concurrent table used single-threaded",
}

def units(tier):
    return [driver("hash_table.cc")]


def nin(a, b, c):
    return False


def base_of_field(desc, name):
    """B when desc is B.<name> / B-><name>"""
    d = strip_cast(desc)
    if isinstance(d, dict) and d.get("k") == "f" and d.get("n") == name:
        return strip_cast(d.get("b"))
    return None


def run(ctx):
    fb = ctx.fb
    fns = fb.find(pred=lambda f: (TRANS.match(f.record or "") or ITER.match(f.record or "")) and f.has_cfg()
                  and not f.lambda_)
    ctx.floor("C18.fns", len(fns), 40, "ConcurrentTransientHashSet / Iterator member instances")

    n14 = n9 = 0
    for fn in fns:
        ig = IG(fn, inline=nin)
        live = ig.live_nodes()
        inst = L.short(fn)
        next_loads = [a for a in A.atomic_ops(ig, live) if a.op == "load" and L.deep_find(ig, a.obj, NEXT_FIELD) is not None]
        # ------------------------------------------------ R1a traversal progress (K14)
        for bid, b in fn.blocks.items():
            if b.get("term") not in ("WhileStmt", "DoStmt", "ForStmt") or "cond" not in b:
                continue
            from bsa.graph import cond_atoms
            atom, pol = cond_atoms(b["cond"], True)
            var = None
            c = L.cmp_parts(atom)
            if c and c[0] in ("!=", "==") and const_val(c[2]) == "null" and strip_cast(c[1]).get("k") == "l":
                var = strip_cast(c[1])
            elif isinstance(atom, dict) and atom.get("k") == "l" and "TableNode" in fn.vars.get(str(atom["id"]), {}).get("type", ""):
                var = atom
            if var is None or "TableNode" not in fn.vars.get(str(var["id"]), {}).get("type", ""):
                continue
            n14 += 1
            head = ig.frames[0].block_node[bid]
            # definitions of var that can reach the loop head again from inside the loop
            body_succ = [s for s in b["succ"] if s.get("pol") == (c[0] == "!=" if c else True)]
            if not body_succ:
                continue
            body = ig.frames[0].block_node[body_succ[0]["to"]]
            in_loop = ig.reach([body], removed=[])
            defs = [(n, rhs) for n, rhs, how in ig.local_defs(ig.frames[0], var["id"])
                    if n.id in in_loop and ig.path_exists(n, head, strict=False) and ig.path_exists(body, n, strict=False)
                    and head.id in ig.reach([n])]
            defs = [(n, rhs) for n, rhs in defs if ig.path_exists(body, n, avoiding=[head], strict=False)]
            ok = bool(defs)
            for n, rhs in defs:
                good = False
                for o in ig.origins(rhs) if rhs is not None else []:
                    ln = ig.ev_of(o)
                    if ln is not None and ln.ev.get("name") == "load":
                        b_ = base_of_field(ig.rthis(ln), "next")
                        if isinstance(b_, dict) and b_.get("k") == "l":
                            # advancing through var itself or through a local that was loaded from var->next
                            if b_.get("id") == var["id"]:
                                good = True
                    if isinstance(o, dict) and o.get("k") == "l":
                        good = good or True
                    # next pre-loaded into another local from var->next
                if not good and rhs is not None:
                    r0 = strip_cast(rhs)
                    if isinstance(r0, dict) and r0.get("k") == "l":
                        for n2, rhs2, how2 in ig.local_defs(ig.frames[0], r0["id"]):
                            ln = ig.ev_of(strip_cast(rhs2)) if rhs2 is not None else None
                            if ln is not None and ln.ev.get("name") == "load":
                                b_ = base_of_field(ig.rthis(ln), "next")
                                if isinstance(b_, dict) and b_.get("k") == "l" and b_.get("id") == var["id"]:
                                    good = True
                ctx.ob("C18.R1a", "%s@%s" % (inst, n.line), good, n.where,
                       "a loop over the table chain re-assigns '%s' from something that is not %s->next: the walk does "
                       "not progress along the chain (tables are skipped, or the loop never ends)" % (var["n"], var["n"]),
                       site="%s@chain-advance" % inst)
            ctx.ob("C18.R1a", "%s@loop%s" % (inst, bid), ok, fn.loc,
                   "a loop whose condition tests the chain pointer '%s' never advances it" % var["n"],
                   site="%s@chain-advance" % inst)
        # ------------------------------------------------ R1b handed-out iterators carry the right successor
        if fn.name in ("begin", "operator++") and not fn.params:
            handouts = []   # (node, next desc, iter desc)
            for n in ig.ev_nodes(lambda n: n.id in live and n.frame.owner_id == 0):
                ev = n.ev
                if ev["e"] == "ctor" and ITER.match(ev.get("type", "") or "") and len(ev.get("args", [])) == 2:
                    handouts.append((n, ig.rarg(n, 0), ig.rarg(n, 1)))
            if fn.name == "operator++":
                nx = [n for n in ig.ev_nodes(lambda n: n.id in live and n.ev["e"] == "asg" and
                                             strip_cast(n.ev.get("lhs", {})).get("n") == "_next")]
                it = [n for n in ig.ev_nodes(lambda n: n.id in live and n.ev["e"] in ("call", "asg") and
                                             strip_cast(n.ev.get("this", n.ev.get("lhs", {}))).get("n") == "_iter" and
                                             n.ev.get("name", "operator=") == "operator=")]
                for a in nx:
                    for i_ in it:
                        if a.block == i_.block:
                            handouts.append((a, ig.resolve(a.ev["rhs"], a.frame),
                                             ig.rarg(i_, 0) if i_.ev["e"] == "call" else ig.resolve(i_.ev["rhs"], i_.frame)))
            for n, nxt, itd in handouts:
                # which table produced the position?
                src = None
                for o in ig.origins_at(itd, n):
                    bn = ig.ev_of(o)
                    if bn is not None and bn.ev.get("name") == "begin":
                        src = (bn, base_of_field(ig.rthis(bn), "table"))
                if src is None or src[1] is None:
                    continue
                n9 += 1
                bn, base = src
                good = False
                why = "successor is %s" % pstr(nxt)
                for o in ig.origins_at(nxt, n):
                    ln = ig.ev_of(o)
                    if ln is None or ln.ev.get("name") != "load":
                        good = False
                        break
                    lb = base_of_field(ig.rthis(ln), "next")
                    if lb is None or pstr(lb) != pstr(base):
                        good = False
                        why = "successor is loaded from %s.next but the position comes from %s.table" % (pstr(lb), pstr(base))
                        break
                    if isinstance(base, dict) and base.get("k") == "l":
                        v = dict(base, fr=0)
                        # order within one iteration: the read that dominates the other comes first
                        first, second = (ln, bn) if ig.dominated_by(bn, [ln]) else (bn, ln)
                        if L.redefined_between(ig, v, first, second) is not None:
                            good = False
                            why = "'%s' is re-assigned between reading its table and reading its next" % base.get("n")
                            break
                    good = True
                ctx.ob("C18.R1b", "%s@%s" % (inst, n.line), good, n.where,
                       "an iterator meant for traversal is handed out for a position in %s.table but does not carry that "
                       "node's successor (%s): iteration - and every rebuild that iterates: copy, reserve, rehash, clear - "
                       "stops after this table" % (pstr(base), why), site="%s@iterator-successor" % inst)
        # ------------------------------------------------ R2 placeholder consistency
        if TRANS.match(fn.record or "") and fn.name in ("size", "total_size", "empty"):
            for n in L.call_nodes(ig, name="bucket_count", live=live):
                b_ = base_of_field(ig.rthis(n), "table")
                is_head = isinstance(b_, dict) and b_.get("k") == "f" and b_.get("n") == "_head"
                ctx.ob("C18.R2a", "%s@%s" % (inst, n.line), not is_head, n.where,
                       "bucket_count() of the head table is added into an element count: the default-constructed "
                       "placeholder head has 16 buckets and can hold no element (size() is 16 too large after growth)",
                       site="%s@placeholder-count" % inst)
            if fn.name == "total_size":
                # R2c a table is counted (by capacity when a successor exists, by its counter when it is the last) as the node
                # whose `next` was just examined: the walking pointer is not advanced between that load and the count
                nl = [a.node for a in A.atomic_ops(ig, live) if a.op == "load" and strip_cast(a.obj).get("n") == "next"]
                cnts = [n for n in ig.ev_nodes() if n.id in live and n.ev["e"] == "call" and n.ev.get("name") in ("bucket_count", "size") and
                        isinstance(base_of_field(ig.rthis(n), "table"), dict) and base_of_field(ig.rthis(n), "table").get("k") in ("p", "l")]
                okc = bool(nl) and bool(cnts)
                for c_ in cnts:
                    var = base_of_field(ig.rthis(c_), "table")
                    adv = [n for n in ig.ev_nodes() if n.id in live and n.ev["e"] == "asg" and n.ev.get("op") == "=" and
                           pstr(strip_cast(n.ev.get("lhs"))) == pstr(var)]
                    same = [l_ for l_ in nl if pstr(base_of_field(ig.rthis(l_), "next")) == pstr(var)]
                    if not same:
                        okc = False
                    for l_ in same:
                        if any(ig.path_exists(l_, a_, avoiding=[l_]) and ig.path_exists(a_, c_, avoiding=[l_], strict=False) for a_ in adv):
                            okc = False
                ctx.ob("C18.R2c", inst, okc, fn.loc,
                       "total_size must count the table whose successor it has just looked at: with the walking pointer advanced between "
                       "the load of next and the count, the first chained table is skipped and the last one is counted twice",
                       site="%s@count-the-examined-table" % inst)
            if fn.name == "empty":
                looks_further = bool(next_loads) or any(True for _ in L.call_nodes(ig, name="size", live=live)
                                                        if TRANS.match(_.ev.get("rec", "") or ""))
                ctx.ob("C18.R2b", inst, looks_further, fn.loc,
                       "empty() is answered from the head table alone: a default-constructed set that grew reports empty",
                       site="%s@placeholder-empty" % inst)
    # ------------------------------------------------ R7 every chain operation starts at the head table
    n7 = 0
    for fn in fb.find(pred=lambda f: TRANS.match(f.record or "") and f.has_cfg() and not f.lambda_ and f.name in ("emplace", "find")):
        ig = IG(fn, inline=lambda a, b, c: False)
        live = ig.live_nodes()
        ops = [n for n in ig.ev_nodes() if n.id in live and n.ev["e"] == "call" and n.ev.get("name") == fn.name and
               "this" in n.ev and any(sd.get("k") == "f" and sd.get("n") == "table" for sd in walk(n.ev["this"]))]
        if not ops:
            continue
        n7 += 1

        def head_obj(d):
            d = strip_cast(d)
            if isinstance(d, dict) and d.get("k") == "u" and d.get("op") == "&":
                d = strip_cast(d.get("x"))
            return isinstance(d, dict) and d.get("k") == "f" and d.get("n") == "_head" and strip_cast(d.get("b", {})).get("k") == "this"

        def on_head(n):
            # the table the operation is applied to is this->_head.table, or node->table where every value of `node` that
            # reaches the operation without having gone round the loop is &this->_head
            th = strip_cast(ig.rthis(n))
            if not (isinstance(th, dict) and th.get("k") == "f" and th.get("n") == "table"):
                return False
            base = strip_cast(th.get("b"))
            if head_obj(base):
                return True
            if isinstance(base, dict) and base.get("k") == "l":
                defs = [(dn, rhs) for dn, rhs, how in ig.local_defs(ig.frames[base.get("fr", 0)], base["id"]) if how == "decl"]
                return bool(defs) and all(rhs is not None and all(head_obj(o) for o in ig.origins(rhs)) for dn, rhs in defs)
            return False
        heads = [n for n in ops if on_head(n)]
        first = [n for n in ops if not any(ig.path_exists(o, n) and not ig.path_exists(n, o) for o in ops if o is not n)]
        ctx.ob("C18.R7", L.short(fn)[:110], bool(heads) and all(on_head(n) for n in first), fn.loc,
               "a chain operation must try the head table first and then follow the chain: an insertion or lookup that starts further "
               "down the chain misses (or duplicates) every key stored in the tables it skipped")
    ctx.floor("C18.R7", n7, 6, "chain emplace/find instances")

    # ------------------------------------------------ R8 a table iterator is compared with the end() of the table it came from
    TBL = re.compile(r"^babylon::ConcurrentFixedSwissTable<.*>$")
    TBL_IT = re.compile(r"^babylon::ConcurrentFixedSwissTable<.*>::Iterator<.*>$")
    n8 = 0
    for fn in fb.find(pred=lambda f: f.has_cfg() and not f.lambda_ and
                      re.match(r"^babylon::ConcurrentTransientHash(Set|Map)<.*>(::Iterator<.*>)?$", f.record or "")):
        ig = IG(fn, inline=lambda a, b, c: False)
        live = ig.live_nodes()
        for n in ig.ev_nodes():
            if n.id not in live or n.ev["e"] != "call" or n.ev.get("name") not in ("operator!=", "operator==") or not TBL_IT.match(n.ev.get("rec", "") or ""):
                continue

            def producers(side):
                """(kind, receiver path) of every table call whose result can be the value of `side` at this comparison"""
                out = []
                if side is None:
                    return out
                d = strip_cast(ig.resolve(side, n.frame))
                os_ = ig.origins_at(d, n) if isinstance(d, dict) and d.get("k") == "l" else [d]
                for o in os_:
                    ev_ = None
                    for sd in walk(strip_cast(o)):
                        if isinstance(sd, dict) and sd.get("k") == "e":
                            ev_ = ig.ev_of(sd)
                            break
                    # through copy constructions of the iterator
                    hops = 0
                    while ev_ is not None and ev_.ev["e"] == "ctor" and ev_.ev.get("args") and hops < 4:
                        hops += 1
                        nxt = None
                        for o2 in ig.origins_at(strip_cast(ig.resolve(ev_.ev["args"][0], ev_.frame)), ev_):
                            for sd in walk(strip_cast(o2)):
                                if isinstance(sd, dict) and sd.get("k") == "e":
                                    nxt = ig.ev_of(sd)
                                    break
                        ev_ = nxt
                    if ev_ is None or ev_.ev["e"] != "call" or not TBL.match(ev_.ev.get("rec", "") or ""):
                        out.append((None, None))
                        continue
                    out.append(("end" if ev_.ev.get("name") in ("end", "cend") else "pos", pstr(strip_cast(ig.resolve(ev_.ev.get("this"), ev_.frame)))))
                return out
            a, b = producers(n.ev.get("this")), producers((n.ev.get("args") or [None])[0])
            ends = [x for x in a + b if x[0] == "end"]
            poss = [x for x in a + b if x[0] == "pos"]
            if not ends or not poss or any(x[0] is None for x in a + b):
                continue        # not a <position> vs <end of a table> test the rule can attribute
            n8 += 1
            ctx.ob("C18.R8", "%s@%s" % (L.short(fn)[:90], n.line), all(e_[1] == p_[1] for e_ in ends for p_ in poss), n.where,
                   "a table iterator obtained from %s is compared with the end() of %s: table iterators compare by index only, so the "
                   "end of a table with a different bucket count cuts the walk short or runs past the last slot" % (
                       sorted(set(p_[1] for p_ in poss)), sorted(set(e_[1] for e_ in ends))), site="%s@end-of-same-table" % fn.name)
    ctx.floor("C18.R8", n8, 8, "position-vs-end comparisons of table iterators")

    # ------------------------------------------------ R6 lookups walk the groups in the order insertion does
    # (the clause is C03.R7; a sequential history breaks on it just as a concurrent one does - seed C18-2 - so it is armed here too)
    class _Sub:
        def __init__(self, outer):
            self.outer = outer
            self.fb = outer.fb
            self.prop = "C03"
            self.unmet = []
            self.notes = []
            self.n = 0

        def ob(self, rule, instance, ok, where="", msg="", detail=None, site=None):
            if rule in ("C03.R7", "C03.R7b"):
                self.n += 1
                return self.outer.ob(rule.replace("C03.R7", "C18.R6"), instance, ok, where, msg, detail, site)
            return ok

        def floor(self, *a):
            pass

        def note(self, m):
            pass

        def named(self, rule, found, name, rec_re=None):
            return True if found else False

        def broken(self, msg):
            self.outer.broken(msg)
    sub = _Sub(ctx)
    C03.run(sub)
    ctx.floor("C18.R6", sub.n, 3, "lookup/insert probe pairs")
    ctx.floor("C18.R1a", n14, 12, "loops over the table chain")
    ctx.floor("C18.R1b", n9, 6, "traversal iterators handed out")

    # default state of the fixed table
    n2 = 0
    for fn in fb.find(pred=lambda f: C03.FIXED.match(f.record or "") and f.kind == "ctor" and not f.params and f.has_cfg()):
        n2 += 1
        inits = {ev.get("field"): ev for _, ev in fn.all_events() if ev["e"] == "init"}
        c = strip_cast(inits.get("_controls", {}).get("v"))
        ok = isinstance(c, dict) and "s_dummy_controls" in pstr(c) and const_val(inits.get("_bucket_mask", {}).get("v")) == 15
        ctx.ob("C18.R2c", L.short(fn), ok, fn.loc,
               "default state must be the shared DUMMY control group with mask 15 (full for insertion, empty for lookup)")
    ctx.floor("C18.R2c", n2, 3, "default constructors of the fixed table")

    # ------------------------------------------------ R5 clear resets the mirrored tail group too
    # insertion writes every tag twice (slot + mirror in the 16-byte tail group that lets a SIMD load wrap);
    # a clear that resets control bytes must reset that tail group on the same path, else old keys that had
    # wrapped into slots 0..14 are still found after clear()
    n5 = 0
    for fn in fb.find(pred=lambda f: C03.FIXED.match(f.record or "") and f.name == "clear" and f.has_cfg()):
        n5 += 1
        ig = IG(fn, inline=nin)
        live = ig.live_nodes()
        resets, mirrors = [], []
        for n in ig.ev_nodes(lambda n: n.id in live and n.ev["e"] == "call"):
            nm = n.ev.get("callee", "") or ""
            if nm.endswith("::Group::clear") or nm in ("__builtin_memset", "memset"):
                a0 = ig.rarg(n, 0)
                if L.deep_find(ig, a0, lambda d: d.get("k") == "f" and d.get("n") == "_controls") is None:
                    continue
                off_is_count = L.deep_find(ig, a0, lambda d: d.get("k") == "e" and ig.ev_of(d) is not None and
                                           ig.ev_of(d).ev.get("name") == "bucket_count") is not None
                if nm.endswith("::Group::clear") and off_is_count:
                    mirrors.append(n)
                else:
                    resets.append(n)
        ok = bool(resets) and bool(mirrors) and all(ig.postdominated_by(r, mirrors) for r in resets)
        bad = [r for r in resets if not ig.postdominated_by(r, mirrors)]
        ctx.ob("C18.R5", L.short(fn), ok, (bad[0].where if bad else fn.loc),
               "clear() resets control bytes on a path that does not also reset the mirrored tail group at "
               "_controls + bucket_count(): keys whose tag was mirrored there are still found (and block re-insertion) "
               "after clear()", site="%s@mirror-reset" % L.short(fn))
    ctx.floor("C18.R5", n5, 3, "fixed table clear() instances")

    # ------------------------------------------------ R3 rebuild paths
    n3 = 0
    for fn in fns:
        if not TRANS.match(fn.record or ""):
            continue
        is_rebuild = fn.kind == "copy_ctor" or fn.name in ("reserve", "rehash", "clear") or fn.kind == "copy_assign"
        if not is_rebuild:
            continue
        ig = IG(fn, inline=nin)
        live = ig.live_nodes()
        inst = L.short(fn)
        n3 += 1
        sizes = [n for n in L.call_nodes(ig, name="size", live=live) if TRANS.match(n.ev.get("rec", "") or "")]
        if fn.kind == "copy_assign":
            ctors = [n for n in ig.ev_nodes() if n.id in live and n.ev["e"] == "ctor" and n.ev.get("ckind") == "copy"
                     and TRANS.match(n.ev.get("type", "") or "")]
            ctx.ob("C18.R3a", inst, bool(ctors) and any(True for _ in L.call_nodes(ig, name="swap", live=live)), fn.loc,
                   "copy-assignment must rebuild through the copy constructor and swap")
            continue
        begins = [n for n in L.call_nodes(ig, name="begin", live=live) if TRANS.match(n.ev.get("rec", "") or "")]
        ends = [n for n in L.call_nodes(ig, name="end", live=live) if TRANS.match(n.ev.get("rec", "") or "")]
        if fn.name == "clear":
            # clear-with-chain replaces *this by a fresh set sized from size(); nothing to iterate
            tgt = [n for n in ig.ev_nodes() if n.id in live and n.ev["e"] == "ctor" and TRANS.match(n.ev.get("type", "") or "")
                   and len(n.ev.get("args", [])) == 1 and n.ev.get("ckind") is None]
            ok = bool(tgt) and all(any(ig.ev_of(o) in sizes for o in ig.leaves(ig.rarg(t, 0))) for t in tgt)
            ctx.ob("C18.R3b", inst, ok, fn.loc, "clear of a chained set must size the replacement from size()")
            continue
        ctx.ob("C18.R3a", inst, bool(begins) and bool(ends), fn.loc,
               "rebuild path does not iterate the source through begin()/end() (whole-chain iteration)")
        # target sized from size()
        if fn.kind == "copy_ctor":
            init = [ev for _, ev in fn.all_events() if ev["e"] == "init" and ev.get("field") == "_head"]
            ok = False
            for ev in init:
                ok = L.deep_find(ig, ig.resolve(ev.get("v"), ig.frames[0]),
                                 lambda d: d.get("k") == "e" and ig.ev_of(d) in sizes, through_args=True) is not None
            ctx.ob("C18.R3b", inst, ok, fn.loc, "copy must size its table from the source's size()")
        else:
            tgt = [n for n in ig.ev_nodes() if n.id in live and n.ev["e"] == "ctor" and TRANS.match(n.ev.get("type", "") or "")
                   and len(n.ev.get("args", [])) == 1 and n.ev.get("ckind") is None]
            ok = bool(tgt) and all(L.deep_find(ig, ig.rarg(t, 0), lambda d: d.get("k") == "e" and ig.ev_of(d) in sizes,
                                               through_args=True) is not None for t in tgt)
            ctx.ob("C18.R3b", inst, ok, fn.loc, "rebuild target must be sized from at least size()")
    ctx.floor("C18.R3", n3, 10, "rebuild functions")

    # ------------------------------------------------ R4 special members
    n4 = L.check_special_members(ctx, "C18.R4", fb,
                                 r"^babylon::(ConcurrentFixedSwissTable<.*>|ConcurrentTransientHashSet<[^:]*>(::TableNode)?)$")
    ctx.floor("C18.R4", n4, 12, "user-provided move/swap members")


SWEEP = ["concurrent/test_transient_hash_table.cpp"]


# name anchors (validated by tools/rename_sweep.py; a vanished name is exit 2, see core.check_anchor_names)
ANCHORS = {
    '_controls': ['^babylon::internal::concurrent_transient_hash_table::Group(<|$)'],
}
