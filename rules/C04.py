"""C04 concurrent vector: stable addresses, built/destroyed once, cooling period (DESIGN §4 C04)."""
import re

from bsa.core import driver
from bsa.graph import IG
from bsa import atomics as A
from bsa import lib as L
from bsa.facts import pstr, strip_cast, const_val, walk

EXPLANATION = (
    "Structural clauses of C04 on every instantiation of ConcurrentVector (dynamic, static 128, static 1 block size; "
    "trivial and non-trivial T): R1 memory orders on the block-table pointer (CAS success releases, CAS failure and "
    "every concurrent-path load acquire); R2 in the growth slow path the fresh table is published-or-deleted exactly "
    "once on every path, the observed table is only ever retired (never freed directly), the loser frees exactly the "
    "blocks it created (same start/bound as the creation loop) before retrying/returning, and creation precedes "
    "publication; R3 who-may-free tables/blocks/retire lists, the retired-table deleter never frees blocks, list "
    "deletion only behind a winning CAS and an expiry test; R4 the cooling constants ((min diff - 1) * unit >= 64 s, "
    "monotonic clock); R5 a block is fully constructed before create_block returns. Address identity at run time, "
    "clock behaviour and 16-bit timestamp wrap are NOT decided.")

VEC_REC = re.compile(r"^babylon::ConcurrentVector<.*>$")
RETIRE_REC = re.compile(r"^babylon::internal::concurrent_vector::RetireList<.*>$")
TABLE_FIELD = L.field_pred(rec_re=r"^babylon::ConcurrentVector<.*>$", type_re=r"^std::atomic<.*BlockTable \*>$")
HEAD_FIELD = L.field_pred(rec_re=r"concurrent_vector::RetireList<.*>$", type_re=r"^std::atomic<unsigned long>$")


def units(tier):
    return [driver("vector.cc")]


def is_vec(fn):
    return bool(VEC_REC.match(fn.record or ""))


def table_ops(ig, live, field=TABLE_FIELD):
    return [a for a in A.atomic_ops(ig, live) if a.op != "fence" and L.deep_find(ig, a.obj, field) is not None]


callers = L.callers


def run(ctx):
    fb = ctx.fb
    noinline_lambda = lambda fr, ev, callee: not callee.lambda_

    # ---------------------------------------------------------------- R1 orders
    concurrent_entries = ("ensure", "reserve", "snapshot", "reserved_snapshot", "operator[]", "fill_n", "copy_n",
                          "for_each", "size")
    n = 0
    for fn in fb.find(pred=lambda f: is_vec(f) and f.has_cfg() and f.name in concurrent_entries
                      and f.d.get("access") == 0):
        ig = IG(fn, inline=noinline_lambda)
        live = ig.live_nodes()
        ops = table_ops(ig, live)
        if not ops:
            continue
        n += 1
        for a in ops:
            if a.unresolved:
                ctx.broken("unresolved memory order at %s" % a.node.where)
            if a.op == "load":
                ctx.ob("C04.R1a", "%s@%s" % (L.short(fn), a.node.line), A.acquires(a.order), a.node.where,
                       "block table pointer loaded with %s on a path that dereferences it concurrently with growth "
                       "(needs acquire: the table contents are published through this pointer)" % A.ORDER_NAME.get(a.order))
            if a.op == "cas":
                ctx.ob("C04.R1b", "%s@%s" % (L.short(fn), a.node.line), A.releases(a.order) and A.acquires(a.fail_order),
                       a.node.where,
                       "block table CAS must release on success (publishes the new table and blocks) and acquire on "
                       "failure (the loser dereferences the observed table): success=%s failure=%s" %
                       (A.ORDER_NAME.get(a.order), A.ORDER_NAME.get(a.fail_order)))
            if a.op in ("store", "rmw"):
                ctx.ob("C04.R1c", "%s@%s" % (L.short(fn), a.node.line), False, a.node.where,
                       "block table pointer written by something other than the publishing CAS on a concurrent path")
    ctx.floor("C04.R1", n, 20, "public concurrent entries that touch the block table pointer")

    # ----------------------------------------------------------- R2 growth path
    growers = []
    for fn in fb.find(pred=lambda f: is_vec(f) and f.has_cfg()):
        for bid, ev in fn.all_events():
            if ev["e"] == "call" and ev.get("name", "").startswith("compare_exchange"):
                th = strip_cast(ev.get("this"))
                if isinstance(th, dict) and TABLE_FIELD(th):
                    growers.append(fn)
                    break
    ctx.floor("C04.R2", len(growers), 4, "growth functions (contain the CAS on the block table pointer)")
    grower_keys = set(f.key for f in growers)
    for fn in growers:
        inst = L.short(fn)
        ig = IG(fn, inline=lambda fr, ev, callee: False, for_once=True)
        live = ig.live_nodes()
        cas = [a for a in table_ops(ig, live) if a.op == "cas"]
        cas_ids = set(a.node.id for a in cas)
        succ_edges = [(s.id, d.id) for s, d, lab in ig.edges_where(
            lambda s, d, lab: A.is_cas_success_edge(ig, s, d, lab, cas_ids) is not None)]
        fail_edges = []
        for s, d, lab in ig.edges_where(lambda s, d, lab: lab.cond is not None and lab.pol is not None):
            from bsa.graph import cond_atoms
            atom, pol = cond_atoms(ig.resolve(lab.cond, lab.frame), lab.pol)
            for o in ig.origins(atom):
                nn = ig.ev_of(o)
                if nn is not None and nn.id in cas_ids and not pol:
                    fail_edges.append((s.id, d.id))
        if not succ_edges or not fail_edges:
            ctx.broken("%s: cannot identify success/failure edges of the block table CAS" % inst)
        fresh = [n_ for n_ in L.call_nodes(ig, name="create_block_table", live=live)]
        if len(fresh) != 1:
            ctx.broken("%s: expected exactly one create_block_table call" % inst)
        fresh = fresh[0]

        def is_fresh(desc):
            os_ = ig.origins(desc)
            return bool(os_) and all(isinstance(o, dict) and o.get("k") == "e" and ig.ev_of(o) is fresh for o in os_)

        def is_observed(desc):
            os_ = ig.origins(desc)
            return bool(os_) and all(isinstance(o, dict) and (o.get("k") == "p" or o.get("lab") == "cas-observed")
                                     for o in os_)
        # R2a fresh table disposed exactly once
        dels = [n_ for n_ in L.call_nodes(ig, name="delete_block_table", live=live)]
        fresh_dels = [d for d in dels if is_fresh(ig.rarg(d, 0))]
        for c in cas:
            ctx.ob("C04.R2a", inst, is_fresh(ig.rarg(c.node, 1)) and is_observed(ig.rarg(c.node, 0)), c.node.where,
                   "the CAS must install the freshly created table against the observed one")
        st = ig.count_on_paths(ig.entry, disp_nodes=fresh_dels, disp_edges=succ_edges)
        at_exit = st.get(ig.exit.id, frozenset())
        ctx.ob("C04.R2b", inst, at_exit == frozenset([1]), fn.loc,
               "fresh block table must be published by the winning CAS or deleted - exactly one of the two - on every "
               "path to return; counts seen at exit: %s" % sorted(at_exit))
        # R2c observed table only ever retired
        for d in dels:
            ctx.ob("C04.R2c", inst, is_fresh(ig.rarg(d, 0)), d.where,
                   "delete_block_table on something that is not the fresh table (%s): a table other threads may still "
                   "read must go through the retire list" % pstr(ig.rarg(d, 0)), site="%s@delete_block_table" % inst)
        retires = [n_ for n_ in L.call_nodes(ig, name="retire", live=live)]
        ok = bool(retires)
        for (s, d) in succ_edges:
            if ig.exit.id in ig.reach([ig.nodes[d]], removed=retires):
                ok = False
        for r in retires:
            if not is_observed(ig.rarg(r, 0)):
                ok = False
            if r.id in ig.reach([ig.entry], removed_edges=succ_edges):
                ok = False
        ctx.ob("C04.R2d", inst, ok, fn.loc,
               "winning CAS must be followed on every path by retire(<observed table>) and retire must not be reachable otherwise")
        # R2e loser frees what it created, before retry/return
        dblocks = [n_ for n_ in L.call_nodes(ig, name="delete_block", live=live)]
        cblocks = [n_ for n_ in L.call_nodes(ig, name="create_block", live=live)]
        ok = bool(dblocks)
        for (s, d) in fail_edges:
            r = ig.reach([ig.nodes[d]], removed=dblocks)
            if ig.exit.id in r or any(c.node.id in r for c in cas):
                ok = False
        for d in dblocks:
            if d.id in ig.reach([ig.entry], removed_edges=fail_edges):
                ok = False
        ctx.ob("C04.R2e", inst, ok, fn.loc,
               "losing the CAS must free the speculative blocks before retrying or returning, and only then")
        # R2f same index range for create and delete loops

        def loop_sig(call_node):
            """(base is fresh table, induction variable) of the blocks[] element used at call_node"""
            ev = call_node.ev
            idx = None
            if ev["name"] == "delete_block":
                idx = ig.rarg(call_node, 0)
            else:
                # create_block result assigned to blocks[i]
                for n_ in ig.ev_nodes(lambda n_: n_.ev["e"] == "asg" and n_.frame.owner_id == 0):
                    rhs = strip_cast(n_.ev.get("rhs"))
                    if isinstance(rhs, dict) and rhs.get("k") == "e" and rhs.get("id") == ev["id"]:
                        idx = ig.resolve(n_.ev["lhs"], n_.frame)
            if idx is None:
                return None
            found = L.deep_find(ig, idx, lambda d: d.get("k") == "idx")
            if found is None:
                return None
            base = strip_cast(found.get("b"))
            base_ok = isinstance(base, dict) and base.get("k") == "f" and is_fresh(base["b"])
            return base_ok, strip_cast(found.get("i"))

        def range_of(call_node):
            base_iv = loop_sig(call_node)
            if base_iv is None:
                return None
            base_ok, iv = base_iv
            if not (isinstance(iv, dict) and iv.get("k") == "l"):
                return None
            # the loop may live in a helper expanded into this function: take it from the frame of the call and express
            # start and bound in the caller's terms (a helper's parameters resolve to the caller's arguments)
            fr = ig.frames[iv.get("fr", call_node.frame.id)] if "fr" in iv else call_node.frame
            defs = ig.local_defs(fr, iv["id"])
            init = [pstr(strip_cast(ig.resolve(r, fr))) for n_, r, how in defs if how == "decl"]
            # loop bound: the condition of the for header that tests this variable
            bound = None
            for bid, b in fr.fn.blocks.items():
                if b.get("term") == "ForStmt" and "cond" in b:
                    c = L.cmp_parts(b["cond"])
                    if c and strip_cast(c[1]).get("k") == "l" and strip_cast(c[1]).get("id") == iv["id"]:
                        bound = (c[0], pstr(strip_cast(ig.resolve(c[2], fr))))
            return base_ok, init, bound
        rc = [range_of(c) for c in cblocks]
        rd = [range_of(d) for d in dblocks]
        ok = bool(rc) and bool(rd) and all(x is not None and x[0] for x in rc + rd) and \
            all(x[1:] == rc[0][1:] for x in rc + rd)
        ctx.ob("C04.R2f", inst, ok, fn.loc,
               "the loser must free exactly the index range it created in the fresh table: create loops %s, delete loops %s"
               % (rc, rd))
        # ... and the start/bound variables must still hold the values the creation loop used
        def loop_decl(call_node):
            sig = loop_sig(call_node)
            if sig is None or not (isinstance(sig[1], dict) and sig[1].get("k") == "l"):
                return None
            for n_, rhs, how in ig.local_defs(ig.frames[0], sig[1]["id"]):
                if how == "decl":
                    return n_, rhs
            return None
        for c in cblocks:
            for d in dblocks:
                lc, ld = loop_decl(c), loop_decl(d)
                if lc is None or ld is None:
                    continue
                for v in [x for x in walk(ld[1]) if x.get("k") == "l"]:
                    v = dict(v, fr=0)
                    x = L.redefined_between(ig, v, lc[0], ld[0])
                    ctx.ob("C04.R2g", inst, x is None, (x.where if x else ld[0].where),
                           "'%s', the first index the loser frees, is re-assigned between the creation loop and the "
                           "clean-up loop: blocks created before the re-assignment are neither freed nor adopted" %
                           v.get("n"), site="%s@loser-range" % inst)
        # R2g / R5b creation precedes publication
        for c in cas:
            ctx.ob("C04.R5b", inst, bool(cblocks) and ig.dominated_by(c.node, cblocks), c.node.where,
                   "the new table can be published before its new blocks are created")

    # ------------------------------------------------------------------ R3 who-may
    dt = callers(fb, r"ConcurrentVector<.*>::delete_block_table$")
    ctx.floor("C04.R3a", len(dt), 8, "delete_block_table call sites")
    for fn, ev in dt:
        ok = (is_vec(fn) and fn.kind == "dtor") or fn.key in grower_keys or \
            re.search(r"ConcurrentVector<.*>::BlockTableDeleter::operator\(\)$", fn.qname) is not None
        ctx.ob("C04.R3a", "%s -> delete_block_table" % L.short(fn), ok, "%s:%s" % (fn.file, ev["line"]),
               "block table freed outside destructor / retire-list deleter / growth loser")
    db = callers(fb, r"ConcurrentVector<.*>::delete_block$")
    ctx.floor("C04.R3b", len(db), 8, "delete_block call sites")
    for fn, ev in db:
        ok = (is_vec(fn) and fn.kind == "dtor") or fn.key in grower_keys
        ctx.ob("C04.R3b", "%s -> delete_block" % L.short(fn), ok, "%s:%s" % (fn.file, ev["line"]),
               "element block freed outside destructor / growth loser: references handed out would dangle")
    deleters = fb.find(r"ConcurrentVector<.*>::BlockTableDeleter::operator\(\)$", pred=lambda f: f.has_cfg())
    ctx.floor("C04.R3c", len(deleters), 4, "BlockTableDeleter::operator() instances")
    for fn in deleters:
        ig = IG(fn, inline=noinline_lambda)
        bad = [n_ for n_ in L.call_nodes(ig, callee_re=r"::delete_block$")]
        is_blocks = lambda d: d.get("k") == "idx" or (d.get("k") == "f" and d.get("n") == "blocks")
        for n_ in ig.ev_nodes():
            if n_.ev["e"] == "delete" and L.deep_find(ig, ig.resolve(n_.ev["x"], n_.frame), is_blocks):
                bad.append(n_)
            if n_.ev["e"] == "call" and (n_.ev.get("callee") or "").startswith("operator delete") and n_.ev.get("args") \
                    and L.deep_find(ig, ig.rarg(n_, 0), is_blocks):
                bad.append(n_)
        ctx.ob("C04.R3c", L.short(fn), not bad, fn.loc,
               "the deleter of a retired table frees element blocks: retired tables share their blocks with the live table")
    dl = callers(fb, r"RetireList<.*>::delete_list$")
    ctx.floor("C04.R3d", len(dl), 12, "delete_list call sites")
    for fn, ev in dl:
        ok = bool(RETIRE_REC.match(fn.record or "")) and (fn.name in ("retire", "gc", "unsafe_gc") or fn.kind == "dtor")
        ctx.ob("C04.R3d", "%s -> delete_list" % L.short(fn), ok, "%s:%s" % (fn.file, ev["line"]),
               "retire list freed from an unexpected function")
    ug = callers(fb, r"RetireList<.*>::unsafe_gc$")
    for fn, ev in ug:
        ok = is_vec(fn) and (fn.kind == "dtor" or fn.name == "unsafe_gc")
        ctx.ob("C04.R3e", "%s -> unsafe_gc" % L.short(fn), ok, "%s:%s" % (fn.file, ev["line"]),
               "time-unchecked reclamation called from a path other than destructor / explicit unsafe_gc")
    # timed reclamation: only behind winning CAS on head and a true expiry test
    timed = fb.find(pred=lambda f: RETIRE_REC.match(f.record or "") and f.name in ("retire", "gc") and f.has_cfg())
    ctx.floor("C04.R3f", len(timed), 8, "retire/gc instances")
    for fn in timed:
        inst = L.short(fn)
        ig = IG(fn, inline=lambda fr, ev, callee: False)
        live = ig.live_nodes()
        hops = table_ops(ig, live, HEAD_FIELD)
        cas_ids = set(a.node.id for a in hops if a.op == "cas")
        succ_edges = [(s.id, d.id) for s, d, lab in ig.edges_where(
            lambda s, d, lab: A.is_cas_success_edge(ig, s, d, lab, cas_ids) is not None)]

        def expired(atom, pol, lab):
            n_ = ig.ev_of(atom) if isinstance(atom, dict) and atom.get("k") == "e" else None
            return pol and n_ is not None and n_.ev.get("name") == "expire"
        exp_edges = L.cond_edges(ig, expired, live)
        for d in L.call_nodes(ig, name="delete_list", live=live):
            r1 = ig.reach([ig.entry], removed_edges=succ_edges)
            r2 = ig.reach([ig.entry], removed_edges=exp_edges)
            argsrc = ig.origins(ig.rarg(d, 0))
            from_head = all(isinstance(o, dict) and o.get("k") == "e" and ig.ev_of(o) is not None and
                            (ig.ev_of(o).id in set(a.node.id for a in hops)) for o in argsrc)
            ctx.ob("C04.R3f", inst, bool(succ_edges) and bool(exp_edges) and d.id not in r1 and d.id not in r2 and from_head,
                   d.where, "retired tables are freed without (a) winning the CAS that detaches the list, (b) the expiry "
                   "test being true, or (c) on a value that is not the detached head", site="%s@delete_list" % inst)
        for a in hops:
            if a.op == "load":
                ctx.ob("C04.R3g", inst, A.acquires(a.order), a.node.where, "retire list head loaded without acquire")
            if a.op == "cas":
                ctx.ob("C04.R3g", inst, A.releases(a.order) and A.acquires(a.fail_order), a.node.where,
                       "retire list head CAS must be acq_rel (publishes node->next, takes ownership of the old list)")

        # the clock is sampled after the head whose stamp it is compared with: expire() computes a 16-bit difference that is
        # only meaningful when now >= stamp(head)
        for e_ in L.call_nodes(ig, name="expire", live=live):
            hs = [ig.ev_of(o) for o in ig.origins_at(ig.rarg(e_, 0), e_)]
            ts = [ig.ev_of(o) for o in ig.origins_at(ig.rarg(e_, 1), e_)]
            hs = [h for h in hs if h is not None and h.ev.get("name") in ("load", "exchange")]
            ts = [t for t in ts if t is not None and t.ev.get("name") == "get_current_timestamp"]
            ctx.ob("C04.R4c", "%s@%s" % (inst, e_.line), bool(hs) and bool(ts) and all(ig.dominated_by(t, [h]) for t in ts for h in hs),
                   e_.where,
                   "the timestamp handed to expire() must be read after the list head it is compared with was loaded: a clock "
                   "sample older than the head's stamp makes the 16-bit difference wrap to ~65535 units and a list retired an "
                   "instant ago is freed while snapshots still use it", site="%s@clock-after-head" % inst)
        # the retired node is linked to the head value the CAS expects, on every attempt
        if fn.name == "retire":
            for a in hops:
                if a.op != "cas":
                    continue
                exp = strip_cast(ig.rarg(a.node, 0))
                links = []
                for n in ig.ev_nodes(lambda n: n.id in live and n.ev["e"] == "asg" and n.ev.get("op") == "="):
                    lhs = strip_cast(n.ev.get("lhs"))
                    if isinstance(lhs, dict) and lhs.get("k") == "f" and lhs.get("n") == "next":
                        rhs = ig.resolve(n.ev["rhs"], n.frame)
                        if const_val(rhs) == "null" or L.deep_find(
                                ig, rhs, lambda d: isinstance(exp, dict) and d.get("k") == exp.get("k") and
                                d.get("id") == exp.get("id") and d.get("k") == "l", through_args=True) is not None:
                            links.append(n)
                ctx.ob("C04.R3h", inst, L.relinked_on_retry(ig, live, a.node, links), a.node.where,
                       "a retired table must be linked to the list head the CAS expects on every attempt (or to nothing when the "
                       "old list is being detached): a retry with a stale link drops retired tables (leak) or re-links freed ones",
                       site="%s@relink" % inst)

    # ------------------------------------------------------------- R4 constants
    exps = fb.find(pred=lambda f: RETIRE_REC.match(f.record or "") and f.name == "expire" and f.has_cfg())
    stamps = fb.find(pred=lambda f: RETIRE_REC.match(f.record or "") and f.name == "get_current_timestamp" and f.has_cfg())
    ctx.floor("C04.R4", min(len(exps), len(stamps)), 4, "expire / get_current_timestamp instances")
    units_s = {}
    for fn in stamps:
        unit = None
        clock = None
        for bid, ev in fn.all_events():
            if ev["e"] == "ret":
                v = strip_cast(ev.get("v"))
                if isinstance(v, dict) and v.get("k") == "b" and v.get("op") == ">>" and isinstance(const_val(v["r"]), int):
                    f_ = strip_cast(v["l"])
                    if isinstance(f_, dict) and f_.get("k") == "f" and f_.get("n") == "tv_sec":
                        unit = 1 << const_val(v["r"])
                if isinstance(v, dict) and v.get("k") == "b" and v.get("op") == "/" and isinstance(const_val(v["r"]), int):
                    f_ = strip_cast(v["l"])
                    if isinstance(f_, dict) and f_.get("k") == "f" and f_.get("n") == "tv_sec":
                        unit = const_val(v["r"])
            if ev["e"] == "call" and ev.get("name") == "clock_gettime":
                clock = const_val(ev["args"][0])
        units_s[fn.record] = (unit, clock)
        ctx.ob("C04.R4a", L.short(fn), clock in (1, 4, 7), fn.loc,
               "retire timestamps must come from a monotonic clock (CLOCK_MONOTONIC/_RAW/BOOTTIME), got clock id %s" % clock)
    for fn in exps:
        mind = None
        for bid, ev in fn.all_events():
            if ev["e"] == "ret":
                c = L.cmp_parts(ev.get("v"))
                if c and isinstance(const_val(c[2]), int):
                    op, l, r = c
                    k = const_val(r)
                    mind = {">": k + 1, ">=": k}.get(op)
                    # the difference must be taken modulo 2^16 (cast) of current - stamp
                    l0 = ev.get("v", {})
        unit, clock = units_s.get(fn.record, (None, None))
        ok = mind is not None and unit is not None and (mind - 1) * unit >= 64
        ctx.ob("C04.R4b", L.short(fn), ok, fn.loc,
               "cooling period too short: expiry needs timestamp difference >= %s with a unit of %s s, which guarantees only "
               "%s s (< 64 s) between retirement and reclamation" %
               (mind, unit, (mind - 1) * unit if mind is not None and unit is not None else "?"))

    # -------------------------------------------------- R5 construct before return
    cbs = fb.find(pred=lambda f: is_vec(f) and f.name == "create_block" and f.has_cfg())
    ctx.floor("C04.R5a", len(cbs), 4, "create_block instances")
    for fn in cbs:
        ig = IG(fn, inline=lambda fr, ev, callee: False, for_once=True)
        live = ig.live_nodes()
        inits = [n_ for n_ in ig.ev_nodes() if n_.id in live and n_.ev["e"] == "call" and
                 (n_.ev.get("callee") in ("__builtin_memset", "memset") or
                  (n_.ev.get("name") == "operator()" and strip_cast(n_.ev.get("this", {})).get("n") == "_constructor"))]
        rets = [n_ for n_ in ig.ev_nodes() if n_.id in live and n_.ev["e"] == "ret"]
        ok = bool(inits) and all(ig.dominated_by(r, inits) for r in rets)
        ctx.ob("C04.R5a", L.short(fn), ok, fn.loc, "a block can be returned before its elements are constructed/zeroed")

    # -------------------------------------------------- R6 destroyed exactly once when the vector dies
    def loops_of(fn):
        """[(start const, bound pstr)] of the counting loops of a function"""
        out = []
        ig_ = IG(fn, inline=lambda a, b, c: False)
        for b in fn.blocks.values():
            if b.get("term") in ("ForStmt", "WhileStmt") and "cond" in b:
                c = L.cmp_parts(b["cond"])
                if not c or c[0] != "<":
                    continue
                iv = strip_cast(c[1])
                start = None
                if isinstance(iv, dict) and iv.get("k") == "l":
                    for n_, rhs, how in ig_.local_defs(ig_.frames[0], iv["id"]):
                        if how == "decl":
                            start = const_val(rhs)
                bd = strip_cast(c[2])
                if isinstance(bd, dict) and bd.get("k") == "e":
                    ce = fn.events.get(bd["id"])
                    bd_s = "%s()" % (ce.get("name") if ce else "?")
                else:
                    bd_s = pstr(bd)
                out.append((start, bd_s))
        return out
    n6 = 0
    for fn in fb.find(pred=lambda f: is_vec(f) and f.kind == "dtor" and f.has_cfg()):
        n6 += 1
        ig = IG(fn, inline=lambda a, b, c: False)
        live = ig.live_nodes()
        dblk = list(L.call_nodes(ig, name="delete_block", live=live))
        dtab = list(L.call_nodes(ig, name="delete_block_table", live=live))
        lp = loops_of(fn)
        ok = len(dblk) == 1 and len(dtab) == 1 and (0, "block_table->size") in lp
        if ok:
            a0 = strip_cast(ig.rarg(dblk[0], 0))
            tab = strip_cast(ig.rarg(dtab[0], 0))
            from_cur = any(ig.ev_of(o) is not None and ig.ev_of(o).ev.get("name") == "load" and
                           L.deep_find(ig, ig.rthis(ig.ev_of(o)), L.field_pred(name="_block_table")) is not None
                           for o in ig.origins(tab))
            ok = isinstance(a0, dict) and a0.get("k") == "idx" and "blocks" in pstr(a0) and pstr(tab) in pstr(a0) and from_cur and \
                ig.path_exists(dblk[0], dtab[0]) and not ig.path_exists(dtab[0], dblk[0])
        ctx.ob("C04.R6a", L.short(fn), ok, fn.loc,
               "the destructor must free every block of the current table (indices 0 .. size) and then the table itself: a block "
               "that is skipped is never destroyed, a table freed first is read after free")
    creators = dict((f.record, f) for f in cbs)
    for fn in fb.find(pred=lambda f: is_vec(f) and f.name == "delete_block" and f.has_cfg()):
        cr = creators.get(fn.record)
        if cr is None:
            continue
        n6 += 1
        igd = IG(fn, inline=lambda a, b, c: False)
        igc = IG(cr, inline=lambda a, b, c: False)
        news = [n for n in igc.ev_nodes() if n.ev["e"] == "call" and n.ev.get("name") == "operator new"]
        dels = [n for n in igd.ev_nodes() if n.ev["e"] == "call" and n.ev.get("name") == "operator delete"]
        ok = len(news) == 1 and len(dels) == 1
        why = "expected one operator new / operator delete"
        if ok:
            def src(ig_, d):
                out = set()
                for o in ig_.origins(d):
                    n_ = ig_.ev_of(o)
                    out.add(n_.ev.get("name") if n_ is not None else str(const_val(o)))
                return out
            if src(igc, igc.rarg(news[0], 0)) != src(igd, igd.rarg(dels[0], 1)):
                ok, why = False, "the size passed to operator delete is not computed like the size passed to operator new"
            elif src(igc, igc.rarg(news[0], 1)) != src(igd, igd.rarg(dels[0], 2)):
                ok, why = False, "alignment passed to operator delete (%s) differs from the one passed to operator new (%s)" % (
                    sorted(src(igd, igd.rarg(dels[0], 2))), sorted(src(igc, igc.rarg(news[0], 1))))
            else:
                lc, ld = loops_of(cr), loops_of(fn)
                dt = [ev for _, ev in fn.all_events() if ev["e"] == "call" and (ev.get("name") or "").startswith("~")]
                if dt and set(ld) != set(lc):
                    ok, why = False, "elements are destroyed over %s but constructed over %s" % (ld, lc)
        ctx.ob("C04.R6b", L.short(fn), ok, fn.loc,
               "a block must be destroyed and freed the way it was allocated and constructed: %s" % why)
    ctx.floor("C04.R6", n6, 6, "destructor / delete_block instances")

    # -------------------------------------------------- R7 index -> (block, offset) mapping
    # one element per index: block_index(i) = i >> bits and block_offset(i) = i & mask with mask = 2^bits - 1 = block_size - 1,
    # and every user applies both mappings to the same index
    n7 = 0
    metas = {}
    for fn in fb.find(pred=lambda f: re.search(r"ConcurrentVector<.*>::(Dynamic|Static)Meta$", f.record or "") and f.has_cfg()):
        metas.setdefault(fn.record, {})[fn.name] = fn

    def ret_of(fn):
        for _, ev in fn.all_events():
            if ev["e"] == "ret" and "v" in ev:
                return strip_cast(ev["v"])
        return None
    for rec, fs in sorted(metas.items()):
        need = ("block_index", "block_offset", "block_mask", "block_mask_bits", "block_size")
        if not all(k in fs for k in need):
            continue
        n7 += 1
        bi, bo, bm, bb, bs = [ret_of(fs[k]) for k in need]
        ok = isinstance(bi, dict) and bi.get("op") == ">>" and isinstance(bo, dict) and bo.get("op") == "&"
        why = "block_index must be index >> bits and block_offset index & mask"
        if ok:
            shift, mask = strip_cast(bi.get("r")), strip_cast(bo.get("r"))
            if const_val(shift) is not None:
                # static: constants
                sz = const_val(bs)
                ok = const_val(bb) == const_val(shift) and const_val(mask) == const_val(bm) and isinstance(sz, int) and \
                    (1 << const_val(shift)) == sz and const_val(mask) == sz - 1
                why = "constants disagree: shift %s, bits %s, mask %s/%s, size %s" % (const_val(shift), const_val(bb), const_val(mask), const_val(bm), sz)
            else:
                ok = pstr(shift) == pstr(bb) and pstr(mask) == pstr(bm) and isinstance(bs, dict) and bs.get("op") == "+" and \
                    pstr(strip_cast(bs.get("l"))) == pstr(bm) and const_val(bs.get("r")) == 1
                why = "fields disagree: shift by %s vs bits %s, mask %s vs %s, size %s" % (pstr(shift), pstr(bb), pstr(mask), pstr(bm), pstr(bs))
                if ok and "set_block_size" in fs:
                    f2 = fs["set_block_size"]
                    ops = sorted((strip_cast(ev.get("lhs", {})).get("n"), ev.get("op")) for _, ev in f2.all_events()
                                 if ev["e"] == "asg" and strip_cast(ev.get("lhs", {})).get("k") == "f" and ev.get("op") in ("++", "<<=", "|="))
                    ok = ops == [("_block_mask", "<<="), ("_block_mask", "|="), ("_block_mask_bits", "++")]
                    why = "set_block_size must keep mask == 2^bits - 1 (per doubling: ++bits, mask <<= 1, mask |= 1); found %s" % ops
        ctx.ob("C04.R7a", rec.replace("babylon::", "")[:90], ok, fs["block_index"].loc,
               "the index mapping is not a bijection between indices and (block, offset) pairs: %s" % why)
    for fn in fb.find(pred=lambda f: is_vec(f) and f.has_cfg() and not f.lambda_):
        ig = IG(fn, inline=lambda a, b, c: False)
        live = ig.live_nodes()
        bis = [n for n in L.call_nodes(ig, name="block_index", live=live)]
        bos = [n for n in L.call_nodes(ig, name="block_offset", live=live)]
        if not bis or not bos:
            continue
        n7 += 1
        a_i = sorted(set(pstr(strip_cast(ig.rarg(n, 0))) for n in bis))
        a_o = sorted(set(pstr(strip_cast(ig.rarg(n, 0))) for n in bos))
        ctx.ob("C04.R7b", L.short(fn)[:100], a_i == a_o, fn.loc,
               "block and offset must be computed from the same index: block_index(%s) vs block_offset(%s)" % (a_i, a_o))
    ctx.floor("C04.R7", n7, 6, "meta records and index users")

    # -------------------------------------------------- R8 the range written by fill_n / copy_n is reserved first
    n8 = 0
    for fn in fb.find(pred=lambda f: is_vec(f) and f.has_cfg() and not f.lambda_ and f.name in ("fill_n", "copy_n")):
        ig = IG(fn, inline=lambda a, b, c: False)
        live = ig.live_nodes()
        res = [n for n in L.call_nodes(ig, name="reserved_snapshot", live=live)]
        ops = [n for n in ig.ev_nodes() if n.id in live and n.ev["e"] == "call" and n.ev.get("name") == fn.name and n.ev.get("cid") is not None and
               "Snapshot" in (n.ev.get("callee") or "")]
        if not res or not ops:
            continue
        n8 += 1
        op = ops[0]
        callee = fn.tu.fns.get(op.ev["cid"])
        names = [p_.get("name") for p_ in callee.params] if callee is not None else []
        ok = False
        why = "cannot identify the (offset, size) arguments of the snapshot operation"
        if "offset" in names and ("size" in names or "num" in names):
            off = L.linear(ig, op.ev["args"][names.index("offset")], op.frame)
            cnt = L.linear(ig, op.ev["args"][names.index("size") if "size" in names else names.index("num")], op.frame)
            need = L.lin_add(off, cnt)
            got = L.linear(ig, res[0].ev["args"][0], res[0].frame)
            ok = L.lin_eq(need, got) and ig.dominated_by(op, res)
            why = "reserved %s, written range ends at %s" % (got, need)
        ctx.ob("C04.R8", L.short(fn)[:100], ok, fn.loc,
               "the blocks of the whole range [offset, offset + size) must exist before the snapshot operation walks it: %s - the walk "
               "otherwise reads block pointers past the table and writes objects the vector never constructed" % why)
    ctx.floor("C04.R8", n8, 2, "fill_n / copy_n instances")

SWEEP = ["concurrent/test_vector.cpp",
         "concurrent/test_thread_local.cpp",
         "concurrent/test_object_pool.cpp"]


# name anchors (validated by tools/rename_sweep.py; a vanished name is exit 2, see core.check_anchor_names)
ANCHORS = {
    '_block_mask': ['^babylon::ConcurrentVector(<|$)'],
    '_block_mask_bits': ['^babylon::ConcurrentVector(<|$)'],
    '_block_table': ['^babylon::ConcurrentVector(<|$)'],
    '_constructor': ['^babylon::ConcurrentVector(<|$)'],
    'block_alignment': ['^babylon::ConcurrentVector(<|$)'],
    'calculate_block_allocation_size': ['^babylon::ConcurrentVector(<|$)'],
    'create_block': ['^babylon::ConcurrentVector(<|$)'],
    'delete_block': ['^babylon::ConcurrentVector(<|$)'],
    'delete_block_table': ['^babylon::ConcurrentVector(<|$)'],
    'expire': ['^babylon::internal::concurrent_vector::RetireList(<|$)'],
    'get_current_timestamp': ['^babylon::internal::concurrent_vector::RetireList(<|$)'],
    'get_qualified_block_table_slow': ['^babylon::ConcurrentVector(<|$)'],
    'retire': ['^babylon::internal::concurrent_vector::RetireList(<|$)'],
}
