"""C20 logging: pages returned, hand-off to the writer thread (DESIGN §4 C20)."""
import re

from bsa.core import driver, lib
from bsa.graph import IG
from bsa import atomics as A
from bsa import lib as L
from bsa.facts import pstr, strip_cast, const_val, walk

EXPLANATION = (
    "Structural clauses of C20: R1 the writer returns pages by collecting the base of every iovec it wrote into one "
    "vector that is handed whole (data(), size() of the same vector) to PageAllocator::deallocate, after which both the "
    "page vector and the iovec vector are cleared on every path; the chunk size bounds the collection loop, the writev "
    "call and the iterator advance alike; discard() does the same without writing; each page-table page is emitted "
    "once, with length 0, right after the data pages of that table and before moving to the next table; R2 the stream "
    "buffer stores every page it allocates into the current slot, links a fresh page table as head or as last->next - "
    "exactly one - and saves the data page that occupied the head slot into the table before overwriting it; R3 the "
    "writer thread's exit is reachable from a pop only through the write-out of what that pop collected (do-while), the "
    "stop marker has size 0 and is what the consumer tests, close() pushes it before joining and the destructor closes; "
    "R4 queue flags (the known mismatch of close()'s sleeping push is reported as NOTE O1, not as a violation). The "
    "inline/page-table boundary arithmetic, per-thread order in the file and partial writev are NOT decided.")

APP = "babylon::AsyncFileAppender"
BUF = "babylon::LogStreamBuffer"
ENTRY = "babylon::LogEntry"


DEPENDS = {
    "C01": "committed entries and free pages travel through ConcurrentBoundedQueue",
    "C02": "the writer thread sleeps in the queue's pop",
    "C17": "log pages come from and go back to a PageAllocator",
}

def units(tier):
    return [lib("logging/log_entry.cpp"), lib("logging/async_file_appender.cpp"), lib("logging/async_log_stream.cpp")]


def nin(a, b, c):
    return False


def vec_calls(ig, live, var_name, method):
    return [n for n in ig.ev_nodes() if n.id in live and n.ev["e"] == "call" and n.ev.get("name") == method and
            strip_cast(n.ev.get("this", {})).get("n") == var_name]


def run(ctx):
    fb = ctx.fb
    # ---------------------------------------------------------------- Q1 the queue this component re-sizes keeps tickets and rounds in step
    # (the appender's initialize() relies on ConcurrentBoundedQueue::reserve_and_clear; the clause is C01.R11, evaluated on the queue instantiation used here)
    import C01 as _C01
    _C01.geometry_rebase(ctx, "C20.Q1", fb)
    # ---------------------------------------------------------------- R1 page return
    n1 = 0
    for fn in fb.find(pred=lambda f: f.record == APP and f.has_cfg() and not f.lambda_):
        ig = IG(fn, inline=nin, for_once=False)
        live = ig.live_nodes()
        deal = list(L.call_nodes(ig, callee_re=r"^babylon::PageAllocator::deallocate$", live=live))
        if not deal:
            continue
        n1 += 1
        inst = L.short(fn)
        for d in deal:
            a0, a1 = ig.ev_of(strip_cast(ig.rarg(d, 0))), ig.ev_of(strip_cast(ig.rarg(d, 1)))
            ok = a0 is not None and a1 is not None and a0.ev.get("name") == "data" and a1.ev.get("name") == "size" and \
                pstr(ig.rthis(a0)) == pstr(ig.rthis(a1))
            vec = strip_cast(ig.rthis(a0)).get("n") if ok else None
            ctx.ob("C20.R1a", inst, ok and ig.postdominated_by(ig.entry, [d]), d.where,
                   "pages must be returned by one deallocate(v.data(), v.size()) of a single vector, on every path")
            if not ok:
                continue
            pushes = vec_calls(ig, live, vec, "push_back") + vec_calls(ig, live, vec, "emplace_back")
            good = bool(pushes)
            for p in pushes:
                a = strip_cast(ig.rarg(p, 0))
                good = good and isinstance(a, dict) and a.get("k") == "f" and a.get("n") == "iov_base" and ig.dominated_by(d, [p]) is not None
                good = good and not ig.path_exists(d, p)
            ctx.ob("C20.R1b", inst, good, fn.loc,
                   "every page pointer collected for return must be the iov_base of an iovec, collected before the return call")
            clears = {}
            for nm in (vec, "iov"):
                clears[nm] = vec_calls(ig, live, nm, "clear")
            ok2 = all(clears[k] and ig.postdominated_by(d, clears[k]) for k in clears)
            ctx.ob("C20.R1c", inst, ok2, fn.loc,
                   "after returning the pages both the page vector and the iovec vector must be cleared on every path "
                   "(otherwise the next batch writes the same entries again and returns the same pages twice)")
        # chunk agreement (writer only)
        wv = list(L.call_nodes(ig, name="writev", live=live))
        if wv:
            sz = strip_cast(ig.rarg(wv[0], 2))
            ok = isinstance(sz, dict) and sz.get("k") == "l"
            bound = False
            adv = False
            if ok:
                for bid, b in fn.blocks.items():
                    if b.get("term") == "ForStmt" and "cond" in b:
                        c = L.cmp_parts(b["cond"])
                        if c and c[0] == "<" and strip_cast(c[2]).get("k") == "l" and strip_cast(c[2]).get("id") == sz["id"]:
                            bound = True
                for n in ig.ev_nodes(lambda n: n.id in live and n.ev["e"] == "call" and n.ev.get("name") == "operator+="):
                    if strip_cast(ig.rarg(n, 0)).get("id") == sz["id"]:
                        adv = True
            base = strip_cast(ig.rarg(wv[0], 1))
            ctx.ob("C20.R1d", inst, ok and bound and adv, wv[0].where,
                   "the chunk size must bound the page-collection loop, be the count given to writev and advance the iterator")

    ctx.floor("C20.R1", n1, 2, "functions returning pages (writer and discard)")
    for fn in fb.find(pred=lambda f: f.record == ENTRY and f.name == "page_table_append_to_iovec" and f.has_cfg()):
        inst = L.short(fn)
        ig = IG(fn, inline=nin)
        live = ig.live_nodes()
        data = list(L.call_nodes(ig, name="pages_append_to_iovec", live=live))
        marks = []
        for n in ig.ev_nodes(lambda n: n.id in live and n.ev["e"] == "call" and n.ev.get("name") == "emplace_back"):
            a = strip_cast(ig.rarg(n, 0))
            if isinstance(a, dict) and a.get("k") == "init" and len(a.get("xs", [])) == 2 and const_val(a["xs"][1]) == 0 and \
                    strip_cast(a["xs"][0]).get("k") == "l":
                marks.append(n)
        moves = [n for n in ig.ev_nodes() if n.id in live and n.ev["e"] == "asg" and strip_cast(n.ev.get("lhs", {})).get("k") == "l" and
                 any(strip_cast(ig.rarg(m, 0))["xs"][0] and strip_cast(strip_cast(ig.rarg(m, 0))["xs"][0]).get("id") == strip_cast(n.ev["lhs"]).get("id") for m in marks)]
        ok = bool(data) and bool(marks)
        for d in data:
            r = ig.reach([m for m, _ in d.succ], removed=marks)
            if ig.exit.id in r or any(mv.id in r for mv in moves) or any(x.id in r for x in data):
                ok = False
            th = strip_cast(ig.rarg(d, 0))
            ok = ok and isinstance(th, dict) and th.get("n") == "pages" and any(
                pstr(strip_cast(ig.rarg(m, 0))["xs"][0]) == pstr(th.get("b")) for m in marks)
        st = ig.count_on_paths(ig.entry, disp_nodes=marks, stops=moves)
        ctx.ob("C20.R1e", inst, ok, fn.loc,
               "each page-table page must be emitted (length 0) exactly once, right after that table's data pages and "
               "before moving on to the next table: otherwise the table page is never returned (or returned twice)")

    # ---------------------------------------------------------------- R1f discard() shares no mutable state with the writer
    # discard() is public and runs on arbitrary logging threads concurrently with the writer thread: apart from handing pages to the
    # page allocator it may only use locals and thread-locals, never a data member of the appender
    for fn in fb.find(pred=lambda f: f.record == APP and f.name == "discard" and f.has_cfg()):
        touched = set()
        for _, ev in fn.all_events():
            for key in ("this", "lhs"):
                d = strip_cast(ev.get(key)) if ev.get(key) is not None else None
                if ev["e"] == "asg" and key == "this":
                    continue
                if isinstance(d, dict) and d.get("k") == "f" and isinstance(strip_cast(d.get("b")), dict) and strip_cast(d["b"]).get("k") == "this" \
                        and not d.get("arrow_call"):
                    # calls *through* a pointer member (page allocator) do not touch the appender itself
                    if ev["e"] == "call" and (d.get("t") or "").rstrip().endswith("*"):
                        continue
                    touched.add(d.get("n"))
            for a_ in ev.get("args", []) or []:
                for sd in walk(a_):
                    if sd.get("k") == "u" and sd.get("op") == "&" and isinstance(strip_cast(sd.get("x")), dict) and \
                            strip_cast(sd["x"]).get("k") == "f" and strip_cast(strip_cast(sd["x"]).get("b", {})).get("k") == "this":
                        touched.add(strip_cast(sd["x"]).get("n"))
        ctx.ob("C20.R1f", L.short(fn), not touched, fn.loc,
               "discard() uses data member(s) %s of the appender: it runs on any logging thread while the writer thread works with the "
               "same object, so a scratch list kept in a member is filled by both and its pages are returned twice" % sorted(touched))

    # ---------------------------------------------------------------- R2g/h the byte count has one writer
    # the entry's size is what lays the pages out again in append_to_iovec: it is advanced in one place (sync, relative to the
    # sync point) and nowhere else, and overflow() brings it up to date before it switches pages
    def is_log_size(d):
        d = strip_cast(d)
        return isinstance(d, dict) and d.get("k") == "f" and d.get("n") == "size" and \
            isinstance(strip_cast(d.get("b")), dict) and strip_cast(d.get("b")).get("n") == "_log"
    writers = {}
    for fn in fb.find(pred=lambda f: f.record == BUF and f.has_cfg()):
        for _, ev in fn.all_events():
            if ev["e"] == "asg" and is_log_size(ev.get("lhs")):
                writers.setdefault(fn.name, []).append(ev)
    adders = sorted(n for n, evs in writers.items() if any(e.get("op") != "=" or const_val(e.get("rhs")) != 0 for e in evs))
    ctx.ob("C20.R2g", "LogStreamBuffer: writers of the entry size", adders == ["sync"], "",
           "the number of bytes of an entry must be accumulated in exactly one function (sync, which advances it relative to the "
           "sync point); found accumulating writers %s - a second place that adds to it counts bytes twice after a mid-entry flush, "
           "and the scatter list then describes pages that were never filled" % adders, site="LogStreamBuffer@size-writers")
    for fn in fb.find(pred=lambda f: f.record == BUF and f.name == "overflow" and f.has_cfg()):
        ig = IG(fn, inline=nin)
        live = ig.live_nodes()
        syncs = list(L.call_nodes(ig, name="sync", live=live))
        if ctx.named("C20.R2h", syncs, "sync", r"LogStreamBuffer") is None:
            continue
        moves = [n for n in ig.ev_nodes() if n.id in live and ((n.ev["e"] == "call" and n.ev.get("name") == "setp") or
                 (n.ev["e"] == "asg" and strip_cast(n.ev.get("lhs", {})).get("n") == "_sync_point"))]
        ctx.ob("C20.R2h", L.short(fn), bool(syncs) and bool(moves) and all(ig.dominated_by(m, syncs) for m in moves), fn.loc,
               "overflow() must bring the byte count up to date (sync) before it moves the put area and the sync point to the new page")

    # ---------------------------------------------------------------- R2i begin() resets what a run writes; end() syncs
    def this_fields_written(fn):
        out = set()
        for _, ev in fn.all_events():
            if ev["e"] == "asg":
                lhs = strip_cast(ev.get("lhs"))
                # *_pages++ = page writes through _pages and advances it
                for sd in walk(lhs):
                    if sd.get("k") == "f" and isinstance(strip_cast(sd.get("b")), dict) and strip_cast(sd["b"]).get("k") == "this":
                        out.add(sd.get("n"))
                if is_log_size(lhs):
                    out.add("_log.size")
                if isinstance(lhs, dict) and lhs.get("k") == "f" and strip_cast(lhs.get("b", {})).get("n") == "_log":
                    out.add("_log." + lhs.get("n"))
            if ev["e"] == "call" and ev.get("name") == "setp":
                out.add("<put area>")
        return out
    bufs = dict((f.name, f) for f in fb.find(pred=lambda f: f.record == BUF and f.has_cfg()))
    if "begin" in bufs:
        run_w = set()
        for nm in ("overflow", "sync", "overflow_page_table"):
            if nm in bufs:
                run_w |= this_fields_written(bufs[nm])
        beg_w = this_fields_written(bufs["begin"])
        # the head pointer of the page-table chain lives in the entry and is overwritten before it is read (R2b): not state of the buffer
        missing = sorted(x for x in run_w - beg_w if x not in ("_log", "_log.head"))
        ctx.ob("C20.R2i", "LogStreamBuffer::begin", not missing, bufs["begin"].loc,
               "begin() does not reset %s, which overflow()/sync() modify while an entry is streamed: the next entry starts with the "
               "previous entry's cursor / byte count" % missing)
    if "end" in bufs:
        ig = IG(bufs["end"], inline=nin)
        syncs = list(L.call_nodes(ig, name="sync"))
        rets = [n for n in ig.ev_nodes() if n.ev["e"] == "ret"]
        ctx.ob("C20.R2j", "LogStreamBuffer::end", bool(syncs) and all(ig.dominated_by(r_, syncs) for r_ in rets), bufs["end"].loc,
               "end() must bring the byte count up to date before it hands the entry out")
    # ---------------------------------------------------------------- R2k an entry's pages come from the allocator its appender frees them to (after seed C20-6)
    # a LogEntry records only its size: writer and discard() rebuild the page list with the appender's *current* allocator
    # and page size, and set_page_allocator() may replace it between two entries. Every begin() of the buffer in the
    # asynchronous stream is therefore preceded, in the same per-entry step, by binding the buffer to what the appender
    # hands out now.
    n2k = 0
    for fn in fb.find(pred=lambda f: f.record == "babylon::AsyncLogStream" and f.has_cfg() and not f.lambda_ and f.kind not in ("ctor", "dtor")):
        ig = IG(fn, inline=lambda fr, ev, callee: callee.record == "babylon::AsyncLogStream" and not callee.lambda_)
        live = ig.live_nodes()
        begins = [n for n in ig.ev_nodes() if n.id in live and n.ev["e"] == "call" and n.ev.get("name") == "begin" and
                  (ig.tu.fns.get(n.ev.get("cid")) is not None and ig.tu.fns.get(n.ev.get("cid")).record == BUF)]
        if not begins:
            continue
        binds = []
        for n in ig.ev_nodes():
            if n.id in live and n.ev["e"] == "call" and n.ev.get("name") == "set_page_allocator" and n.ev.get("args"):
                srcs = [ig.ev_of(o) for o in ig.origins(ig.rarg(n, 0))]
                if srcs and all(sn is not None and sn.ev.get("name") == "page_allocator" and
                                re.search(r"AsyncFileAppender::page_allocator$", sn.ev.get("callee", "") or "") for sn in srcs):
                    binds.append(n)
        for b in begins:
            n2k += 1
            ctx.ob("C20.R2k", "%s@%s" % (L.short(fn), b.line), bool(binds) and ig.dominated_by(b, binds), b.where,
                   "the stream starts an entry without binding its buffer to the appender's current page allocator first: after "
                   "AsyncFileAppender::set_page_allocator() an existing stream keeps allocating from the old allocator while the writer "
                   "rebuilds the page list with the new one's page size and frees the pages into it",
                   site="AsyncLogStream::%s@allocator-bound-per-entry" % fn.name)
    ctx.floor("C20.R2k", n2k, 1, "entry starts of the asynchronous stream")
    # ---------------------------------------------------------------- R4d a destination's index is its position
    for fn in fb.find(pred=lambda f: f.record == APP and f.name == "destination" and f.has_cfg()):
        ig = IG(fn, inline=nin)
        live = ig.live_nodes()
        sets = list(L.call_nodes(ig, name="set_index", live=live))
        adds = [n for n in ig.ev_nodes() if n.id in live and n.ev["e"] == "call" and n.ev.get("name") in ("emplace_back", "push_back")]
        ok = len(sets) == 1 and len(adds) == 1
        if ok:
            org = [o for o in ig.origins_at(strip_cast(ig.rarg(sets[0], 0)), sets[0])]
            a0 = ig.ev_of(strip_cast(org[0])) if len(org) == 1 else None
            ok = a0 is not None and a0.ev.get("name") == "size" and pstr(strip_cast(ig.rthis(a0))) == pstr(strip_cast(ig.rthis(adds[0]))) and \
                ig.path_exists(a0, adds[0]) and not ig.path_exists(adds[0], a0)
        ctx.ob("C20.R4d", L.short(fn), ok, fn.loc,
               "a file's destination index must be the position its destination is appended at (size() read before the append): with "
               "any other value two files share one scatter list and entries are written to the wrong file")

    # ---------------------------------------------------------------- R2 stream buffer
    for fn in fb.find(pred=lambda f: f.record == BUF and f.name == "overflow" and f.has_cfg()):
        inst = L.short(fn)
        ig = IG(fn, inline=nin)
        live = ig.live_nodes()
        al = list(L.call_nodes(ig, callee_re=r"^babylon::PageAllocator::allocate$", live=live))
        regs = []
        for n in ig.ev_nodes(lambda n: n.id in live and n.ev["e"] == "asg" and n.ev.get("op") == "="):
            if L.deep_find(ig, ig.resolve(n.ev["lhs"], n.frame), lambda d: d.get("k") == "f" and d.get("n") == "_pages") is not None and \
                    strip_cast(n.ev["lhs"]).get("k") == "u" and any(ig.ev_of(o) in al for o in ig.origins_at(n.ev["rhs"], n)):
                regs.append(n)
        grow = list(L.call_nodes(ig, name="overflow_page_table", live=live))

        def full(atom, pol, lab):
            c = L.effective_cmp(atom, pol)
            return c is not None and c[0] == "==" and sorted([pstr(c[1]).split("->")[-1], pstr(c[2]).split("->")[-1]]) == ["_pages", "_pages_end"]
        fe = L.cond_edges(ig, full, live)
        ok = len(al) == 1 and bool(regs) and ig.postdominated_by(al[0], regs)
        ctx.ob("C20.R2a", inst, ok, fn.loc, "a page allocated by the stream buffer must be stored into the current page slot on every path")
        ok = bool(fe) and bool(grow) and all(ig.dominated_by(r_, al) for r_ in regs)
        for (s, d) in fe:
            if any(r_.id in ig.reach([ig.nodes[d]], removed=grow) for r_ in regs):
                ok = False
        ctx.ob("C20.R2b", inst, ok, fn.loc, "when the current slot array is exhausted a new page table must be linked before the page is stored")
    for fn in fb.find(pred=lambda f: f.record == BUF and f.name == "overflow_page_table" and f.has_cfg()):
        inst = L.short(fn)
        ig = IG(fn, inline=nin)
        live = ig.live_nodes()
        al = list(L.call_nodes(ig, callee_re=r"^babylon::PageAllocator::allocate$", live=live))

        def from_alloc(n):
            return any(ig.ev_of(o) in al for o in ig.origins_at(n.ev["rhs"], n))
        links = [n for n in ig.ev_nodes() if n.id in live and n.ev["e"] == "asg" and n.ev.get("op") == "=" and
                 strip_cast(n.ev["lhs"]).get("n") in ("head", "next") and from_alloc(n)]
        st = ig.count_on_paths(ig.entry, disp_nodes=links)
        ctx.ob("C20.R2c", inst, len(al) == 1 and st.get(ig.exit.id, frozenset()) == frozenset([1]), fn.loc,
               "a fresh page table must be linked exactly once (as the head or as last->next) on every path")
        heads = [n for n in links if strip_cast(n.ev["lhs"]).get("n") == "head"]
        saves = [n for n in ig.ev_nodes() if n.id in live and n.ev["e"] == "asg" and n.ev.get("op") == "=" and
                 strip_cast(n.ev["lhs"]).get("k") == "u" and
                 L.deep_find(ig, ig.resolve(n.ev["rhs"], n.frame), lambda d: d.get("k") == "f" and d.get("n") == "head") is not None]
        ctx.ob("C20.R2d", inst, bool(heads) and bool(saves) and all(ig.dominated_by(h, saves) for h in heads), fn.loc,
               "the data page that occupies the head slot must be saved into the new table before the head is overwritten")
        nulls = [n for n in ig.ev_nodes() if n.id in live and n.ev["e"] == "asg" and strip_cast(n.ev["lhs"]).get("n") == "next" and
                 const_val(n.ev.get("rhs")) == "null"]
        ctx.ob("C20.R2e", inst, bool(nulls) and ig.postdominated_by(al[0], nulls) if al else False, fn.loc, "a fresh page table must end the chain (next = nullptr)")
        cur = [n for n in ig.ev_nodes() if n.id in live and n.ev["e"] == "asg" and strip_cast(n.ev["lhs"]).get("n") in ("_pages", "_pages_end")]
        ctx.ob("C20.R2f", inst, len(set(strip_cast(n.ev["lhs"]).get("n") for n in cur)) == 2 and
               all(ig.postdominated_by(ig.entry, [n]) for n in cur), fn.loc, "the slot cursor and its end must both move into the new table")

    # ---------------------------------------------------------------- R3 writer thread / close
    for fn in fb.find(pred=lambda f: f.record == APP and f.name == "keep_writing" and f.has_cfg()):
        inst = L.short(fn)
        # private helpers of the appender that do not themselves reach ::writev are part of the loop body (so that extracting
        # the destination sweep into a member keeps the verdict); the write-out step stays a call
        wr_ids = set(f.id for f in fn.tu.fns.values() if f.record == APP and any(True for _ in L.fn_calls(f, name="writev")))
        ig = IG(fn, inline=lambda fr, ev, callee: callee.record == APP and not callee.lambda_ and callee.id not in wr_ids)
        live = ig.live_nodes()
        pops = [n for n in ig.ev_nodes() if n.id in live and n.ev["e"] == "call" and
                re.match(r"^babylon::ConcurrentBoundedQueue<.*>::(try_)?pop(_n)?$", n.ev.get("callee", "") or "")]
        sweep = [n for n in ig.ev_nodes() if n.id in live and n.ev["e"] == "decl" and n.ev.get("name", "").startswith("__range") and
                 strip_cast(n.ev.get("init", {})).get("n") == "_destinations"]
        # the write-out step, found by role: a call to a member of the appender that reaches ::writev (or writev itself)
        writer_ids = set(f.id for f in fn.tu.fns.values() if f.record == APP and any(True for _ in L.fn_calls(f, name="writev")))
        writes = [n for n in ig.ev_nodes() if n.id in live and n.ev["e"] == "call" and
                  (n.ev.get("cid") in writer_ids or n.ev.get("name") == "writev")]
        ok = bool(pops) and bool(sweep) and bool(writes)
        for p in pops:
            if ig.exit.id in ig.reach([p], removed=sweep):
                ok = False
        ctx.ob("C20.R3a", inst, ok, fn.loc,
               "the writer thread can exit after a pop without writing out what that pop collected (entries that share "
               "a batch with the stop marker would be lost)")

        def nonempty(atom, pol, lab):
            n = ig.ev_of(atom) if isinstance(atom, dict) and atom.get("k") == "e" else None
            return n is not None and n.ev.get("name") == "empty" and not pol
        ne = L.cond_edges(ig, nonempty, live)
        ok = bool(ne)
        for (s, d) in ne:
            nxt = [n for n in ig.ev_nodes() if n.id in live and n.ev["e"] == "call" and n.ev.get("name") == "operator++"]
            if any(x.id in ig.reach([ig.nodes[d]], removed=writes) for x in nxt):
                ok = False
        ctx.ob("C20.R3b", inst, ok, fn.loc, "a destination with pending iovecs must be written before the sweep moves on")
        lam = L.lambda_of(ig, ig.rarg(pops[0], 0)) if pops else None
        marker = False
        if lam is not None:
            from bsa.graph import cond_atoms
            for b in lam.blocks.values():
                if "cond" in b:
                    c = L.cmp_parts(cond_atoms(b["cond"], True)[0])
                    if c and c[0] == "==" and const_val(c[2]) == 0 and pstr(c[1]).endswith("entry.size"):
                        marker = True
        ctx.ob("C20.R3c", inst, marker, fn.loc, "the consumer must recognise the stop marker (entry.size == 0)")
    for fn in fb.find(pred=lambda f: f.record == APP and f.name == "close" and f.has_cfg()):
        ig = IG(fn, inline=nin)
        live = ig.live_nodes()
        pushes = [n for n in ig.ev_nodes() if n.id in live and n.ev["e"] == "call" and
                  re.match(r"^babylon::ConcurrentBoundedQueue<.*>::push$", n.ev.get("callee", "") or "")]
        joins = list(L.call_nodes(ig, callee_re=r"^std::thread::join$", live=live))
        ok = bool(pushes) and bool(joins) and all(ig.dominated_by(j, pushes) for j in joins)
        lam = L.lambda_of(ig, ig.rarg(pushes[0], 0)) if pushes else None
        zero = lam is not None and any(ev["e"] == "asg" and pstr(ev["lhs"]).endswith("entry.size") and const_val(ev.get("rhs")) == 0
                                       for _, ev in lam.all_events())
        ctx.ob("C20.R3d", L.short(fn), ok and zero, fn.loc, "close() must push the size-0 stop marker before joining the writer thread")
    for fn in fb.find(pred=lambda f: f.record == APP and f.kind == "dtor" and f.has_cfg()):
        ctx.ob("C20.R3e", L.short(fn), any(True for _ in L.fn_calls(fn, name="close")), fn.loc, "the destructor must close the appender")

    # ---------------------------------------------------------------- R4 pairing (O1 as note)
    sites = L.queue_sites(fb, r"^babylon::AsyncFileAppender$")
    ctx.floor("C20.R4", len(sites), 3, "appender queue call sites")
    o1 = [s for s in sites if s["fn"].name == "close" and s["side"] == "push" and s["wait"]]
    for s in o1:
        ctx.note("O1 (not a violation of C20): AsyncFileAppender::close pushes its stop marker with USE_FUTEX_WAIT=true "
                 "(%s:%s) while the only consumer pops with USE_FUTEX_WAKE=false; with a full queue at close() the push can "
                 "sleep for ever. Entries written before close() are unaffected." % (s["fn"].file, s["line"]))
    L.check_queue_pairing(ctx, "C20.R4", [s for s in sites if s not in o1])


SWEEP = ["logging/test_async_file_appender.cpp",
         "logging/test_log_entry.cpp",
         "logging/test_log_stream.cpp",
         "logging/test_async_log_stream.cpp"]


# name anchors (validated by tools/rename_sweep.py; a vanished name is exit 2, see core.check_anchor_names)
ANCHORS = {
    'set_page_allocator': ['^babylon::LogStreamBuffer(<|$)'],
    'page_allocator': ['^babylon::AsyncFileAppender(<|$)'],
    'begin': ['^babylon::LogStreamBuffer(<|$)'],
    '_destinations': ['^babylon::AsyncFileAppender(<|$)'],
    '_pages': ['^babylon::LogStreamBuffer(<|$)'],
    '_pages_end': ['^babylon::LogStreamBuffer(<|$)'],
    'entry': ['^babylon::AsyncFileAppender::Item(<|$)'],
    'overflow_page_table': ['^babylon::LogStreamBuffer(<|$)'],
    'pages': ['^babylon::LogEntry(<|$)', '^babylon::LogEntry::PageTable(<|$)'],
    'pages_append_to_iovec': ['^babylon::LogEntry(<|$)'],
    'write_use_plain_writev': ['^babylon::AsyncFileAppender(<|$)'],
}
