"""C08 Future / Promise / CountDownLatch (DESIGN §4 C08)."""
import re

from bsa.core import driver
from bsa.graph import IG
from bsa import atomics as A
from bsa import lib as L
from bsa.facts import pstr, strip_cast, const_val, walk

EXPLANATION = (
    "Structural clauses of C08 on every FutureContext<T,M> instantiation (int, string, void, T&, heap futex word): "
    "R1 set_value constructs the value before sealing the callback list (acq_rel exchange) and before the READY "
    "exchange on the futex word (release), wakes exactly when the old word shows waiters, runs detached callbacks "
    "only after the seal and never touches a node after deleting it; R2 on_finish disposes of a callback exactly once "
    "on every path (inline run under an acquire-observed SEALED head | push by winning CAS | run+delete after losing "
    "to the seal), with acquire load, release-publishing CAS and acquire failure order; R3 waiters acquire on the "
    "futex word, register before waiting, wait on the observed word, and report ready only under the READY bit; "
    "R4 the latch fires on equality of the fetch_sub result with zero; R5 copy/move of the shared state is deleted "
    "(compile-time witness). Timing of wait_for is NOT decided.")

CTX_REC = re.compile(r"^babylon::FutureContext<.*>$")
HEAD = L.field_pred(name="_head", rec_re=r"^babylon::FutureContext<.*>$")
FUTEX = L.field_pred(rec_re=r"^babylon::FutureContext<.*>$", type_re=r"^babylon::Futex<")
READY = 0x80000000
SEALED = 0xFFFFFFFFFFFFFFFF
WAIT_RE = r"^babylon::Futex<.*>::wait$"
WAKE_RE = r"^babylon::Futex<.*>::wake_all$"


def units(tier):
    return [driver("future.cc")]


def is_ctx(fn):
    return bool(CTX_REC.match(fn.record or ""))


def ops_on(ig, live, field):
    return [a for a in A.atomic_ops(ig, live) if a.op != "fence" and L.deep_find(ig, a.obj, field) is not None]


def noinline_lambda(fr, ev, callee):
    return not callee.lambda_


def sealed_edges(ig, live):
    """edges on which `head == SEALED` is known"""
    def pred(atom, pol, lab):
        c = L.effective_cmp(atom, pol)
        if c is None:
            return False
        op, l, r = c
        vals = [const_val(l), const_val(r)]
        return op == "==" and (SEALED in vals or -1 in vals)
    return L.cond_edges(ig, pred, live)


def ready_edges(ig, live):
    """edges on which `word & READY_MASK` is non-zero"""
    def pred(atom, pol, lab):
        a = strip_cast(atom)
        if isinstance(a, dict) and a.get("k") == "b" and a.get("op") == "&" and \
                (const_val(a["r"]) == READY or const_val(a["l"]) == READY):
            return pol
        c = L.effective_cmp(atom, pol)
        if c is not None:
            op, l, r = c
            l = strip_cast(l)
            if isinstance(l, dict) and l.get("k") == "b" and l.get("op") == "&" and \
                    (const_val(l["r"]) == READY or const_val(l["l"]) == READY) and const_val(r) == 0:
                return op == "!="
        return False
    return L.cond_edges(ig, pred, live)


def run(ctx):
    fb = ctx.fb

    # ---------------------------------------------------------------- R1 set_value
    setters = fb.find(pred=lambda f: is_ctx(f) and f.name == "set_value" and f.has_cfg())
    ctx.floor("C08.R1", len(setters), 5, "FutureContext::set_value instances")
    for fn in setters:
        inst = L.short(fn)
        ig = IG(fn, inline=noinline_lambda)
        live = ig.live_nodes()
        news = [n for n in ig.ev_nodes() if n.id in live and n.ev["e"] == "new" and n.ev.get("placement")]
        seals = [a for a in ops_on(ig, live, HEAD) if a.writes]
        fut = [a for a in ops_on(ig, live, FUTEX) if a.writes]
        if not news or not seals or not fut:
            ctx.ob("C08.R1a", inst, False, fn.loc, "set_value lacks the construct / seal / READY-publish triple "
                   "(placement-new=%d, head writes=%d, futex writes=%d)" % (len(news), len(seals), len(fut)))
            continue
        for a in seals + fut:
            ctx.ob("C08.R1a", "%s@%s" % (inst, a.node.line), ig.dominated_by(a.node, news), a.node.where,
                   "the value can be published (%s) before it is constructed" % a.describe())
        for a in seals:
            ctx.ob("C08.R1b", inst, a.op == "rmw" and a.order in (A.ACQ_REL, A.SEQ_CST), a.node.where,
                   "sealing the callback list must be one acq_rel exchange (release: publishes the value to on_finish/"
                   "ready(); acquire: sees the nodes pushed by registrants); got %s %s" %
                   (a.op, A.ORDER_NAME.get(a.order)))
        for a in fut:
            ctx.ob("C08.R1c", inst, a.op == "rmw" and A.releases(a.order), a.node.where,
                   "READY must be installed by a releasing exchange whose old value tells whether sleepers exist; got %s %s"
                   % (a.op, A.ORDER_NAME.get(a.order)))
            ctx.ob("C08.R1c2", inst, const_val(ig.rarg(a.node, 0)) == READY, a.node.where,
                   "the word installed must be READY_MASK (bit 31)")
        wakes = list(L.call_nodes(ig, callee_re=WAKE_RE, live=live))
        fut_ids = set(a.node.id for a in fut)

        def has_waiters(atom, pol, lab):
            c = L.effective_cmp(atom, pol)
            if c is None:
                return False
            op, l, r = c
            if not ((op == ">" and const_val(r) == 0) or (op == "!=" and const_val(r) == 0) or
                    (op == ">=" and const_val(r) == 1)):
                return False
            return any(ig.ev_of(o) is not None and ig.ev_of(o).id in fut_ids for o in ig.leaves(l))
        we = L.cond_edges(ig, has_waiters, live)
        ok = bool(we) and bool(wakes)
        for (s, d) in we:
            if ig.exit.id in ig.reach([ig.nodes[d]], removed=wakes):
                ok = False
        ctx.ob("C08.R1d", inst, ok, fn.loc,
               "when the old futex word shows registered waiters, wake_all must be unavoidable (test on the exchange result)")
        # callbacks after the seal; no use after delete
        seal_nodes = [a.node for a in seals]
        invokes = [n for n in ig.ev_nodes() if n.id in live and n.frame.owner_id == 0 and n.ev["e"] == "call"
                   and n.ev.get("name") == "operator()" and strip_cast(n.ev.get("this", {})).get("n") == "function"]
        ctx.ob("C08.R1e", inst, bool(invokes) and all(ig.dominated_by(i, seal_nodes) for i in invokes), fn.loc,
               "registered callbacks can run before the list is sealed")
        for d in [n for n in ig.ev_nodes() if n.id in live and n.frame.owner_id == 0 and n.ev["e"] == "delete"]:
            x = strip_cast(ig.resolve(d.ev["x"], d.frame))
            if isinstance(x, dict) and x.get("k") == "l":
                bad = L.use_after_release(ig, d, x)
                ctx.ob("C08.R1f", inst, bad is None, (bad.where if bad else d.where),
                       "callback node is dereferenced after it was deleted", site="%s@delete" % inst)

    # ---------------------------------------------------------------- R2 on_finish
    regs = fb.find(pred=lambda f: is_ctx(f) and f.name == "on_finish" and f.has_cfg())
    ctx.floor("C08.R2", len(regs), 15, "FutureContext::on_finish instances")
    for fn in regs:
        inst = L.short(fn)
        ig = IG(fn, inline=lambda fr, ev, callee: not callee.lambda_ and callee.name not in ("run_callback",))
        live = ig.live_nodes()
        hops = ops_on(ig, live, HEAD)
        cas = [a for a in hops if a.op == "cas"]
        cas_ids = set(a.node.id for a in cas)
        succ = L.result_edges(ig, cas_ids, True, live)
        fail = L.result_edges(ig, cas_ids, False, live)
        inline_runs = [n for n in L.call_nodes(ig, name="run_callback", live=live) if n.frame.owner_id == 0]
        node_runs = [n for n in ig.ev_nodes() if n.id in live and n.frame.owner_id == 0 and n.ev["e"] == "call"
                     and n.ev.get("name") == "operator()" and strip_cast(n.ev.get("this", {})).get("n") == "function"]
        st = ig.count_on_paths(ig.entry, disp_nodes=inline_runs + node_runs, disp_edges=succ)
        at_exit = st.get(ig.exit.id, frozenset())
        ctx.ob("C08.R2a", inst, at_exit == frozenset([1]) and bool(succ), fn.loc,
               "a callback must be run inline, pushed by the winning CAS, or run after losing to the seal - exactly one "
               "of these on every path; counts at exit %s" % sorted(at_exit))
        se = sealed_edges(ig, live)
        r = ig.reach([ig.entry], removed_edges=se)
        for n in inline_runs + node_runs:
            ctx.ob("C08.R2b", "%s@%s" % (inst, n.line), bool(se) and n.id not in r, n.where,
                   "callback can run without the list head having been observed SEALED (value not yet published)")
        for a in hops:
            if a.op == "load":
                ctx.ob("C08.R2c", "%s@%s" % (inst, a.node.line), A.acquires(a.order), a.node.where,
                       "list head loaded with %s: observing SEALED must acquire the value" % A.ORDER_NAME.get(a.order))
            if a.op == "cas":
                ctx.ob("C08.R2c", "%s@%s" % (inst, a.node.line), A.releases(a.order) and A.acquires(a.fail_order),
                       a.node.where, "registration CAS must release the node on success and acquire on failure "
                       "(it may observe SEALED): %s/%s" % (A.ORDER_NAME.get(a.order), A.ORDER_NAME.get(a.fail_order)))
        dels = [n for n in ig.ev_nodes() if n.id in live and n.frame.owner_id == 0 and n.ev["e"] == "delete"]
        rs = ig.reach([ig.entry], removed_edges=fail)
        for d in dels:
            ctx.ob("C08.R2d", inst, d.id not in rs and ig.dominated_by(d, node_runs), d.where,
                   "the callback node is deleted although it may have been pushed (or before it ran)")
        # pushed node links to the observed head
        for a in cas:
            exp = ig.rarg(a.node, 0)
            links = []
            for n in ig.ev_nodes(lambda n: n.id in live and n.ev["e"] == "asg" and n.frame.owner_id == 0):
                lhs = strip_cast(n.ev.get("lhs"))
                if isinstance(lhs, dict) and lhs.get("k") == "f" and lhs.get("n") == "next":
                    if pstr(ig.resolve(n.ev["rhs"], n.frame)) == pstr(exp):
                        links.append(n)
            ctx.ob("C08.R2e", inst, L.relinked_on_retry(ig, live, a.node, links), a.node.where,
                   "the pushed node's next must be the head value the CAS expects on *every* attempt: a failed CAS refreshes the "
                   "expected head, and a retry with the old link drops every callback registered in between (their futures never "
                   "become ready)")

    # ---------------------------------------------------------------- R3 waiters
    waiters = fb.find(pred=lambda f: is_ctx(f) and f.has_cfg() and f.name in ("get", "wait_for"))
    ctx.floor("C08.R3", len(waiters), 8, "FutureContext get/wait_for instances")
    for fn in waiters:
        inst = L.short(fn)
        ig = IG(fn, inline=noinline_lambda)
        live = ig.live_nodes()
        fops = ops_on(ig, live, FUTEX)
        for a in fops:
            if a.reads:
                ctx.ob("C08.R3a", "%s@%s" % (inst, a.node.line), A.acquires(a.order), a.node.where,
                       "futex word read with %s: seeing READY must acquire the value" % A.ORDER_NAME.get(a.order))
            if a.op in ("store",) or (a.op == "rmw" and a.name not in ("fetch_add", "operator++", "operator+=")):
                ctx.ob("C08.R3a", "%s@%s" % (inst, a.node.line), False, a.node.where,
                       "waiter path overwrites the futex word")
        regs_ = [a.node for a in fops if a.op == "rmw"]
        waits = list(L.call_nodes(ig, callee_re=WAIT_RE, live=live))
        ctx.ob("C08.R3b", inst, bool(waits) and bool(regs_), fn.loc, "waiter never registers or never waits")
        fread_ids = set(a.node.id for a in fops if a.reads)
        for w in waits:
            ctx.ob("C08.R3b", "%s@wait" % inst, ig.dominated_by(w, regs_), w.where,
                   "futex wait without having registered in the waiter count: set_value sees no sleeper and skips wake_all")
            leaves = ig.leaves(ig.rarg(w, 0))
            ok = bool(leaves) and all(isinstance(o, dict) and (o.get("k") == "c" or
                                      (ig.ev_of(o) is not None and ig.ev_of(o).id in fread_ids)) for o in leaves) and \
                any(isinstance(o, dict) and o.get("k") == "e" for o in leaves)
            ctx.ob("C08.R3c", "%s@wait" % inst, ok, w.where,
                   "value waited on is not the last observed futex word: %s" % pstr(ig.rarg(w, 0)))
        re_ = ready_edges(ig, live)
        r = ig.reach([ig.entry], removed_edges=re_)
        if fn.name == "wait_for":
            trues = [n for n in ig.ev_nodes() if n.id in live and n.ev["e"] == "ret" and const_val(n.ev.get("v")) == 1]
            ctx.ob("C08.R3d", inst, bool(trues) and bool(re_) and all(t.id not in r for t in trues), fn.loc,
                   "wait_for can return true without having observed the READY bit")
        else:
            vals = [n for n in L.call_nodes(ig, name="pointer", live=live)]
            ctx.ob("C08.R3d", inst, bool(vals) and bool(re_) and all(v.id not in r for v in vals), fn.loc,
                   "get() can hand out the value without having observed the READY bit")

    # ---------------------------------------------------------------- R4 latch
    downs = fb.find(r"^babylon::CountDownLatch<.*>::count_down$", pred=lambda f: f.has_cfg())
    ctx.floor("C08.R4", len(downs), 2, "CountDownLatch::count_down instances")
    for fn in downs:
        inst = L.short(fn)
        ig = IG(fn, inline=lambda fr, ev, callee: False)
        live = ig.live_nodes()
        rmw = [a for a in A.atomic_ops(ig, live) if a.op == "rmw"]
        sets = list(L.call_nodes(ig, name="set_value", live=live))
        ids = set(a.node.id for a in rmw)

        def zero(atom, pol, lab):
            c = L.effective_cmp(atom, pol)
            if c is None:
                return False
            op, l, r = c
            return op == "==" and const_val(r) == 0 and \
                any(ig.ev_of(o) is not None and ig.ev_of(o).id in ids for o in ig.leaves(l))
        ze = L.cond_edges(ig, zero, live)
        r = ig.reach([ig.entry], removed_edges=ze)
        ok = bool(ze) and bool(sets) and all(s.id not in r for s in sets)
        for (s, d) in ze:
            if ig.exit.id in ig.reach([ig.nodes[d]], removed=sets):
                ok = False
        ctx.ob("C08.R4a", inst, ok, fn.loc,
               "the latch must fire exactly on the edge where <fetch_sub result> - down == 0 (equality, on the RMW result)")
        for a in rmw:
            ctx.ob("C08.R4b", inst, a.name == "fetch_sub" and A.releases(a.order) and A.acquires(a.order), a.node.where,
                   "count-down must be an acq_rel fetch_sub; got %s %s" % (a.name, A.ORDER_NAME.get(a.order)))
            # value subtracted in the test is the same as the one subtracted atomically
        for n in ig.ev_nodes(lambda n: n.id in live and n.ev["e"] == "decl"):
            init = strip_cast(n.ev.get("init"))
            if isinstance(init, dict) and init.get("k") == "b" and init.get("op") == "-":
                l = strip_cast(init["l"])
                if isinstance(l, dict) and l.get("k") == "e" and fn.events.get(l["id"], {}).get("name") == "fetch_sub":
                    ctx.ob("C08.R4c", inst, pstr(init["r"]) == pstr(fn.events[l["id"]]["args"][0]),
                           "%s:%s" % (fn.file, n.line), "new count is not <old> - <amount subtracted>")

    # ---------------------------------------------------------------- R4d a latch constructed with 0 is born fired
    for fn in fb.find(pred=lambda f: re.match(r"^babylon::CountDownLatch<.*>$", f.record or "") and f.kind == "ctor" and f.has_cfg() and
                      len(f.params) == 1 and "size_t" in (f.params[0].get("type") or "") + "size_t" and not (f.params[0].get("type") or "").endswith("&&")):
        ig = IG(fn, inline=lambda fr, ev, callee: False)
        live = ig.live_nodes()
        sets = list(L.call_nodes(ig, name="set_value", live=live))

        def zero0(atom, pol, lab):
            c = L.effective_cmp(atom, pol)
            return c is not None and c[0] == "==" and const_val(c[2]) == 0
        ze = L.cond_edges(ig, zero0, live)
        ok = bool(ze) and bool(sets) and all(s_.id not in ig.reach([ig.entry], removed_edges=ze) for s_ in sets)
        for (_, d_) in ze:
            if ig.exit.id in ig.reach([ig.nodes[d_]], removed=sets):
                ok = False
        ctx.ob("C08.R4d", L.short(fn), ok, fn.loc,
               "a latch constructed with count 0 can never be counted down to 0: its future must be made ready in the constructor, "
               "exactly on the count == 0 edge")

    # ---------------------------------------------------------------- R6 then(): the derived future is fulfilled once, with the callback's result
    adapters = [f for f in fb.find(pred=lambda f: f.name == "run_callback" and f.has_cfg() and f.params and
                                   re.match(r"^babylon::Promise<.*> &$", f.params[0].get("type") or ""))]
    ctx.floor("C08.R6", len(adapters), 6, "then() adapters (run_callback into a promise)")
    for fn in adapters:
        inst = L.short(fn)[:120]
        ig = IG(fn, inline=lambda fr, ev, callee: False)
        live = ig.live_nodes()
        sets = [n for n in L.call_nodes(ig, name="set_value", live=live) if strip_cast(n.ev.get("this")).get("k") == "p" and strip_cast(n.ev["this"]).get("i") == 0]
        inner = [n for n in L.call_nodes(ig, name="run_callback", live=live)]
        rets = [n for n in ig.ev_nodes() if n.id in live and n.ev["e"] == "ret"] or [ig.exit]
        cnt = ig.count_on_paths(ig.entry, disp_nodes=sets)
        once = bool(sets) and cnt.get(ig.exit.id, frozenset()) == frozenset([1])
        after = bool(inner) and all(ig.dominated_by(s_, inner) for s_ in sets)
        void_t = (fn.d.get("targl") or [""])[0] == "void"
        carries = True
        if not void_t:
            carries = all(s_.ev.get("args") and ig.ev_of(strip_cast(ig.resolve(s_.ev["args"][0], s_.frame))) in inner for s_ in sets)
        ctx.ob("C08.R6a", inst, once and after and carries and len(inner) == 1, fn.loc,
               "the future returned by then() must be fulfilled exactly once on every path, after the callback ran, and with the callback's "
               "own result (found %d set_value, %d callback invocations)" % (len(sets), len(inner)), site="run_callback@then-adapter")
    thens = fb.find(pred=lambda f: re.match(r"^babylon::Future<.*>$", f.record or "") and f.name == "then" and f.has_cfg())
    for fn in thens:
        inst = L.short(fn)[:120]
        ig = IG(fn, inline=lambda fr, ev, callee: False)
        live = ig.live_nodes()
        gf = list(L.call_nodes(ig, name="get_future", live=live))
        reg = list(L.call_nodes(ig, name="on_finish", live=live))
        moves = [n for n in ig.ev_nodes() if n.id in live and n.ev["e"] == "ctor" and re.match(r"^babylon::Promise<", n.ev.get("type", "") or "") and n.ev.get("args")]
        rets = [n for n in ig.ev_nodes() if n.id in live and n.ev["e"] == "ret" and n.frame.id == 0]
        ok = len(gf) == 1 and len(reg) == 1 and bool(moves) and all(ig.dominated_by(m_, gf) for m_ in moves) and ig.dominated_by(reg[0], gf) and \
            all(ig.dominated_by(r_, reg) for r_ in rets)
        # the future handed out is the promise's own
        if ok:
            src_p = pstr(strip_cast(ig.resolve(gf[0].ev.get("this"), gf[0].frame)))
            ok = all(pstr(strip_cast(ig.resolve(m_.ev["args"][0], m_.frame))) == src_p for m_ in moves)
        if ok:
            for r_ in rets:
                os_ = ig.origins(ig.resolve(r_.ev.get("v"), r_.frame))
                c_ = ig.ev_of(strip_cast(ig.resolve(r_.ev.get("v"), r_.frame)))
                src = c_.ev.get("args", [None])[0] if c_ is not None and c_.ev["e"] == "ctor" else r_.ev.get("v")
                ok = ok and any(ig.ev_of(o) is gf[0] for o in ig.origins(ig.resolve(src, r_.frame)))
                del os_
        ctx.ob("C08.R6b", inst, ok, fn.loc,
               "then() must take the derived future from its promise before the promise is moved into the continuation, register exactly "
               "one continuation on every path, and return that future", site="then@wiring")
    # ---------------------------------------------------------------- R6c Promise::set_value keeps the shared state alive across the callbacks
    for fn in fb.find(pred=lambda f: re.match(r"^babylon::Promise<.*>$", f.record or "") and f.name == "set_value" and f.has_cfg()):
        ig = IG(fn, inline=lambda fr, ev, callee: False)
        live = ig.live_nodes()
        inner = [n for n in L.call_nodes(ig, name="set_value", live=live)]
        ok = bool(inner)
        for n in inner:
            th = strip_cast(ig.resolve(n.ev.get("this"), n.frame))
            base = None
            for sd in walk(th):
                if isinstance(sd, dict) and sd.get("k") == "l":
                    base = sd
                    break
                if isinstance(sd, dict) and sd.get("k") == "e":
                    e_ = ig.ev_of(sd)
                    th2 = strip_cast(ig.resolve(e_.ev.get("this"), e_.frame)) if e_ is not None and e_.ev.get("this") is not None else None
                    if isinstance(th2, dict) and th2.get("k") == "l":
                        base = th2
                        break
            ok = ok and base is not None and re.match(r"^(class )?std::shared_ptr<", (fn.vars.get(str(base.get("id"))) or {}).get("type", "std::shared_ptr<") or "")
        ctx.ob("C08.R6c", L.short(fn)[:110], ok, fn.loc,
               "Promise::set_value must run the shared state's set_value through a local copy of the shared_ptr: a callback may destroy "
               "the promise (and the last other reference) while the callbacks of the same state are still being run",
               site="Promise::set_value@keeps-state-alive")

    # ---------------------------------------------------------------- R5 type-level
    recs = fb.records()
    n = 0
    for name, rec in recs.items():
        if not CTX_REC.match(name):
            continue
        n += 1
        kinds = {}
        for m in rec["methods"]:
            kinds.setdefault(m["kind"], []).append(m)
        for k in ("copy_ctor", "move_ctor", "copy_assign", "move_assign"):
            ms = kinds.get(k, [])
            ctx.ob("C08.R5", "%s %s" % (name.replace("babylon::", ""), k), bool(ms) and all(m["deleted"] for m in ms),
                   "%s:%s" % (rec["file"], rec["line"]),
                   "the shared state must not be copyable/movable (waiters and callbacks hold its address)")
    ctx.floor("C08.R5", n, 5, "FutureContext records")


SWEEP = ["test_future.cpp"]


# name anchors (validated by tools/rename_sweep.py; a vanished name is exit 2, see core.check_anchor_names)
ANCHORS = {
    '_head': ['^babylon::FutureContext(<|$)'],
    'pointer': ['^babylon::FutureContext(<|$)'],
    'run_callback': ['^babylon::internal::future(<|$)'],
    'wake_all': ['^babylon::Futex(<|$)'],
}
