"""C06 monotonic memory resources (DESIGN §4 C06)."""
import re

from bsa.core import driver, lib
from bsa.graph import IG
from bsa import atomics as A
from bsa import lib as L
from bsa.facts import pstr, strip_cast, const_val, walk

EXPLANATION = (
    "Structural clauses of C06 on Exclusive/Shared/SwissMemoryResource: R1 every page obtained from the page allocator "
    "is stored into a page-array slot on every path to return, every oversize block obtained upstream is recorded with "
    "exactly the size and alignment expressions passed to that allocate call (not re-assigned in between); R2 release "
    "runs all destructors before returning any memory, hands the page allocator a local copy of the page pointers "
    "(never the in-page array it is about to free), returns each oversize block with the recorded triple, zeroes the "
    "accounting on every exit; the shared variant destructs everything before releasing anything; the swiss variant "
    "drops its arena pointer first; R3 destruct_all invokes each task's destructor on that task's pointer and advances "
    "along the array chain; R4 user-provided move constructors / assignments transfer every member and data-carrying "
    "base (violated by the original tree: finding F3, replayed and fixed); R5 constant indices into the in-page arrays "
    "agree with the capacity of that array (producers start at capacity-1, consumers end at capacity). Disjointness, "
    "alignment arithmetic and overlap with in-page bookkeeping for particular remaining-space values are NOT decided "
    "(numeric; no sound static argument with the installed tools).")

EXCL = "babylon::ExclusiveMonotonicBufferResource"
SHARED = "babylon::SharedMonotonicBufferResource"
SWISS = "babylon::SwissMemoryResource"


DEPENDS = {
    "C19": ("the shared and swiss resources keep their per-thread arenas in EnumerableThreadLocal", "all"),
    "C14": ("per-thread arenas are addressed by ThreadId", "all"),
    "C04": "per-thread arenas live in a ConcurrentVector",
}

def units(tier):
    return [lib("reusable/memory_resource.cpp"), driver("memory_resource.cc")]


def own_inline(fr, ev, callee):
    return callee.record == EXCL and not callee.lambda_ and callee.name.startswith("do_allocate")


def nin(a, b, c):
    return False


def mentions_field(desc, names):
    for sd in walk(desc):
        if sd.get("k") == "f" and sd.get("n") in names:
            return True
    return False


def array_cap(rec, field):
    for f in rec["fields"]:
        if f["name"] == field:
            m = re.search(r"\[(\d+)\]$", f["type"])
            if m:
                return int(m.group(1))
    return None


def run(ctx):
    fb = ctx.fb
    fns = fb.find(pred=lambda f: f.record == EXCL and f.has_cfg() and not f.lambda_)
    ctx.floor("C06.fns", len(fns), 15, "ExclusiveMonotonicBufferResource member functions")
    byname = {}
    for f in fns:
        byname.setdefault(f.name, []).append(f)

    # ---------------------------------------------------------------- R1 resource flow
    n1 = n1b = 0
    for fn in fns:
        if not fn.name.startswith("do_allocate"):
            continue
        ig = IG(fn, inline=own_inline)
        live = ig.live_nodes()
        inst = L.short(fn)
        for a in L.call_nodes(ig, callee_re=r"^babylon::PageAllocator::allocate$", live=live):
            if a.frame.owner_id != 0:
                continue
            n1 += 1
            regs = []
            for n in ig.ev_nodes(lambda n: n.id in live and n.ev["e"] == "asg" and n.ev.get("op") == "="):
                lhs = ig.resolve(n.ev["lhs"], n.frame)
                if L.deep_find(ig, lhs, lambda x: x.get("k") == "f" and x.get("n") in ("_last_page_pointer", "pages")) is None:
                    continue
                l0 = strip_cast(lhs)
                if isinstance(l0, dict) and l0.get("k") == "f" and l0.get("n") == "_last_page_pointer":
                    continue        # assigning the cursor itself is not storing the page
                if any(ig.ev_of(o) is a for o in ig.origins_at(n.ev["rhs"], n)):
                    regs.append(n)
            ok = bool(regs) and ig.postdominated_by(a, regs)
            detail = None if ok else ig.describe_path(ig.witness_path(a, ig.exit, removed=regs))
            ctx.ob("C06.R1a", "%s@%s" % (inst, a.line), ok, a.where,
                   "a page obtained from the page allocator can reach return without being stored into a page-array "
                   "slot: release() will never give it back", detail, site="%s@page" % inst)
        for u in L.call_nodes(ig, callee_re=r"^std::pmr::memory_resource::allocate$", live=live):
            if u.frame.owner_id != 0:
                continue
            n1b += 1
            rec = {}
            for n in ig.ev_nodes(lambda n: n.id in live and n.ev["e"] == "asg" and n.ev.get("op") == "=" and n.frame.owner_id == 0):
                lhs = strip_cast(n.ev["lhs"])
                if isinstance(lhs, dict) and lhs.get("k") == "f" and lhs.get("n") in ("page", "bytes", "alignment") and \
                        lhs.get("rec", "").endswith("OversizePage") and ig.path_exists(u, n) and \
                        not any(ig.path_exists(u2, n, avoiding=[u]) and ig.path_exists(u, u2)
                                for u2 in L.call_nodes(ig, callee_re=r"^std::pmr::memory_resource::allocate$", live=live) if u2 is not u):
                    rec.setdefault(lhs["n"], []).append(n)
            ok = all(k in rec for k in ("page", "bytes", "alignment")) and \
                all(ig.postdominated_by(u, rec[k]) for k in ("page", "bytes", "alignment"))
            why = "not all of page/bytes/alignment are recorded on every path"
            if ok:
                for n in rec["page"]:
                    if not any(ig.ev_of(o) is u for o in ig.origins_at(n.ev["rhs"], n)):
                        ok, why = False, "recorded page is not the block returned by this allocate call"
                for key, idx in (("bytes", 0), ("alignment", 1)):
                    want = pstr(ig.rarg(u, idx))
                    for n in rec[key]:
                        got = pstr(ig.resolve(n.ev["rhs"], n.frame))
                        if got != want:
                            ok, why = False, "recorded %s is '%s' but the block was obtained with '%s'" % (key, got, want)
                        for sd in walk(ig.rarg(u, idx)):
                            if sd.get("k") == "p":
                                for dn, _ in ig.param_defs(sd["i"]):
                                    if ig.path_exists(u, dn, avoiding=[n]) and ig.path_exists(dn, n):
                                        ok, why = False, "'%s' is re-assigned between the allocate call and its recording" % sd.get("n")
            ctx.ob("C06.R1b", "%s@%s" % (inst, u.line), ok, u.where,
                   "oversize block bookkeeping does not match the upstream allocation (%s): release() would hand the block "
                   "back with a different size/alignment than it was obtained with" % why, site="%s@oversize" % inst)
    ctx.floor("C06.R1a", n1, 2, "page allocator allocate() sites")
    ctx.floor("C06.R1b", n1b, 2, "upstream allocate() sites")

    # ---------------------------------------------------------------- R2 release
    for fn in byname.get("release", []):
        inst = L.short(fn)
        ig = IG(fn, inline=nin)
        live = ig.live_nodes()
        dall = list(L.call_nodes(ig, name="destruct_all", live=live))
        pdeal = list(L.call_nodes(ig, callee_re=r"^babylon::PageAllocator::deallocate$", live=live))
        udeal = list(L.call_nodes(ig, callee_re=r"^std::pmr::memory_resource::deallocate$", live=live))
        ctx.ob("C06.R2a", inst, bool(dall) and bool(pdeal) and bool(udeal) and
               all(ig.dominated_by(d, dall) for d in pdeal + udeal), fn.loc,
               "memory is returned before all registered destructors have run (a destructor may touch another block)")
        for d in pdeal:
            a0 = ig.rarg(d, 0)
            rooted = L.deep_find(ig, a0, lambda x: x.get("k") == "f" and x.get("n") in ("_last_page_pointer", "_last_page_array", "pages"))
            loc = L.deep_find(ig, a0, lambda x: x.get("k") == "l")
            ctx.ob("C06.R2b", inst, rooted is None and loc is not None, d.where,
                   "the pointer array handed to PageAllocator::deallocate lives in the page array being released (%s): "
                   "the page holding it may be among those freed by this very call" % pstr(a0))
        for d in udeal:
            args = [strip_cast(ig.rarg(d, i)) for i in range(3)]
            names = [a.get("n") if isinstance(a, dict) and a.get("k") == "f" else None for a in args]
            bases = set(pstr(a.get("b")) for a in args if isinstance(a, dict) and a.get("k") == "f")
            ctx.ob("C06.R2c", inst, names == ["page", "bytes", "alignment"] and len(bases) == 1, d.where,
                   "an oversize block must go back upstream with the (page, bytes, alignment) recorded in one entry; got %s"
                   % [pstr(a) for a in args])
        zero = {}
        for n in ig.ev_nodes(lambda n: n.id in live and n.ev["e"] == "asg" and n.ev.get("op") == "=" and const_val(n.ev.get("rhs")) == 0):
            nm = strip_cast(n.ev["lhs"]).get("n")
            zero.setdefault(nm, []).append(n)
        ok = all(k in zero and ig.postdominated_by(ig.entry, zero[k]) for k in ("_space_used", "_space_allocated"))
        ctx.ob("C06.R2d", inst, ok, fn.loc, "accounting (_space_used/_space_allocated) is not zeroed on every exit of release()")
        # chain progress of both loops
        for field in ("_last_page_array", "_last_oversize_page_array"):
            adv = [n for n in ig.ev_nodes(lambda n: n.id in live and n.ev["e"] == "asg" and n.ev.get("op") == "=")
                   if strip_cast(n.ev["lhs"]).get("n") == field]
            good = any(strip_cast(a.ev["rhs"]).get("n") == "next" and
                       strip_cast(strip_cast(a.ev["rhs"]).get("b", {})).get("n") == field for a in adv)
            ctx.ob("C06.R2e", "%s %s" % (inst, field), good, fn.loc, "release loop over %s does not advance along ->next" % field)
        # R2h the bookkeeping array of a group lives inside one of the group's own blocks: once a block of the group went back,
        # the array (still named by the chain head) must not be read again
        for field, deals in (("_last_page_array", pdeal), ("_last_oversize_page_array", udeal)):
            adv = [n for n in ig.ev_nodes(lambda n: n.id in live and n.ev["e"] == "asg" and n.ev.get("op") == "=")
                   if strip_cast(n.ev["lhs"]).get("n") == field]

            def derefs_head(n, field=field):
                ev = n.ev
                parts = list(ev.get("args", []) or []) + [ev.get(k) for k in ("this", "rhs", "init", "v")]
                if ev["e"] == "asg" and strip_cast(ev.get("lhs")).get("n") != field:
                    parts.append(ev.get("lhs"))
                for part in parts:
                    for sd in walk(part):
                        if isinstance(sd, dict) and sd.get("k") == "f" and sd.get("arrow") and \
                                isinstance(strip_cast(sd.get("b")), dict) and strip_cast(sd["b"]).get("n") == field:
                            return True
                return False
            reads = [n for n in ig.ev_nodes() if n.id in live and derefs_head(n)]
            bad = None
            for d in deals:
                if not ig.path_exists(ig.entry, d, avoiding=adv, strict=False):
                    continue            # the head already names the next group when this block goes back
                for r_ in reads:
                    if r_ is not d and ig.path_exists(d, r_, avoiding=adv):
                        bad = (d, r_)
            ctx.ob("C06.R2h", "%s %s" % (inst, field), bool(deals) and bool(adv) and bad is None, (bad[1].where if bad else fn.loc),
                   "%s is read (line %s) after a block of the group it describes was handed back (line %s) while it still names that "
                   "group: the array is stored inside one of those blocks" % (field, bad[1].line if bad else "?", bad[0].line if bad else "?"),
                   site="release@%s-read-after-free" % field)
    for fn in fb.find(pred=lambda f: f.record == SHARED and f.name == "release" and f.has_cfg()):
        ig = IG(fn, inline=nin)
        live = ig.live_nodes()
        sweeps = list(L.call_nodes(ig, name="for_each", live=live))
        kinds = []
        for s in sweeps:
            lam = strip_cast(ig.rarg(s, 0))
            n_ = ig.ev_of(lam)
            if n_ is not None and n_.ev.get("args"):
                lam = strip_cast(ig.rarg(n_, 0))
            lf = fn.tu.fns.get(lam.get("fid")) if isinstance(lam, dict) and lam.get("k") == "lam" else None
            calls = set(ev.get("name") for _, ev in lf.all_events() if ev["e"] == "call") if lf else set()
            kinds.append(("destruct_all" in calls, "release" in calls))
        ok = len(sweeps) == 2 and kinds[0] == (True, False) and kinds[1][1] and ig.dominated_by(sweeps[1], [sweeps[0]])
        ctx.ob("C06.R2f", L.short(fn), ok, fn.loc,
               "the shared resource must run destruct_all on every per-thread resource before releasing any of them "
               "(objects may reference memory of another thread's resource)")
    for fn in fb.find(pred=lambda f: f.record == SWISS and f.name == "release" and f.has_cfg()):
        ig = IG(fn, inline=nin)
        live = ig.live_nodes()
        clears = [a.node for a in A.atomic_ops(ig, live) if a.op == "store" and const_val(ig.rarg(a.node, 0)) == "null"]
        base = list(L.call_nodes(ig, callee_re=r"^babylon::SharedMonotonicBufferResource::release$", live=live))
        ctx.ob("C06.R2g", L.short(fn), bool(clears) and bool(base) and all(ig.dominated_by(b, clears) for b in base), fn.loc,
               "the arena pointer must be dropped before the memory that holds the arena is released")

    # ---------------------------------------------------------------- R3 destruct_all
    for fn in byname.get("destruct_all", []):
        inst = L.short(fn)
        ig = IG(fn, inline=nin)
        live = ig.live_nodes()
        invs = [n for n in ig.ev_nodes() if n.id in live and n.ev["e"] == "call" and "fn" in n.ev]
        ok = len(invs) == 1
        if ok:
            f_ = strip_cast(ig.resolve(invs[0].ev["fn"], invs[0].frame))
            a_ = strip_cast(ig.rarg(invs[0], 0))
            while isinstance(f_, dict) and f_.get("k") == "u":
                f_ = strip_cast(f_["x"])
            ok = isinstance(f_, dict) and f_.get("n") == "destructor" and isinstance(a_, dict) and a_.get("n") == "ptr" and \
                pstr(f_.get("b")) == pstr(a_.get("b"))
        ctx.ob("C06.R3a", inst, ok, fn.loc, "each destroy task must invoke its own destructor on its own pointer, once")
        adv = [n for n in ig.ev_nodes(lambda n: n.id in live and n.ev["e"] == "asg" and n.ev.get("op") == "=")
               if strip_cast(n.ev["lhs"]).get("n") == "_last_destroy_task_array"]
        good = False
        for a in adv:
            r = strip_cast(a.ev["rhs"])
            if isinstance(r, dict) and r.get("n") == "next":
                b_ = strip_cast(r.get("b"))
                os_ = ig.origins_at(b_, a) if isinstance(b_, dict) else []
                good = any(isinstance(o, dict) and o.get("n") == "_last_destroy_task_array" for o in os_) or \
                    (isinstance(b_, dict) and b_.get("n") == "_last_destroy_task_array")
        ctx.ob("C06.R3b", inst, good, fn.loc, "destruct_all does not advance along the destroy-task array chain")

    # ---------------------------------------------------------------- R4 special members
    n4 = L.check_special_members(ctx, "C06.R4", fb, r"^babylon::(ExclusiveMonotonicBufferResource|SharedMonotonicBufferResource|SwissMemoryResource)$")
    ctx.floor("C06.R4", n4, 4, "user-provided move members of the memory resources")
    # R4c the per-thread container the shared / swiss resources keep their exclusive resources in: a move that leaves the cache
    # key (_id) behind makes a thread's cached slot of the moved-from resource name a slot of the move target (seed C06-5;
    # the clause is C19.R6 / G1, evaluated here on the instantiation this component uses)
    n4c = L.check_special_members(ctx, "C06.R4c", fb, r"^babylon::EnumerableThreadLocal<babylon::ExclusiveMonotonicBufferResource.*>$")
    ctx.floor("C06.R4c", n4c, 1, "move members of EnumerableThreadLocal<ExclusiveMonotonicBufferResource>")

    # ---------------------------------------------------------------- R4b blocks travel with the allocators that issued them
    def this_field(d):
        d = strip_cast(d)
        return d.get("n") if isinstance(d, dict) and d.get("k") == "f" and isinstance(strip_cast(d.get("b")), dict) and \
            strip_cast(d["b"]).get("k") == "this" else None

    def src_field(d):
        d = strip_cast(d)
        return d.get("n") if isinstance(d, dict) and d.get("k") == "f" and isinstance(strip_cast(d.get("b")), dict) and \
            strip_cast(d["b"]).get("k") == "p" and strip_cast(d["b"]).get("i") == 0 else None
    targets, books = set(), set()
    for fn in fb.find(pred=lambda f: f.record == EXCL and f.name == "release" and f.has_cfg()):
        for _, ev in fn.all_events():
            if ev["e"] == "call" and ev.get("name") == "deallocate" and this_field(ev.get("this")):
                targets.add(this_field(ev["this"]))
            if ev["e"] == "asg" and this_field(ev.get("lhs")):
                books.add(this_field(ev["lhs"]))
    books -= targets
    n4b = 0
    for fn in fb.find(pred=lambda f: f.record == EXCL and f.kind in ("move_assign", "move_ctor") and f.has_cfg()):
        ig = IG(fn, inline=nin)
        live = ig.live_nodes()
        exchanged, first_swap = set(), None
        for n in ig.ev_nodes():
            if n.id in live and n.ev["e"] == "call" and n.ev.get("name") == "swap" and len(n.ev.get("args", [])) == 2:
                a, b = n.ev["args"]
                for x, y in ((a, b), (b, a)):
                    if this_field(x) and this_field(x) == src_field(y):
                        exchanged.add(this_field(x))
                        first_swap = first_swap or n
        if not (exchanged & books):
            continue        # e.g. the move constructor, which delegates to the assignment
        n4b += 1
        rel = [n for n in L.call_nodes(ig, name="release", live=live) if strip_cast(n.ev.get("this")).get("k") in ("this", "u")]
        released_first = bool(rel) and first_swap is not None and ig.dominated_by(first_swap, rel)
        missing = sorted(targets - exchanged)
        ctx.ob("C06.R4b", L.short(fn), bool(targets) and (not missing or released_first), fn.loc,
               "the blocks this resource held are exchanged into the source (%s) but %s - which release() returns them to - "
               "is not: the source will hand them to an allocator that never issued them, and the one that did never gets them back" % (
                   ", ".join(sorted(exchanged & books))[:80], ", ".join(missing)), site="%s@allocators-travel-with-blocks" % fn.name)
    ctx.floor("C06.R4b", n4b, 1, "move members of the exclusive resource that exchange its block bookkeeping")

    # ---------------------------------------------------------------- R5 capacities
    recs = fb.records()
    caps = {}
    for rn, field in ((EXCL + "::PageArray", "pages"), (EXCL + "::OversizePageArray", "pages"),
                      (EXCL + "::DestroyTaskArray", "tasks")):
        r = recs.get(rn)
        if r is None:
            ctx.broken("record %s not found" % rn)
        caps[rn] = array_cap(r, field)
        if caps[rn] is None:
            ctx.broken("capacity of %s::%s not readable" % (rn, field))
    n5 = 0
    for fn in fns:
        producer = fn.name.startswith("do_allocate") or fn.name == "do_get_destroy_task_in_new_array"
        consumer = fn.name in ("release", "contains", "destruct_all")
        if not (producer or consumer):
            continue
        def chain(sd):
            """(array record, net constant offset) when sd is <array field> +/- constants, else None"""
            sd = strip_cast(sd)
            if isinstance(sd, dict) and sd.get("k") == "f" and sd.get("n") in ("pages", "tasks") and sd.get("rec") in caps:
                return sd["rec"], 0
            if isinstance(sd, dict) and sd.get("k") == "b" and sd.get("op") in ("+", "-") and isinstance(const_val(sd.get("r")), int):
                inner = chain(sd.get("l"))
                if inner is not None:
                    return inner[0], inner[1] + (const_val(sd["r"]) if sd["op"] == "+" else -const_val(sd["r"]))
            return None

        def scan(sd, out):
            if not isinstance(sd, dict):
                return
            if sd.get("k") == "idx":
                c0 = chain(sd.get("b"))
                if c0 is not None and isinstance(const_val(sd.get("i")), int):
                    out.append((c0[0], c0[1] + const_val(sd["i"])))
                    return
            if sd.get("k") == "b" and sd.get("op") in ("+", "-"):
                c0 = chain(sd)
                if c0 is not None and c0[1] != 0:
                    out.append(c0)
                    return
            for key in ("b", "x", "l", "r", "t", "f", "i", "c"):
                if isinstance(sd.get(key), dict):
                    scan(sd[key], out)
            for v in sd.get("xs", []) or []:
                scan(v, out)
        for _, ev in fn.all_events():
            found = []
            for d in L._event_descs(ev):
                scan(d, found)
            for arr, c in found:
                n5 += 1
                cap = caps[arr]
                ok = (c in (cap - 1, cap - 2)) if producer else (c == cap)
                ctx.ob("C06.R5", "%s@%s idx %s into %s[%s]" % (L.short(fn), ev.get("line"), c, arr.rsplit("::", 1)[-1], cap), ok,
                       "%s:%s" % (fn.file, ev.get("line")),
                       "constant index %d does not agree with the capacity %d of %s (producers fill downwards from "
                       "capacity-1, consumers walk up to capacity)" % (c, cap, arr))
    ctx.floor("C06.R5", n5, 8, "constant indices into in-page arrays")


SWEEP = ["reusable/test_memory_resource.cpp",
         "reusable/test_allocator.cpp"]


# name anchors (validated by tools/rename_sweep.py; a vanished name is exit 2, see core.check_anchor_names)
ANCHORS = {
    '_last_destroy_task_array': ['^babylon::ExclusiveMonotonicBufferResource(<|$)'],
    '_last_oversize_page_array': ['^babylon::ExclusiveMonotonicBufferResource(<|$)'],
    '_last_page_array': ['^babylon::ExclusiveMonotonicBufferResource(<|$)'],
    '_last_page_pointer': ['^babylon::ExclusiveMonotonicBufferResource(<|$)'],
    '_space_allocated': ['^babylon::ExclusiveMonotonicBufferResource(<|$)'],
    '_space_used': ['^babylon::ExclusiveMonotonicBufferResource(<|$)'],
    'alignment': ['^babylon::ExclusiveMonotonicBufferResource::OversizePage(<|$)'],
    'bytes': ['^babylon::ExclusiveMonotonicBufferResource::OversizePage(<|$)'],
    'destruct_all': ['^babylon::ExclusiveMonotonicBufferResource(<|$)'],
    'destructor': ['^babylon::ExclusiveMonotonicBufferResource::DestroyTask(<|$)'],
    'do_allocate_with_page_in_new_page_array': ['^babylon::ExclusiveMonotonicBufferResource(<|$)'],
    'pages': ['^babylon::ExclusiveMonotonicBufferResource::OversizePageArray(<|$)', '^babylon::ExclusiveMonotonicBufferResource::PageArray(<|$)'],
}
