"""C07 executors (DESIGN §4 C07)."""
import re

from bsa.core import driver, lib
from bsa.graph import IG
from bsa import atomics as A
from bsa import lib as L
from bsa.facts import pstr, strip_cast, const_val, walk

EXPLANATION = (
    "Structural clauses of C07 on Inplace / AlwaysUseNewThread / ThreadPool executors: R1 every type-erased task is "
    "invoked inside a live RunnerScope of the executing executor (so is_running_in() is true inside tasks); R2 stop() "
    "clears the running flag, joins the balance thread, then pushes exactly one STOP per worker thread, then joins the "
    "workers (the STOP loop and the join loop range over the same container), and the destructor stops; R3 the worker "
    "loop's switch handles every TaskType enumerator, a FUNCTION task is invoked exactly once per iteration, only STOP "
    "leaves the loop, and the blocking global pop is reached only after the local pop (and stealing) failed; R4 "
    "Executor::execute replaces the future by an invalid one exactly when invoke refused, submit(CoroutineTask) "
    "destroys the handle exactly then; the thread-pool invoke overrides the base and enqueues; R5 queue flag pairing: "
    "the sleeping global pop is woken by every global push, the non-concurrent local push is reachable only from a "
    "worker of this pool (is_running_in()) through its own thread-local queue. That an accepted task runs under every "
    "interleaving with steal/balance, and queue-full progress, are NOT decided. (Observation O4: the coroutine "
    "overloads of execute ignore a refused submit; no in-tree executor refuses, so it is outside the quantifier.)")

POOL = "babylon::ThreadPoolExecutor"
SCOPE_RE = r"^babylon::BasicExecutor::RunnerScope$"


DEPENDS = {
    "C01": "every accepted task travels through a ConcurrentBoundedQueue",
    "C02": "workers sleep in the queue's pop and submitters in its push",
    "C08": "execute() reports the task's result through Future / Promise",
    "C19": "the worker-local queues are kept in EnumerableThreadLocal",
}

def units(tier):
    return [lib("executor.cpp"), lib("basic_executor.cpp"), driver("executor.cc"), driver("coroutine.cc")]


def nin(a, b, c):
    return False


def is_task_invoke(n):
    ev = n.ev
    if ev["e"] != "call" or ev.get("name") != "operator()":
        return False
    return re.match(r"^babylon::MoveOnlyFunction<void \((void)?\)>$", ev.get("rec", "") or "") is not None


def run(ctx):
    fb = ctx.fb
    # ---------------------------------------------------------------- Q1 the queue this component re-sizes keeps tickets and rounds in step
    # (the executor's start() relies on ConcurrentBoundedQueue::reserve_and_clear; the clause is C01.R11, evaluated on the queue instantiation used here)
    import C01 as _C01
    _C01.geometry_rebase(ctx, "C07.Q1", fb)
    # ---------------------------------------------------------------- R1 RunnerScope
    n1 = 0
    # R1c scopes nest (a pool task that runs something through the in-place executor): leaving a scope restores the executor
    # that was current when it was entered - never a constant (after seed C07-6)
    n1c = 0
    for fn in fb.find(pred=lambda f: re.match(SCOPE_RE, f.record or "") and f.kind == "dtor" and f.has_cfg()):
        ig = IG(fn, inline=nin)
        live = ig.live_nodes()
        for n in ig.ev_nodes():
            if n.id not in live or n.ev["e"] != "asg" or n.ev.get("op") != "=":
                continue
            lhs_ = strip_cast(n.ev.get("lhs"))
            tgt = fn.events.get(lhs_.get("id")) if isinstance(lhs_, dict) and lhs_.get("k") == "e" else None
            if tgt is None or tgt.get("name") != "current":
                continue
            n1c += 1
            rhs = strip_cast(ig.resolve(n.ev.get("rhs"), n.frame))
            saved = isinstance(rhs, dict) and rhs.get("k") == "f" and isinstance(strip_cast(rhs.get("b")), dict) and strip_cast(rhs.get("b")).get("k") == "this"
            ctor_saves = False
            if saved:
                for c in fb.find(pred=lambda f: f.record == fn.record and f.kind == "ctor" and f.has_cfg()):
                    for _, ev in c.all_events():
                        if ev["e"] == "init" and ev.get("field") == rhs.get("n"):
                            for sd in walk(ev.get("v")):
                                e0 = c.events.get(sd.get("id")) if sd.get("k") == "e" else None
                                if e0 is not None and e0.get("name") == "current":
                                    ctor_saves = True
            ctx.ob("C07.R1c", L.short(fn), saved and ctor_saves, n.where,
                   "leaving a RunnerScope must restore the executor that was current when the scope was entered (a member initialised "
                   "from current() by the constructor): with a constant, closing a nested scope - a pool task that uses the in-place "
                   "executor - leaves the worker outside its own executor for the rest of the task and every later one",
                   site="RunnerScope::~RunnerScope@restores-saved")
    ctx.floor("C07.R1c", n1c, 1, "RunnerScope destructor stores to current()")
    for fn in fb.find(pred=lambda f: f.has_cfg() and f.file.endswith("/executor.cpp")):
        ig = IG(fn, inline=nin)
        live = ig.live_nodes()
        invs = [n for n in ig.ev_nodes() if n.id in live and is_task_invoke(n)]
        if not invs:
            continue
        inst = L.short(fn)
        scopes = [n for n in ig.ev_nodes() if n.id in live and n.ev["e"] == "ctor" and re.match(SCOPE_RE, n.ev.get("type", "") or "")]
        ends = [n for n in ig.ev_nodes() if n.id in live and n.ev["e"] == "dtor" and re.match(SCOPE_RE, n.ev.get("type", "") or "")]
        for i in invs:
            n1 += 1
            ok = bool(scopes) and ig.dominated_by(i, scopes) and not any(ig.path_exists(e, i, avoiding=scopes) for e in ends)
            arg_ok = all(strip_cast(strip_cast(ig.rarg(s, 0)).get("x", {})).get("k") in ("this", "cap") or
                         pstr(ig.rarg(s, 0)) in ("*(this)", "*(cap:this)") for s in scopes)
            ctx.ob("C07.R1", "%s@%s" % (inst, i.line), ok and arg_ok, i.where,
                   "a task is invoked outside a live RunnerScope of this executor: is_running_in() is false inside the "
                   "task (nested submissions take the wrong queue, coroutines resume on the wrong executor)",
                   site="%s@task-invoke" % inst)
    ctx.floor("C07.R1", n1, 3, "task invocation sites in executor.cpp")

    # ---------------------------------------------------------------- R2 stop
    stops = fb.find(pred=lambda f: f.record == POOL and f.name == "stop" and f.has_cfg())
    ctx.floor("C07.R2", len(stops), 1, "ThreadPoolExecutor::stop")
    for fn in stops:
        inst = L.short(fn)
        ig = IG(fn, inline=nin, for_once=True)
        live = ig.live_nodes()
        joins = list(L.call_nodes(ig, callee_re=r"^std::thread::join$", live=live))
        bal = [j for j in joins if strip_cast(j.ev.get("this", {})).get("n") == "_balance_thread"]
        work = [j for j in joins if j not in bal]
        pushes = [n for n in ig.ev_nodes() if n.id in live and n.ev["e"] == "call" and
                  re.match(r"^babylon::ConcurrentBoundedQueue<.*>::push$", n.ev.get("callee", "") or "")]
        flag = [a for a in A.atomic_ops(ig, live) if a.op == "store" and const_val(ig.rarg(a.node, 0)) == 0]
        ok = bool(bal) and bool(work) and bool(pushes) and bool(flag)
        ctx.ob("C07.R2a", inst, ok and all(not ig.path_exists(p, b) for p in pushes for b in bal) and
               all(ig.dominated_by(b, [f.node for f in flag]) for b in bal), fn.loc,
               "the balance thread must be told to stop and joined before STOP markers are pushed (it could move a task "
               "behind the markers, where no worker is left to run it)")
        ctx.ob("C07.R2b", inst, ok and all(ig.dominated_by(w, pushes) for w in work), fn.loc,
               "workers must be joined only after the STOP markers were pushed")
        # STOP marker value and count
        # the task type on which a worker leaves its loop (switch case or equality test, resolved constants)
        enum_stop = None
        for f2 in fb.find(pred=lambda f: f.record == POOL and f.name == "keep_execute" and f.has_cfg()):
            ig2 = IG(f2, inline=nin)
            pops = [n for n in ig2.ev_nodes() if n.ev["e"] == "call" and n.ev.get("name") in ("pop", "try_pop")]
            for nd in ig2.nodes:
                for m, lab in nd.succ:
                    if lab is None:
                        continue
                    val = None
                    if lab.case not in (None, "default"):
                        try:
                            val = int(lab.case)
                        except ValueError:
                            val = None
                    elif lab.cond is not None and lab.pol is not None:
                        atom, pol = ig2.expand_cond(ig2.resolve(lab.cond, lab.frame), lab.pol)
                        c = L.effective_cmp(atom, pol)
                        if c is not None and c[0] == "==" and const_val(c[2]) is not None and \
                                any(sd.get("k") == "f" and sd.get("n") == "type" for sd in walk(c[1])):
                            val = const_val(c[2])
                    if val is not None and ig2.exit.id in ig2.reach([m], removed=pops):
                        enum_stop = val
        for p in pushes:
            a0 = strip_cast(ig.rarg(p, 0))
            tval = const_val(a0["xs"][0]) if isinstance(a0, dict) and a0.get("k") == "init" and a0.get("xs") else None
            ctx.ob("C07.R2c", inst, enum_stop is not None and tval == enum_stop, p.where,
                   "the marker pushed by stop() must be of type STOP")
        # same container bounds both loops
        cnt = None
        for bid, b in fn.blocks.items():
            if b.get("term") == "ForStmt" and "cond" in b:
                c = L.cmp_parts(b["cond"])
                if c and c[0] == "<":
                    r = strip_cast(c[2])
                    if isinstance(r, dict) and r.get("k") == "e":
                        ce = fn.events.get(r["id"])
                        if ce and ce.get("name") == "size":
                            cnt = strip_cast(ce.get("this", {})).get("n")
        rng = None
        for _, ev in fn.all_events():
            if ev["e"] == "decl" and ev.get("name", "").startswith("__range"):
                rng = strip_cast(ev.get("init", {})).get("n")
        ctx.ob("C07.R2d", inst, cnt is not None and cnt == rng, fn.loc,
               "one STOP marker per joined worker: the marker loop counts '%s' but the join loop ranges over '%s'" % (cnt, rng))
    for fn in fb.find(pred=lambda f: f.record == POOL and f.kind == "dtor" and f.has_cfg()):
        ctx.ob("C07.R2e", L.short(fn), any(True for _ in L.fn_calls(fn, name="stop")), fn.loc, "the destructor must stop the pool")

    # ---------------------------------------------------------------- R3 worker loop
    workers = [f for f in fb.find(pred=lambda f: f.record == POOL and f.has_cfg())
               if any(b.get("term") == "SwitchStmt" and b.get("enum_type", "").endswith("TaskType") for b in f.blocks.values())]
    ctx.floor("C07.R3", len(workers), 1, "worker loop (switch over TaskType)")
    for fn in workers:
        inst = L.short(fn)
        ig = IG(fn, inline=nin)
        live = ig.live_nodes()
        for bid, b in fn.blocks.items():
            if b.get("term") != "SwitchStmt" or "enum_all" not in b:
                continue
            handled = set(s.get("case") for s in b["succ"] if "case" in s)
            missing = [e["name"] for e in b["enum_all"] if e["value"] not in handled]
            ctx.ob("C07.R3a", inst, not missing, "%s:%s" % (fn.file, b.get("cond_line")),
                   "the worker's switch does not handle TaskType::%s: such a task is silently dropped" % ",".join(missing))
            vals = dict((e["name"], e["value"]) for e in b["enum_all"])
            sw = ig.frames[0].block_node[bid]
            # edges per case: find label edges out of the switch block's last node
            case_targets = {}
            for n in ig.nodes:
                for m, lab in n.succ:
                    if lab is not None and lab.case is not None and lab.frame.owner_id == 0 and n.block == bid:
                        case_targets[str(lab.case)] = m
            invs = [n for n in ig.ev_nodes() if n.id in live and is_task_invoke(n) and n.frame.owner_id == 0]
            rets = [n for n in ig.ev_nodes() if n.id in live and n.ev["e"] == "ret" and n.frame.id == 0]
            ft = case_targets.get(vals.get("FUNCTION"))
            st = case_targets.get(vals.get("STOP"))
            ok = ft is not None and bool(invs)
            if ok:
                # from the FUNCTION case the invoke is unavoidable before the next iteration, and happens once
                r = ig.reach([ft], removed=invs)
                ok = sw.id not in r and ig.exit.id not in r
                stc = ig.count_on_paths(ft, disp_nodes=invs, stops=[sw])
                ok = ok and stc.get(sw.id, frozenset([1])) <= frozenset([1])
                # and the invoke is reachable from the switch only through the FUNCTION case
                other = [m for k, m in case_targets.items() if k != vals.get("FUNCTION")]
                ok = ok and not any(i.id in ig.reach([m], removed=[sw]) for m in other for i in invs)
            ctx.ob("C07.R3b", inst, ok, fn.loc,
                   "a FUNCTION task must be invoked exactly once per loop iteration and only for FUNCTION tasks")
            ok = st is not None and bool(rets)
            if ok:
                nonstop = [m for k, m in case_targets.items() if k != vals.get("STOP")]
                ok = all(r.id in ig.reach([st], removed=[sw]) for r in rets[:1]) and \
                    not any(r.id in ig.reach([m], removed=[sw]) for m in nonstop for r in rets)
            ctx.ob("C07.R3c", inst, ok, fn.loc, "only a STOP marker may end the worker loop, and it must end it")
        pops = [n for n in ig.ev_nodes() if n.id in live and n.ev["e"] == "call" and
                re.match(r"^babylon::ConcurrentBoundedQueue<.*>::(try_)?pop$", n.ev.get("callee", "") or "") and n.frame.owner_id == 0]
        blocking = [p for p in pops if p.ev["name"] == "pop"]
        local = [p for p in pops if p.ev["name"] == "try_pop"]
        lids = set(p.id for p in local)
        le = L.result_edges(ig, lids, False, live)
        ok = bool(blocking) and bool(local) and bool(le) and \
            all(b.id not in ig.reach([ig.entry], removed_edges=le) for b in blocking)
        ctx.ob("C07.R3d", inst, ok, fn.loc,
               "the blocking pop on the global queue must be reached only after the worker's own local queue was found "
               "empty (a worker sleeping on the global queue with tasks in its local queue strands them)")

    # ---------------------------------------------------------------- R3e/R3f a stolen task is dispatched before the next pop
    from bsa.graph import cond_atoms
    POPRE = re.compile(r"^babylon::ConcurrentBoundedQueue<.*>::(try_)?pop$")
    n3e = 0
    for fn in workers:
        inst = L.short(fn)
        ig = IG(fn, inline=nin)
        live = ig.live_nodes()
        sweeps = [n for n in L.call_nodes(ig, callee_re=r"^babylon::(EnumerableThreadLocal|ConcurrentVector)<.*>::for_each$", live=live)]
        for fe in sweeps:
            lam = L.lambda_of(ig, ig.rarg(fe, 0))
            if lam is None or not lam.has_cfg():
                continue
            lig = IG(lam, inline=nin)
            llive = lig.live_nodes()
            lpops = [n for n in lig.ev_nodes() if n.id in llive and n.ev["e"] == "call" and POPRE.match(n.ev.get("callee", "") or "") and
                     n.ev.get("args") and strip_cast(n.ev["args"][0]).get("k") == "cap"]
            if not lpops:
                continue        # e.g. the balance sweep: pops hand the task to a callback, nothing is kept across invocations
            n3e += 1
            pid = set(n.id for n in lpops)
            target = set(strip_cast(n.ev["args"][0]).get("n") for n in lpops)
            # captured flags that carry a pop's result: every write is the result itself, or `true` on a path that only a
            # successful pop takes
            direct = []
            for n in lig.nodes:
                for m, lab in n.succ:
                    if lab is None or lab.cond is None or lab.pol is None:
                        continue
                    atom, pol = L.bool_atom(lig.resolve(lab.cond, lab.frame), lab.pol)
                    e_ = lig.ev_of(strip_cast(atom)) if isinstance(strip_cast(atom), dict) and strip_cast(atom).get("k") == "e" else None
                    if e_ is not None and e_.id in pid and pol:
                        direct.append((n.id, m.id))
            no_success = lig.reach([lig.entry], removed_edges=direct)
            writes = {}
            for n in lig.ev_nodes():
                if n.id in llive and n.ev["e"] == "asg" and strip_cast(n.ev.get("lhs")).get("k") == "cap":
                    rhs = strip_cast(lig.resolve(n.ev.get("rhs"), n.frame)) if n.ev.get("rhs") is not None else None
                    r_ = lig.ev_of(rhs) if isinstance(rhs, dict) and rhs.get("k") == "e" else None
                    good = (r_ is not None and r_.id in pid) or \
                        (const_val(rhs) == 1 and n.ev.get("op") == "=" and n.id not in no_success)
                    writes.setdefault(strip_cast(n.ev["lhs"]).get("n"), []).append(good)
            flags = set(k for k, v in writes.items() if all(v))
            other_writes = False

            def is_result(atom):
                atom = strip_cast(atom)
                if isinstance(atom, dict) and atom.get("k") == "cap" and atom.get("n") in flags and not other_writes:
                    return True
                e_ = lig.ev_of(atom) if isinstance(atom, dict) and atom.get("k") == "e" else None
                return e_ is not None and e_.id in pid
            succ_t, fail_e = [], []
            for n in lig.nodes:
                for m, lab in n.succ:
                    if lab is None or lab.cond is None or lab.pol is None:
                        continue
                    atom, pol = L.bool_atom(lig.resolve(lab.cond, lab.frame), lab.pol)
                    if is_result(atom):
                        (succ_t if pol else fail_e).append((n, m))
            fe_ids = [(a.id, b.id) for a, b in fail_e]
            # assume a pop succeeded: follow every path from it except the ones taken when its result (or its flag) is false
            reach = lig.reach([m for n in lpops for m, _ in n.succ if (n.id, m.id) not in set(fe_ids)], removed_edges=fe_ids)
            if lig.exit.id in reach:
                # the enumerator invokes its callback once per block of the underlying vector: the next invocation starts here
                reach = set(reach) | set(lig.reach([lig.entry], removed_edges=fe_ids))
            again = [n for n in lpops if n.id in reach]
            ctx.ob("C07.R3e", "%s sweep@%s" % (inst, fe.line), not again, fe.where,
                   "for_each invokes its callback once per block of the thread-local vector: after a successful pop into '%s' "
                   "another pop into it is reachable (line %s) before the worker dispatched the first task - the first task is "
                   "overwritten and never runs" % ("/".join(sorted(target)), again[0].line if again else "?"),
                   site="%s@steal-sweep" % fn.name)
            # R3f: back in the worker, a further pop into the same variable is taken only when the sweep's flag says it failed
            wp = [n for n in ig.ev_nodes() if n.id in live and n.ev["e"] == "call" and POPRE.match(n.ev.get("callee", "") or "") and
                  n.frame.owner_id == 0 and n.ev.get("args") and strip_cast(n.ev["args"][0]).get("n") in target]
            sw = [ig.frames[0].block_node[bid] for bid, b in fn.blocks.items() if b.get("term") == "SwitchStmt"]
            guard = []
            for n in ig.nodes:
                for m, lab in n.succ:
                    if lab is None or lab.cond is None or lab.pol is None:
                        continue
                    atom, pol = L.bool_atom(ig.resolve(lab.cond, lab.frame), lab.pol)
                    atom = strip_cast(atom)
                    if isinstance(atom, dict) and atom.get("k") == "l" and atom.get("n") in flags and pol is False:
                        guard.append((n.id, m.id))
            r2 = ig.reach([m for m, _ in fe.succ], removed=sw, removed_edges=guard)
            bad = [n for n in wp if n.id in r2]
            ctx.ob("C07.R3f", "%s sweep@%s" % (inst, fe.line), bool(flags) and not other_writes and not bad, fe.where,
                   "after the steal sweep a pop into '%s' (line %s) is reachable without the sweep's success flag being false: a "
                   "stolen task is overwritten by the next task of the global queue" % ("/".join(sorted(target)), bad[0].line if bad else "?"),
                   site="%s@after-steal-sweep" % fn.name)
    ctx.floor("C07.R3e", n3e, 1, "steal sweeps that keep a popped task across callback invocations")

    # ---------------------------------------------------------------- R3g a task reported as accepted was handed to a queue
    n3g = 0
    for fn in fb.find(pred=lambda f: f.record == POOL and f.name == "enqueue_task" and f.has_cfg()):
        n3g += 1
        ig = IG(fn, inline=nin)
        live = ig.live_nodes()
        QP = re.compile(r"^babylon::ConcurrentBoundedQueue<.*>::(try_)?push(_n)?$")
        qs = [n for n in ig.ev_nodes() if n.id in live and n.ev["e"] == "call" and QP.match(n.ev.get("callee", "") or "")]
        sure = [n for n in qs if n.ev["name"] in ("push", "push_n")]
        maybe = [n for n in qs if n.ev["name"].startswith("try_")]
        won = L.result_edges(ig, set(n.id for n in maybe), True, live) if maybe else []
        acc = [n for n in ig.ev_nodes() if n.id in live and n.ev["e"] == "ret" and n.frame.id == 0 and const_val(ig.resolve(n.ev.get("v"), n.frame)) == 0]
        r0 = ig.reach([ig.entry], removed=sure, removed_edges=won)
        bad = [r_ for r_ in acc if r_.id in r0]
        ctx.ob("C07.R3g", L.short(fn), bool(qs) and bool(acc) and not bad, (bad[0].where if bad else fn.loc),
               "enqueue_task reports success (returns 0) on a path where the task was not handed to a queue: a blocking push, or a "
               "try_push whose result was seen true - a try_push that fails silently drops a task the caller was told is accepted "
               "(size() < capacity does not mean a slot is free: a pop claims its ticket before it releases the slot)",
               site="enqueue_task@accepted-means-queued")
    ctx.floor("C07.R3g", n3g, 1, "ThreadPoolExecutor::enqueue_task")

    # ---------------------------------------------------------------- R7 the new-thread executor counts a task from acceptance to completion
    ANT = "babylon::AlwaysUseNewThreadExecutor"
    n7 = 0
    for fn in fb.find(pred=lambda f: f.record == ANT and f.name == "invoke" and f.has_cfg()):
        n7 += 1
        ig = IG(fn, inline=nin)
        live = ig.live_nodes()
        ops = [a for a in A.atomic_ops(ig, live) if strip_cast(a.obj).get("n") == "_running"]
        incs = [a.node for a in ops if a.op == "rmw" and a.name == "fetch_add" and a.node.frame.id == 0]
        thr = [n for n in ig.ev_nodes() if n.id in live and n.ev["e"] == "ctor" and (n.ev.get("type") or "").startswith("std::thread")]
        lam = None
        for t_ in thr:
            lam = L.lambda_of(ig, ig.rarg(t_, 0)) or lam
        ok = len(incs) == 1 and len(thr) == 1 and ig.dominated_by(thr[0], incs) and lam is not None
        if ok:
            lig = IG(lam, inline=nin)
            llive = lig.live_nodes()
            lops = [a for a in A.atomic_ops(lig, llive) if strip_cast(a.obj).get("n") == "_running"]
            decs = [a.node for a in lops if a.op == "rmw" and a.name == "fetch_sub"]
            runs = [n for n in lig.ev_nodes() if n.id in llive and is_task_invoke(n)]
            ok = len(decs) == 1 and bool(runs) and all(lig.dominated_by(decs[0], [r_]) for r_ in runs) and \
                lig.postdominated_by(lig.entry, decs) and not any(a.name == "fetch_add" for a in lops) and \
                all(A.releases(a.order) for a in lops if a.node in decs)
        ctx.ob("C07.R7a", L.short(fn), ok, fn.loc,
               "an accepted task must be counted in _running before its thread exists (increment in invoke, dominating the thread's "
               "creation) and un-counted by the thread only after the task ran (release): counted later, join() / the destructor can "
               "see 0 between acceptance and the first instruction of the thread and return with the task not yet run",
               site="AlwaysUseNewThreadExecutor::invoke@counted-from-acceptance")
    for fn in fb.find(pred=lambda f: f.record == ANT and f.name == "join" and f.has_cfg()):
        n7 += 1
        ig = IG(fn, inline=nin)
        live = ig.live_nodes()
        loads = [a for a in A.atomic_ops(ig, live) if a.op == "load" and strip_cast(a.obj).get("n") == "_running"]
        lids = set(a.node.id for a in loads)

        def zero(atom, pol, lab):
            c = L.effective_cmp(atom, pol)
            if c is None:
                return False
            return c[0] in ("==", "<=") and const_val(c[2]) == 0 and any(ig.ev_of(o) is not None and ig.ev_of(o).id in lids for o in ig.origins(c[1]))
        ze = L.cond_edges(ig, zero, live)
        ctx.ob("C07.R7b", L.short(fn), bool(loads) and all(A.acquires(a.order) for a in loads) and bool(ze) and
               ig.exit.id not in ig.reach([ig.entry], removed_edges=ze), fn.loc,
               "join() must return only on an acquire observation of _running == 0", site="AlwaysUseNewThreadExecutor::join@zero")
    for fn in fb.find(pred=lambda f: f.record == ANT and f.kind == "dtor" and f.has_cfg()):
        n7 += 1
        ctx.ob("C07.R7c", L.short(fn), any(True for _ in L.fn_calls(fn, name="join")), fn.loc, "the destructor must join")
    ctx.floor("C07.R7", n7, 3, "AlwaysUseNewThreadExecutor invoke / join / destructor")

    # ---------------------------------------------------------------- R4 execute / submit
    n4 = 0
    for fn in fb.find(pred=lambda f: f.record == "babylon::Executor" and f.name == "execute" and f.has_cfg() and not f.d.get("coroutine")):
        ig = IG(fn, inline=nin)
        live = ig.live_nodes()
        invk = list(L.call_nodes(ig, callee_re=r"^babylon::(Basic)?Executor::invoke$", live=live))
        if not invk:
            continue
        n4 += 1
        ids = set(n.id for n in invk)

        def refused(atom, pol, lab):
            c = L.effective_cmp(atom, pol)
            return c is not None and c[0] == "!=" and const_val(c[2]) == 0 and \
                any(ig.ev_of(o) is not None and ig.ev_of(o).id in ids for o in ig.origins(c[1]))
        re_ = L.cond_edges(ig, refused, live)
        inval = [n for n in ig.ev_nodes() if n.id in live and n.ev["e"] == "call" and n.ev.get("name") == "operator=" and
                 strip_cast(n.ev.get("this", {})).get("n") == "future"]
        ok = len(invk) == 1 and bool(re_) and bool(inval) and all(x.id not in ig.reach([ig.entry], removed_edges=re_) for x in inval)
        for (s, d) in re_:
            if ig.exit.id in ig.reach([ig.nodes[d]], removed=inval):
                ok = False
        for x in inval:
            src = ig.ev_of(strip_cast(ig.rarg(x, 0)))
            ok = ok and src is not None and src.ev["e"] == "ctor" and not src.ev.get("args")
        ctx.ob("C07.R4a", L.short(fn), ok, fn.loc,
               "execute must hand out an invalid (default) future exactly when invoke refused the task")
    ctx.floor("C07.R4a", n4, 3, "Executor::execute instances (plain callables)")
    n4 = 0
    for fn in fb.find(pred=lambda f: f.record == "babylon::Executor" and f.name == "submit" and f.has_cfg() and
                      "Task<" in f.sig and not f.d.get("coroutine")):
        ig = IG(fn, inline=nin)
        live = ig.live_nodes()
        invk = list(L.call_nodes(ig, callee_re=r"^babylon::(Basic)?Executor::invoke$", live=live))
        if not invk:
            continue
        n4 += 1
        ids = set(n.id for n in invk)

        def refused(atom, pol, lab):
            c = L.effective_cmp(atom, pol)
            return c is not None and c[0] == "!=" and const_val(c[2]) == 0 and \
                any(ig.ev_of(o) is not None and ig.ev_of(o).id in ids for o in ig.origins(c[1]))
        re_ = L.cond_edges(ig, refused, live)
        des = list(L.call_nodes(ig, name="destroy", live=live))
        ok = bool(re_) and bool(des) and all(x.id not in ig.reach([ig.entry], removed_edges=re_) for x in des)
        for (s, d) in re_:
            if ig.exit.id in ig.reach([ig.nodes[d]], removed=des):
                ok = False
        sete = list(L.call_nodes(ig, name="set_executor", live=live))
        ok = ok and bool(sete) and all(ig.dominated_by(i, sete) for i in invk)
        ctx.ob("C07.R4b", L.short(fn), ok, fn.loc,
               "a coroutine task must be bound to this executor before it is handed to invoke, and its frame destroyed "
               "exactly when invoke refused it")
    ctx.floor("C07.R4b", n4, 1, "Executor::submit(CoroutineTask) instances")
    for fn in fb.find(pred=lambda f: f.record == POOL and f.name == "invoke" and f.has_cfg()):
        ok = any(True for _ in L.fn_calls(fn, name="enqueue_task")) and "babylon::BasicExecutor::invoke" in (fn.d.get("overrides") or [])
        ctx.ob("C07.R4c", L.short(fn), ok, fn.loc, "the pool's invoke must override BasicExecutor::invoke and enqueue the task")

    # ---------------------------------------------------------------- R5 pairing
    sites = L.queue_sites(fb, r"^babylon::ThreadPoolExecutor$")
    ctx.floor("C07.R5", len(sites), 6, "pool queue call sites")

    def single_producer_ok(field, pushes):
        # the CONCURRENT=false push must sit behind is_running_in() and go through .local()
        good = True
        for s in pushes:
            if s["concurrent"] is not False:
                continue
            fn = s["fn"]
            ig = IG(fn, inline=nin)
            live = ig.live_nodes()
            n = ig.frames[0].ev_node.get(s["ev"]["id"])
            rin = set(x.id for x in L.call_nodes(ig, name="is_running_in", live=live))
            ge = L.result_edges(ig, rin, True, live)
            thr = L.deep_find(ig, ig.rthis(n), lambda d: d.get("k") == "e" and ig.ev_of(d) is not None and
                              ig.ev_of(d).ev.get("name") == "local")
            good = good and bool(ge) and n.id not in ig.reach([ig.entry], removed_edges=ge) and thr is not None
        return good and len(set(s["fn"].key for s in pushes if s["concurrent"] is False)) == 1
    L.check_queue_pairing(ctx, "C07.R5", sites, single_producer_ok=single_producer_ok)


SWEEP = ["test_executor.cpp"]


# name anchors (validated by tools/rename_sweep.py; a vanished name is exit 2, see core.check_anchor_names)
ANCHORS = {
    '_balance_thread': ['^babylon::ThreadPoolExecutor(<|$)'],
    'enqueue_task': ['^babylon::ThreadPoolExecutor(<|$)'],
    'keep_execute': ['^babylon::ThreadPoolExecutor(<|$)'],
    'local': ['^babylon::EnumerableThreadLocal(<|$)'],
    'try_pop': ['^babylon::ConcurrentBoundedQueue(<|$)'],
}
