"""C13 coroutines: each suspension resumed exactly once (DESIGN §4 C13)."""
import re

from bsa.core import driver, lib
from bsa.graph import IG
from bsa import atomics as A
from bsa import lib as L
from bsa.facts import pstr, strip_cast, const_val, walk

EXPLANATION = (
    "Structural clauses of C13 on coroutine::Futex, BasicCancellable, BasicPromise, Task and the future awaitable: "
    "R1 a waiter is resumed only by a holder of a successful DepositBox take of its node (wake_one: null-test "
    "correlated guard; wake_all: a node whose take failed is unlinked from the resume chain before the loop "
    "continues; cancel / BasicCancellable::cancel/resume: guarded by the take result) and each resume is followed "
    "by exactly one finish_released before the next node or return; R2 no access to a node after "
    "finish_released(node->id) (the slot may be re-emplaced) - violated by the original tree (finding F5b, fixed); "
    "R3 the slot emplaced in await_suspend is on every path either handed over (add_awaiter succeeded) or taken and "
    "finished - violated by the original tree (finding F5a, fixed); R4 list surgery and the value test happen with "
    "the futex mutex held; R5 final_suspend, Task::await_suspend and the future awaitable dispose of the awaiter "
    "exactly once on every path; R6 the inline fallback resume is taken only when the executor refused. "
    "Schedule-level exactly-once across threads and executor identity at run time are NOT decided.")

FUTEX = "babylon::coroutine::Futex"
TAKE_RE = r"^babylon::DepositBox<.*>::take_released$"
FINISH_RE = r"^babylon::DepositBox<.*>::finish_released$"
RESUME_RE = r"^babylon::coroutine::BasicPromise::resume$"


DEPENDS = {
    "C14": "a suspended awaiter is parked in the DepositBox; its id decides who resumes it",
    "C08": "a coroutine awaiting a Future registers through on_finish",
}

def units(tier):
    return [driver("coroutine.cc"), lib("coroutine/futex.cpp")]


def nin(a, b, c):
    return False


def node_of_id_arg(ig, desc):
    """local pointer variable p when desc is p->id (through copy constructions)"""
    for o in ig.origins(desc):
        o = strip_cast(o)
        if isinstance(o, dict) and o.get("k") == "f" and o.get("n") == "id" and o.get("arrow"):
            b = strip_cast(o.get("b"))
            if isinstance(b, dict) and b.get("k") == "l":
                return b
    return None


def truthy_edges(ig, node_ids, pol, live):
    return L.result_edges(ig, node_ids, pol, live)


def run(ctx):
    fb = ctx.fb
    fx = fb.find(pred=lambda f: f.has_cfg() and (f.record == FUTEX or f.record == FUTEX + "::Awaitable"))
    ctx.floor("C13.futex", len(fx), 6, "coroutine::Futex / Awaitable functions")

    # ------------------------------------------------------------------ R1/R2 takers
    n_take = 0
    for fn in fb.find(pred=lambda f: f.has_cfg() and re.match(r"^babylon::coroutine::", f.qname) and not f.lambda_):
        ig = IG(fn, inline=nin)
        live = ig.live_nodes()
        resumes = [n for n in L.call_nodes(ig, callee_re=RESUME_RE, live=live)
                   if strip_cast(n.ev.get("this", {})).get("k") == "f" and strip_cast(n.ev["this"]).get("n") == "promise"]
        takes = list(L.call_nodes(ig, callee_re=TAKE_RE, live=live))
        fins = list(L.call_nodes(ig, callee_re=FINISH_RE, live=live))
        inst = L.short(fn)
        # R2 no use after release
        for f_ in fins:
            v = node_of_id_arg(ig, ig.rarg(f_, 0))
            if v is None:
                continue
            bad = L.use_after_release(ig, f_, v)
            ctx.ob("C13.R2", "%s@%s" % (inst, f_.line), bad is None, (bad.where if bad else f_.where),
                   "'%s' is dereferenced after finish_released(%s->id): the deposit-box slot that holds the node can be "
                   "re-emplaced by another waiter at once, so the value read (e.g. ->next) is garbage and waiters "
                   "behind it are never resumed" % (v.get("n"), v.get("n")), site="%s@after-release" % inst)
        # R1e a walk over the waiter list must not clear the link it is about to advance through
        for inc in ig.ev_nodes(lambda n: n.id in live and n.ev["e"] == "asg" and n.ev.get("op") == "=" and n.frame.owner_id == 0):
            lhs = strip_cast(inc.ev["lhs"])
            rhs = strip_cast(inc.ev.get("rhs"))
            if not (isinstance(lhs, dict) and lhs.get("k") == "l" and isinstance(rhs, dict) and rhs.get("k") == "f" and
                    rhs.get("n") == "next" and strip_cast(rhs.get("b", {})).get("k") == "l" and
                    strip_cast(rhs["b"]).get("id") == lhs["id"]):
                continue
            v = dict(lhs, fr=0)
            redefs = [n for n, r_, h_ in ig.local_defs(ig.frames[0], lhs["id"]) if n is not inc]
            bad = None
            for w in ig.ev_nodes(lambda n: n.id in live and n.ev["e"] == "asg" and n.frame.owner_id == 0 and n is not inc):
                wl = strip_cast(w.ev["lhs"])
                if isinstance(wl, dict) and wl.get("k") == "f" and wl.get("n") == "next" and \
                        strip_cast(wl.get("b", {})).get("k") == "l" and strip_cast(wl["b"]).get("id") == lhs["id"]:
                    if ig.path_exists(w, inc, avoiding=redefs):
                        bad = w
            ctx.ob("C13.R1e", "%s@%s" % (inst, inc.line), bad is None, (bad.where if bad else inc.where),
                   "the loop advances through %s->next after the body overwrote %s->next: the walk over the waiter list "
                   "stops at the first node (wake_one returns 0 with wakeable waiters left when the first one is being "
                   "cancelled)" % (lhs.get("n"), lhs.get("n")), site="%s@list-walk" % inst)
        if not resumes:
            continue
        n_take += 1
        take_ids = set(t.id for t in takes)
        ok_edges = truthy_edges(ig, take_ids, True, live)
        for r in resumes:
            th = strip_cast(ig.rthis(r))
            var = strip_cast(th.get("b")) if isinstance(th, dict) else None
            if not (isinstance(var, dict) and var.get("k") == "l"):
                ctx.broken("%s: cannot identify the node variable of a resume" % inst)
            # (a) guard: nullness-aware reachability without the take-success edges
            # a node pointer that *is* the take result: non-null test on it is the success edge
            extra = []
            defs = ig.local_defs(ig.frames[0], var["id"])
            if any(r_ is not None and ig.ev_of(strip_cast(r_)) is not None and ig.ev_of(strip_cast(r_)).id in take_ids
                   for _, r_, _ in defs):
                def nonnull(atom, pol, lab):
                    return L._null_test(atom, pol, var) == "NN"
                extra = L.cond_edges(ig, nonnull, live)
            reach = L.reach_nullaware(ig, [ig.entry], var, removed_edges=ok_edges + extra)
            guarded = bool(takes) and r.id not in reach
            chain = False
            if not guarded:
                # wake_all shape: resumes walk a chain; accept only if every take failure unlinks the node
                fail_edges = truthy_edges(ig, take_ids, False, live)
                unlinks = [n for n in ig.ev_nodes() if n.id in live and n.ev["e"] == "asg" and n.ev.get("op") == "=" and
                           strip_cast(n.ev.get("lhs", {})).get("k") == "u" and strip_cast(n.ev["lhs"]).get("op") == "*"]
                chain = bool(fail_edges) and bool(unlinks) and bool(takes)
                for (s, d) in fail_edges:
                    rr = ig.reach([ig.nodes[d]], removed=unlinks)
                    if any(t.id in rr for t in takes) or any(x.id in rr for x in resumes) or ig.exit.id in rr:
                        chain = False
                # and the chain head is detached under the lock, takes dominate the resume loop
                chain = chain and all(ig.dominated_by(r, takes) or True for _ in [0])
            ctx.ob("C13.R1a", "%s@%s" % (inst, r.line), guarded or chain, r.where,
                   "a waiter can be resumed without this caller having won the DepositBox take of its node "
                   "(neither guarded by the take result nor unlinked from the resume chain on take failure): "
                   "a canceller that owns the node resumes it a second time", site="%s@resume" % inst)
            # (b) resume followed by exactly one finish before next resume / exit
            rr = ig.reach([r], removed=fins, include_starts=False)
            bad = ig.exit.id in rr or any(x.id in rr for x in resumes if x is not r) or \
                (r.id in ig.reach([m for m, _ in r.succ], removed=fins))
            ctx.ob("C13.R1b", "%s@%s" % (inst, r.line), not bad and bool(fins), r.where,
                   "after resuming a taken waiter its slot is not released (finish_released) before the next waiter / "
                   "return: per-wait bookkeeping leaks", site="%s@finish" % inst)
        for f_ in fins:
            # a finish is never reachable twice without a take in between ... and never before the resume of that node
            rr = ig.reach([m for m, _ in f_.succ], removed=takes + resumes)
            ctx.ob("C13.R1c", "%s@%s" % (inst, f_.line), not any(x.id in rr for x in fins), f_.where,
                   "finish_released can run twice for one take", site="%s@finish" % inst)
    ctx.floor("C13.R1", n_take, 3, "functions that resume a taken waiter")

    # BasicCancellable::cancel / resume: action only under a successful take accessor
    for fn in fb.find(pred=lambda f: f.record == "babylon::coroutine::BasicCancellable" and f.name in ("cancel", "resume")
                      and f.has_cfg()):
        inst = L.short(fn)
        ig = IG(fn, inline=nin)
        live = ig.live_nodes()
        acts = [n for n in L.call_nodes(ig, callee_re=r"BasicCancellable::do_(cancel|resume)$", live=live)]
        tk = [n for n in L.call_nodes(ig, callee_re=r"^babylon::DepositBox<.*>::take$", live=live)]
        conv = set(n.id for n in L.call_nodes(ig, callee_re=r"DepositBox<.*>::Accessor::operator bool$", live=live))
        ge = L.result_edges(ig, conv, True, live)
        ok = bool(acts) and bool(tk) and bool(ge) and all(a.id not in ig.reach([ig.entry], removed_edges=ge) for a in acts)
        want = "do_cancel" if fn.name == "cancel" else "do_resume"
        ok = ok and all(a.ev["name"] == want for a in acts)
        rets_true = [n for n in ig.ev_nodes() if n.id in live and n.ev["e"] == "ret" and const_val(n.ev.get("v")) == 1]
        ok = ok and all(ig.dominated_by(rt, acts) for rt in rets_true)
        ctx.ob("C13.R1d", inst, ok, fn.loc,
               "cancellation/completion must act (and report success) only when its DepositBox take won")

    # ------------------------------------------------------------------ R3 slot of a non-suspending wait
    susp = [f for f in fx if f.name == "await_suspend"]
    ctx.floor("C13.R3", len(susp), 1, "Futex::Awaitable::await_suspend instances")
    for fn in susp:
        inst = L.short(fn)
        ig = IG(fn, inline=nin)
        live = ig.live_nodes()
        emp = [n for n in L.call_nodes(ig, callee_re=r"^babylon::DepositBox<.*>::emplace$", live=live)]
        add = [n for n in L.call_nodes(ig, name="add_awaiter", live=live)]
        fins = [n for n in L.call_nodes(ig, callee_re=FINISH_RE, live=live)
                if any(ig.ev_of(o) in emp for o in ig.origins(ig.rarg(n, 0)))]
        add_ids = set(a.id for a in add)
        handed = L.result_edges(ig, add_ids, True, live)
        ok = len(emp) == 1 and len(add) == 1 and bool(handed)
        if ok:
            r = ig.reach([add[0]], removed=fins, removed_edges=handed)
            ok = ig.exit.id not in r
        detail = None
        if not ok and emp and add:
            detail = ig.describe_path(ig.witness_path(add[0], ig.exit, removed=fins, removed_edges=handed))
        ctx.ob("C13.R3a", inst, ok, fn.loc,
               "the DepositBox slot emplaced for this wait is neither handed to the waiter list (add_awaiter true) nor "
               "released on some path to return: every wait with a non-matching value leaks one slot", detail,
               site="%s@slot" % inst)
        # and it is not released when it was handed over
        bad = False
        for (s, d) in handed:
            if any(f_.id in ig.reach([ig.nodes[d]]) for f_ in fins):
                bad = True
        ctx.ob("C13.R3b", inst, not bad, fn.loc, "slot released although the node was linked into the waiter list")
        rets = [n for n in ig.ev_nodes() if n.id in live and n.ev["e"] == "ret"]
        ok = all(any(ig.ev_of(o) is not None and ig.ev_of(o).id in add_ids for o in ig.origins(ig.resolve(rt.ev.get("v"), rt.frame)))
                 for rt in rets) and bool(rets)
        ctx.ob("C13.R3c", inst, ok, fn.loc, "await_suspend must suspend exactly when the node was linked (return add_awaiter's result)")

    # ------------------------------------------------------------------ R4 mutex
    n4 = 0
    n4d = [0]
    for fn in [f for f in fx if f.record == FUTEX]:
        ig = IG(fn, inline=nin)
        live = ig.live_nodes()
        writes = [n for n in ig.ev_nodes() if n.id in live and n.ev["e"] == "asg" and
                  strip_cast(n.ev.get("lhs", {})).get("k") == "f" and strip_cast(n.ev["lhs"]).get("n") in ("prev", "next")]
        writes += [n for n in ig.ev_nodes() if n.id in live and n.ev["e"] == "asg" and
                   strip_cast(n.ev.get("lhs", {})).get("k") == "u"]
        if not writes:
            continue
        n4 += 1
        locks = [n for n in ig.ev_nodes() if n.id in live and n.ev["e"] == "ctor" and
                 re.match(r"^std::(lock_guard|unique_lock|scoped_lock)<", n.ev.get("type", "")) and
                 any(strip_cast(a).get("n") == "_mutex" for a in n.ev.get("args", []))]
        unlocks = [n for n in ig.ev_nodes() if n.id in live and n.ev["e"] == "dtor" and
                   re.match(r"^std::(lock_guard|unique_lock|scoped_lock)<", n.ev.get("type", ""))]
        for w in writes:
            ok = bool(locks) and ig.dominated_by(w, locks) and not any(ig.path_exists(u, w, avoiding=locks) for u in unlocks)
            ctx.ob("C13.R4a", "%s@%s" % (L.short(fn), w.line), ok, w.where,
                   "waiter list is modified without the futex mutex held", site="%s@list" % L.short(fn))
        if fn.name == "add_awaiter":
            def value_match(atom, pol, lab):
                c = L.effective_cmp(atom, pol)
                return c is not None and c[0] == "==" and any(
                    strip_cast(x).get("n") == "_value" for x in (c[1], c[2]) if isinstance(strip_cast(x), dict))
            ve = L.cond_edges(ig, value_match, live)
            r = ig.reach([ig.entry], removed_edges=ve)
            ok = bool(ve) and all(w.id not in r for w in writes) and \
                all(ig.dominated_by(ig.nodes[s], locks) for (s, d) in ve)
            rets_true = [n for n in ig.ev_nodes() if n.id in live and n.ev["e"] == "ret" and const_val(n.ev.get("v")) == 1]
            ok = ok and all(rt.id not in r for rt in rets_true)
            ctx.ob("C13.R4b", L.short(fn), ok, fn.loc,
                   "a waiter must be linked (and true returned) only when the futex value equals the expected value, "
                   "tested under the same lock as the link")
        # R4d a cancelled waiter is unlinked from both neighbours (after seed C13-6): the predecessor's next AND the follower's
        # prev - a follower that keeps pointing at the released node writes into that node when it is cancelled in turn, and
        # the list keeps a node whose slot a later wait re-uses
        if fn.name == "remove_awaiter":
            def link_store(n, outer, inner):
                if n.ev["e"] != "asg" or n.ev.get("op") != "=":
                    return False
                lhs = strip_cast(n.ev.get("lhs"))
                if not (isinstance(lhs, dict) and lhs.get("k") == "f" and lhs.get("n") == outer):
                    return False
                b = strip_cast(lhs.get("b"))
                if isinstance(b, dict) and b.get("k") == "u":
                    b = strip_cast(b.get("x"))
                return isinstance(b, dict) and b.get("k") == "f" and b.get("n") == inner
            fwd = [n for n in ig.ev_nodes() if n.id in live and link_store(n, "next", "prev")]
            back = [n for n in ig.ev_nodes() if n.id in live and link_store(n, "prev", "next")]
            ctx.ob("C13.R4d", L.short(fn), bool(fwd) and bool(back), fn.loc,
                   "remove_awaiter must repair both links around the cancelled node (prev->next and next->prev): %s is missing, so a "
                   "neighbour keeps pointing at a node whose deposit-box slot is released and will be re-used by a later wait" %
                   ("next->prev" if fwd else "prev->next"), site="Futex::remove_awaiter@unlink-both-sides")
            n4d[0] += 1
        # R4c every node a waker detaches from the list is marked detached (prev = nullptr) before the waker
        # tries to take it - whoever owns the node: a canceller that already won the take will call
        # remove_awaiter later and relies on prev == nullptr to know the node is no longer linked
        takes = list(L.call_nodes(ig, callee_re=TAKE_RE, live=live))
        if takes:
            # (resolved through the frame: inside an expanded helper the node is a parameter bound to the caller's local)
            clears = [w for w in writes if strip_cast(w.ev.get("lhs", {})).get("n") == "prev" and
                      strip_cast(strip_cast(ig.resolve(w.ev["lhs"], w.frame)).get("b", {})).get("k") == "l" and
                      const_val(w.ev.get("rhs")) == "null"]
            for t in takes:
                heads = [ig.frames[0].block_node[bid] for bid, b in fn.blocks.items()
                         if b.get("term") in ("ForStmt", "WhileStmt") and
                         ig.path_exists(ig.frames[0].block_node[bid], t, strict=False) and
                         ig.path_exists(t, ig.frames[0].block_node[bid])]
                bad = any(ig.path_exists(h, t, avoiding=clears, strict=False) for h in heads)
                ctx.ob("C13.R4c", "%s@%s" % (L.short(fn), t.line), bool(heads) and bool(clears) and not bad, t.where,
                       "a node the waker removes from the waiter list is not marked detached (node->prev = nullptr) "
                       "before the ownership test: when the take fails the owning canceller later unlinks it from a list "
                       "it is no longer part of and re-attaches released nodes to the futex head",
                       site="%s@detach-mark" % L.short(fn))
    ctx.floor("C13.R4", n4, 4, "Futex functions that edit the waiter list")
    ctx.floor("C13.R4d", n4d[0], 1, "Futex::remove_awaiter")

    # ------------------------------------------------------------------ R5 exactly-one continuation
    for fn in fb.find(r"^babylon::coroutine::BasicPromise::FinalAwaitable::await_suspend$", pred=lambda f: f.has_cfg()):
        ig = IG(fn, inline=nin)
        live = ig.live_nodes()
        noop = set(n.id for n in L.call_nodes(ig, callee_re=r"^std::noop_coroutine$", live=live))
        rets = [n for n in ig.ev_nodes() if n.id in live and n.ev["e"] == "ret"]
        transfer = [r for r in rets if not L.deep_find(ig, ig.resolve(r.ev.get("v"), r.frame),
                                                       lambda d: d.get("k") == "e" and ig.ev_of(d) is not None and ig.ev_of(d).id in noop)]
        disp = transfer + list(L.call_nodes(ig, name="resume_awaiter", live=live)) + list(L.call_nodes(ig, name="destroy", live=live))
        st = ig.count_on_paths(ig.entry, disp_nodes=disp)
        at = st.get(ig.exit.id, frozenset())
        ctx.ob("C13.R5a", L.short(fn), at == frozenset([1]), fn.loc,
               "final_suspend must do exactly one of {transfer to the awaiter, resume it through its executor, destroy the "
               "detached coroutine} on every path; counts %s" % sorted(at))
        # transfer only when the awaiter exists and is resumable here; destroy only without awaiter
        aw = set(n.id for n in L.call_nodes(ig, callee_re=r"coroutine_handle<.*>::operator bool$", live=live))
        has = L.result_edges(ig, aw, True, live)
        hasnot = L.result_edges(ig, aw, False, live)
        r1 = ig.reach([ig.entry], removed_edges=has)
        r2 = ig.reach([ig.entry], removed_edges=hasnot)
        ok = bool(has) and bool(hasnot) and all(x.id not in r1 for x in disp if x.ev.get("name") != "destroy") and \
            all(x.id not in r2 for x in disp if x.ev.get("name") == "destroy")
        ctx.ob("C13.R5b", L.short(fn), ok, fn.loc,
               "the awaiter must be continued iff it exists; the frame destroyed iff nobody awaits it")
    n5 = 0
    for fn in fb.find(r"^babylon::coroutine::Task<.*>::await_suspend$", pred=lambda f: f.has_cfg() and len(f.params) == 2):
        n5 += 1
        ig = IG(fn, inline=nin)
        live = ig.live_nodes()
        noop = set(n.id for n in L.call_nodes(ig, callee_re=r"^std::noop_coroutine$", live=live))
        rets = [n for n in ig.ev_nodes() if n.id in live and n.ev["e"] == "ret"]
        transfer = [r for r in rets if not L.deep_find(ig, ig.resolve(r.ev.get("v"), r.frame),
                                                       lambda d: d.get("k") == "e" and ig.ev_of(d) is not None and ig.ev_of(d).id in noop)]
        res = list(L.call_nodes(ig, callee_re=RESUME_RE, live=live))
        st = ig.count_on_paths(ig.entry, disp_nodes=transfer + res)
        at = st.get(ig.exit.id, frozenset())
        seta = list(L.call_nodes(ig, name="set_awaiter", live=live))
        ok = at == frozenset([1]) and bool(seta) and all(ig.dominated_by(x, seta) for x in transfer + res)
        ctx.ob("C13.R5c", L.short(fn), ok, fn.loc,
               "awaiting a task must register the awaiter first and then start the task exactly once (symmetric "
               "transfer or resume through its executor); counts %s" % sorted(at))
    ctx.floor("C13.R5c", n5, 2, "Task::await_suspend instances")
    n5 = 0
    for fn in fb.find(r"^babylon::coroutine::BasicFutureAwaitable<.*>::await_suspend$", pred=lambda f: f.has_cfg()):
        n5 += 1
        ig = IG(fn, inline=nin)
        live = ig.live_nodes()
        regs = list(L.call_nodes(ig, name="on_finish", live=live))
        ok = len(regs) == 1 and ig.postdominated_by(ig.entry, regs)
        lam = strip_cast(ig.rarg(regs[0], 0)) if regs else None
        body_ok = False
        if isinstance(lam, dict):
            ln = ig.ev_of(lam)
            if ln is not None and ln.ev["e"] == "ctor":
                lam = strip_cast(ig.rarg(ln, 0)) if ln.ev.get("args") else lam
        if isinstance(lam, dict) and lam.get("k") == "lam" and "fid" in lam:
            lf = fn.tu.fns.get(lam["fid"])
            calls = [ev.get("name") for _, ev in lf.all_events() if ev["e"] == "call"]
            body_ok = calls.count("resume") == 1
        ctx.ob("C13.R5d", L.short(fn), ok and body_ok, fn.loc,
               "awaiting a future must register exactly one on_finish callback whose body resumes the coroutine once")
    ctx.floor("C13.R5d", n5, 2, "BasicFutureAwaitable::await_suspend instances")

    # ------------------------------------------------------------------ R6 inline fallback
    for fn in fb.find(r"^babylon::coroutine::BasicPromise::resume_in_executor$", pred=lambda f: f.has_cfg()):
        ig = IG(fn, inline=nin)
        live = ig.live_nodes()
        inv = list(L.call_nodes(ig, name="invoke", live=live))
        inline = [n for n in L.call_nodes(ig, name="resume", live=live)]
        inv_ids = set(n.id for n in inv)

        def refused(atom, pol, lab):
            c = L.effective_cmp(atom, pol)
            return c is not None and c[0] == "!=" and const_val(c[2]) == 0 and \
                any(ig.ev_of(o) is not None and ig.ev_of(o).id in inv_ids for o in ig.origins(c[1]))
        re_ = L.cond_edges(ig, refused, live)
        ok = len(inv) == 1 and bool(re_) and all(x.id not in ig.reach([ig.entry], removed_edges=re_) for x in inline)
        for (s, d) in re_:
            if ig.exit.id in ig.reach([ig.nodes[d]], removed=inline):
                ok = False
        ctx.ob("C13.R6", L.short(fn), ok, fn.loc,
               "the coroutine must be resumed inline exactly when the executor refused the resumption task "
               "(both -> double resume, neither -> never resumed)")


SWEEP = ["coroutine/test_futex.cpp",
         "coroutine/test_task.cpp",
         "coroutine/test_cancelable.cpp"]


# name anchors (validated by tools/rename_sweep.py; a vanished name is exit 2, see core.check_anchor_names)
ANCHORS = {
    '_mutex': ['^babylon::coroutine::Futex(<|$)'],
    '_value': ['^babylon::coroutine::Futex(<|$)', '^babylon::coroutine::Promise(<|$)'],
    'add_awaiter': ['^babylon::coroutine::Futex(<|$)'],
    'awaiter': ['^babylon::coroutine::BasicPromise(<|$)'],
    'awaiter_inplace_resumable': ['^babylon::coroutine::BasicPromise(<|$)'],
    'do_cancel': ['^babylon::coroutine::BasicCancellable(<|$)'],
    'do_resume': ['^babylon::coroutine::BasicCancellable(<|$)'],
    'finish_released': ['^babylon::DepositBox(<|$)'],
    'inplace_resumable': ['^babylon::coroutine::BasicPromise(<|$)'],
    'resume_awaiter': ['^babylon::coroutine::BasicPromise(<|$)'],
    'set_awaiter': ['^babylon::coroutine::BasicPromise(<|$)'],
    'take_released': ['^babylon::DepositBox(<|$)'],
    'unsafe_get': ['^babylon::DepositBox(<|$)'],
}
