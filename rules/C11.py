"""C11 serialization: writer/reader/size agreement, error discipline, end-of-input predicate (DESIGN §4 C11)."""
import re

from bsa.core import driver, lib
from bsa.graph import IG
from bsa import atomics as A
from bsa import lib as L
from bsa.facts import pstr, strip_cast, const_val, walk

EXPLANATION = (
    "Structural clauses of C11 over every SerializeTraits specialisation the driver instantiates (all scalars, enum, "
    "string, vector/list/array/set/map, unique_ptr/shared_ptr, aggregates with/without base and with cached size, "
    "ReusableVector), in the NDEBUG and the debug configuration: R1 the kinds of output operations in serialize agree "
    "with the size terms of calculate_serialized_size (varint32<->VarintSize32, fixed32<->4, raw<->size(), "
    "packed<->packed, field<->field ...); R2 they agree with the input operations of deserialize, and the trait's "
    "WIRE_TYPE is the one its write operations imply; SerializationHelper writes tag, then length iff length-delimited, "
    "then payload, and its readers mirror that; R3 the result of every CodedInputStream read in a deserialize path "
    "decides a branch whose failure side returns false (accepted idioms enumerated from the tree), unknown fields are "
    "skipped by wire type 0/1/2/5 and anything else is rejected; R4 every PushLimit is matched by PopLimit of the saved "
    "limit on all paths; R5 a reserve whose argument derives from the input derives from BytesUntilLimit() guarded "
    "'> 0', never from a decoded count; R7 the end-of-input predicate of every element loop is "
    "GetDirectBufferPointer (correct with and without an enclosing limit) - BytesUntilLimit() returns -1 without a "
    "limit and must not decide a loop or feed arithmetic unguarded (violated by the original tree: finding F6, "
    "replayed and fixed). Round-trip value equality, protobuf interoperability on actual bytes and behaviour on each "
    "malformed input are NOT decided.")

TRAIT = re.compile(r"^babylon::(BasicSerializeTraits<babylon::)?SerializeTraits<.*>$")
CIS = r"^google::protobuf::io::CodedInputStream::"
COS = r"^google::protobuf::io::CodedOutputStream::"

W_KIND = {"WriteVarint32": "v32", "WriteVarint64": "v64", "WriteLittleEndian32": "f32", "WriteLittleEndian64": "f64",
          "WriteString": "raw", "WriteRaw": "raw", "WriteVarint32SignExtended": "v64"}
R_KIND = {"ReadVarint32": "v32", "ReadVarint64": "v64", "ReadLittleEndian32": "f32", "ReadLittleEndian64": "f64",
          "ReadString": "raw", "ReadRaw": "raw", "GetDirectBufferPointer": None, "Skip": None}
S_KIND = {"VarintSize32": "v32", "VarintSize64": "v64", "VarintSize32SignExtended": "v64"}
HELPER = {"serialize_packed_field": "packed", "deserialize_packed_field": "packed", "calculate_serialized_size_packed_field": "packed",
          "serialized_size_cached_packed_field": "packed", "serialize_field": "field", "deserialize_field": "field",
          "calculate_serialized_size_field": "field", "serialized_size_cached_field": "field"}
PB_MSG = ("SerializeWithCachedSizes", "SerializeToCodedStream", "ParseFromCodedStream", "MergeFromCodedStream", "ByteSizeLong", "GetCachedSize")
WIRE_OF = {"v32": 0, "v64": 0, "f64": 1, "f32": 5}


def units(tier):
    us = [driver("serialization.cc"), lib("serialization/traits.cpp")]
    us.append(driver("serialization.cc", ndebug=False))
    return us


def nin(a, b, c):
    return False


def wire_type(recs, rec, depth=0):
    r = recs.get(rec)
    if r is None or depth > 3:
        return None
    v = r.get("consts", {}).get("WIRE_TYPE")
    if v is not None:
        return v
    for b in r.get("bases", []):
        v = wire_type(recs, b.get("type"), depth + 1)
        if v is not None:
            return v
    return None


def trait_of(callee):
    m = re.match(r"^babylon::BasicSerializeTraits<(babylon::SerializeTraits<.*>)>::\w+$", callee or "")
    if m:
        return m.group(1)
    m = re.match(r"^(babylon::SerializeTraits<.*>)::\w+$", callee or "")
    return m.group(1) if m else None


TRAIT_CALL = re.compile(r"^babylon::(BasicSerializeTraits<babylon::)?SerializeTraits<.*>::(serialize|deserialize|calculate_serialized_size|serialized_size_cached)$")


UNSIGNED_W = {"unsigned char": 8, "unsigned short": 16, "unsigned int": 32, "unsigned long": 64, "unsigned long long": 64,
              "uint8_t": 8, "uint16_t": 16, "uint32_t": 32, "uint64_t": 64, "size_t": 64, "bool": 8}


def varint_domain(ev, kind):
    """value domain of a varint operation: a value explicitly converted to a narrower unsigned type occupies the same
    bytes whichever of the 32/64-bit entry points handles it (the entry point's own width truncates)"""
    fw = 32 if kind == "v32" else 64
    args = ev.get("args", [])
    a = args[0] if args else None
    cw = None
    while isinstance(a, dict) and a.get("k") == "cast":
        w_ = UNSIGNED_W.get(a.get("t"))
        if w_ is None:
            break
        cw = w_ if cw is None else min(cw, w_)
        a = a.get("x")
    w_ = min(fw, cw) if cw else fw
    return "v32" if w_ <= 32 else "v64"


def kinds_of(fn, table, role):
    out = set()
    for _, ev in fn.all_events():
        if ev["e"] != "call":
            continue
        nm = ev.get("name", "")
        cal = ev.get("callee", "") or ""
        if re.match(COS if role in ("w", "s") else CIS, cal) and nm in table and table[nm]:
            k_ = table[nm]
            if k_ in ("v32", "v64") and role in ("w", "s") and "SignExtended" not in nm:
                k_ = varint_domain(ev, k_)
            out.add(k_)
        elif nm in PB_MSG and "this" in ev:
            # protobuf's own encoder/decoder/sizer for generated messages
            out.add("pbmsg")
        elif cal.startswith("babylon::SerializationHelper::") and nm in HELPER:
            out.add(HELPER[nm])
        elif cal.startswith("babylon::SerializationHelper::") and nm in ("serialize", "deserialize", "calculate_serialized_size", "serialized_size_cached"):
            out.add("member")
        elif TRAIT_CALL.match(cal) and trait_of(cal) != fn.record:
            out.add("nested")
        elif nm in ("serialize", "deserialize", "calculate_serialized_size", "serialized_size_cached") and "this" in ev and \
                not cal.startswith("babylon::Serialize"):
            out.add("member")
    if role == "s":
        for _, ev in fn.all_events():
            if ev["e"] == "ret":
                v = const_val(ev.get("v"))
                if v == 4:
                    out.add("f32")
                if v == 8:
                    out.add("f64")
                rv = strip_cast(ev.get("v"))
                if isinstance(rv, dict) and rv.get("k") == "e":
                    ce = fn.events.get(rv["id"])
                    if ce and ce.get("name") in ("size", "length"):
                        out.add("raw")
    if role == "r":
        names = set(ev.get("name") for _, ev in fn.all_events() if ev["e"] == "call")
        if "GetDirectBufferPointer" in names and ("append" in names or "assign" in names) and not (out - {"raw"}):
            out.add("raw")
    return out


def run(ctx):
    fb = ctx.fb
    recs = fb.records()
    traits = {}
    for fn in fb.find(pred=lambda f: TRAIT.match(f.record or "") and f.has_cfg() and not f.lambda_):
        traits.setdefault(fn.record, {}).setdefault(fn.name, fn)
    ctx.floor("C11.traits", len(traits), 30, "SerializeTraits specialisations")

    BULK_FIXED = re.compile(r"SerializeTraits<(std::vector<(float|double)|(float|double)\[)")
    BOOLS = re.compile(r"SerializeTraits<std::vector<bool")
    n1 = 0
    for rec, fs in sorted(traits.items()):
        ser, des, siz = fs.get("serialize"), fs.get("deserialize"), fs.get("calculate_serialized_size")
        if not (ser and des and siz):
            continue
        n1 += 1
        inst = rec.replace("babylon::", "")[:110]
        w, r, s = kinds_of(ser, W_KIND, "w"), kinds_of(des, R_KIND, "r"), kinds_of(siz, S_KIND, "s")
        if BULK_FIXED.search(rec):
            # little-endian bulk write of a float/double array == a sequence of fixed32/fixed64 (one named exception)
            w = set("packed" if k == "raw" else k for k in w)
            r = set("packed" if k == "raw" else k for k in r)
        if BOOLS.search(rec):
            # a bool is always a one-byte varint: size() bytes == size() packed bools (one named exception)
            s = set("packed" if k == "raw" else k for k in s)
        if "member" in w | r | s:
            ok1 = ("member" in w) == ("member" in s)
            ok2 = ("member" in w) == ("member" in r)
        else:
            ok1, ok2 = (w == s), (w == r)
            if w == {"v32"} and r == {"v64"}:
                ok2 = True      # a 64-bit read of a 32-bit value consumes the same bytes and yields the same value
        ctx.ob("C11.R1", inst, ok1 and bool(w), ser.loc,
               "serialize writes %s but calculate_serialized_size accounts for %s: the predicted size differs from the "
               "bytes produced (length prefixes of enclosing fields become wrong)" % (sorted(w), sorted(s)), site="%s@size" % inst)
        ctx.ob("C11.R2a", inst, ok2 and bool(w), des.loc,
               "serialize writes %s but deserialize reads %s" % (sorted(w), sorted(r)), site="%s@reader" % inst)
        wt = wire_type(recs, rec)
        if wt is not None and w and "member" not in w:
            implied = set(WIRE_OF.get(k, 2) for k in w if k != "nested")
            if "nested" in w:
                # a forwarding trait (smart pointers) has the wire type of the trait it forwards to
                for _, ev in ser.all_events():
                    if ev["e"] == "call" and TRAIT_CALL.match(ev.get("callee", "") or "") and trait_of(ev.get("callee")) != rec:
                        iw = wire_type(recs, trait_of(ev.get("callee")))
                        implied.add(int(iw) if iw is not None else int(wt))
            ctx.ob("C11.R2b", inst, implied == {int(wt)}, ser.loc,
                   "WIRE_TYPE is %s but the write operations %s imply wire type %s: a protobuf peer (and "
                   "consume_unknown_field) would mis-frame this field" % (wt, sorted(w), sorted(implied)))
    ctx.floor("C11.R1", n1, 25, "traits with serialize/deserialize/size triple")

    # ---------------------------------------------------------------- helper framing (SerializationHelper)
    hfns = fb.find(pred=lambda f: f.record == "babylon::SerializationHelper" and f.has_cfg())
    n2 = 0
    for fn in hfns:
        ig = IG(fn, inline=nin)
        live = ig.live_nodes()
        inst = L.short(fn)[:120]
        if fn.name in ("serialize_field", "serialize_packed_field"):
            n2 += 1
            tag = [n for n in L.call_nodes(ig, name="WriteVarint32", live=live)]
            pay = [n for n in ig.ev_nodes() if n.id in live and n.ev["e"] == "call" and
                   TRAIT_CALL.match(n.ev.get("callee", "") or "") and n.ev.get("name") == "serialize"]
            wt = None
            for n in pay:
                wt = wire_type(recs, trait_of(n.ev.get("callee")))
            want = (1 if fn.name == "serialize_field" else 0) + (1 if wt == "2" else 0)
            ok = bool(pay) and len(tag) == want and all(ig.dominated_by(p, tag) for p in pay if tag)
            ctx.ob("C11.R2c", inst, ok, fn.loc,
                   "field framing must be [tag,] [length iff length-delimited,] payload - found %d prefix varints for a "
                   "payload of wire type %s" % (len(tag), wt))
        if fn.name in ("deserialize_field", "deserialize_packed_field"):
            n2 += 1
            pay = [n for n in ig.ev_nodes() if n.id in live and n.ev["e"] == "call" and
                   TRAIT_CALL.match(n.ev.get("callee", "") or "") and n.ev.get("name") == "deserialize"]
            wt = None
            for n in pay:
                wt = wire_type(recs, trait_of(n.ev.get("callee")))
            push = list(L.call_nodes(ig, name="PushLimit", live=live))
            pop = list(L.call_nodes(ig, name="PopLimit", live=live))
            if wt == "2":
                ok = len(push) == 1 and len(pop) == 1 and all(ig.dominated_by(p, push) for p in pay) and \
                    ig.postdominated_by(push[0], pop) and \
                    any(ig.ev_of(o) is push[0] for o in ig.origins(ig.rarg(pop[0], 0)))
                # the limit is the length decoded by a ReadVarint32 into a local (whether that read is checked is R3a's business)
                if push:
                    a = ig.rarg(push[0], 0)
                    lens = [n for n in ig.ev_nodes() if n.id in live and n.ev["e"] == "call" and n.ev.get("name") == "ReadVarint32"]
                    ok = ok and bool(lens) and any(
                        isinstance(strip_cast(x), dict) and strip_cast(x).get("k") == "u" and strip_cast(x).get("op") == "&" and
                        L.deep_find(ig, a, lambda d, x=x: d.get("k") == "l" and d.get("id") == strip_cast(strip_cast(x).get("x")).get("id")) is not None
                        for ln in lens for x in ln.ev.get("args", [])) and all(ig.dominated_by(push[0], [ln]) for ln in lens)
                ctx.ob("C11.R4", inst, ok, fn.loc,
                       "a length-delimited payload must be parsed between PushLimit(decoded length) and "
                       "PopLimit(saved) on every path (an unbalanced limit corrupts the framing of everything that follows)")
            else:
                ctx.ob("C11.R4", inst, not push and not pop and bool(pay), fn.loc, "a fixed-width payload must not be length-framed")
    ctx.floor("C11.R2c", n2, 30, "SerializationHelper framing instances")

    # ---------------------------------------------------------------- size helpers mirror the writers' framing
    wt_of_T = {}
    for fn in hfns:
        if fn.name in ("serialize_field", "serialize_packed_field", "deserialize_field", "deserialize_packed_field") and fn.d.get("targl"):
            for _, ev in fn.all_events():
                if ev["e"] == "call" and TRAIT_CALL.match(ev.get("callee", "") or ""):
                    w_ = wire_type(recs, trait_of(ev.get("callee")))
                    if w_ is not None:
                        wt_of_T[fn.d.get("targl")[0]] = w_
    n1c = 0
    for fn in hfns:
        if fn.name not in ("calculate_serialized_size_field", "serialized_size_cached_field",
                           "calculate_serialized_size_packed_field", "serialized_size_cached_packed_field"):
            continue
        ig = IG(fn, inline=nin)
        live = ig.live_nodes()
        inst = L.short(fn)[:120]
        wt = wt_of_T.get(fn.d.get("targl")[0]) if fn.d.get("targl") else None
        if wt is None:
            continue
        n1c += 1
        tagged = "packed" not in fn.name
        rets = [n for n in ig.ev_nodes() if n.id in live and n.ev["e"] == "ret" and const_val(n.ev.get("v")) != 0]
        vs = list(L.call_nodes(ig, name="varint_size", live=live))
        ok = bool(rets)
        why = ""
        for r_ in rets:
            v = strip_cast(r_.ev.get("v"))
            if not (isinstance(v, dict) and v.get("k") == "l"):
                ok, why = False, "the result is not the accumulated local"
                continue
            adds, base = [], []
            for n in ig.ev_nodes(lambda n: n.id in live and n.ev["e"] in ("asg", "decl")):
                tgt = n.ev.get("lhs") if n.ev["e"] == "asg" else {"k": "l", "id": n.ev.get("id")}
                tgt = strip_cast(tgt)
                if not (isinstance(tgt, dict) and tgt.get("k") == "l" and tgt.get("id") == v.get("id")):
                    continue
                if n.ev["e"] == "asg" and n.ev.get("op") == "+=":
                    adds.append(strip_cast(ig.resolve(n.ev.get("rhs"), n.frame)))
                elif n.ev["e"] == "asg" and n.ev.get("op") == "=":
                    base.append(n)
                elif n.ev["e"] == "decl":
                    base.append(n)
                else:
                    ok, why = False, "unexpected update %s of the size" % n.ev.get("op")
            n_vs = sum(1 for a_ in adds if a_.get("k") == "e" and ig.ev_of(a_) in vs)
            n_tag = sum(1 for a_ in adds if a_.get("k") == "p" and a_.get("i") == 0)
            if n_vs != (1 if wt == "2" else 0) or n_tag != (1 if tagged else 0) or len(adds) != n_vs + n_tag:
                ok, why = False, "adds %d length prefix(es) and %d tag size(s) for wire type %s" % (n_vs, n_tag, wt)
            for v_ in vs:
                a0 = strip_cast(ig.rarg(v_, 0))
                if not (isinstance(a0, dict) and a0.get("k") == "l" and a0.get("id") == v.get("id")):
                    ok, why = False, "the length prefix is sized from something other than the payload size"
                # ... and from the payload size alone: nothing may have been added to it before the prefix is sized
                for n in ig.ev_nodes(lambda n: n.id in live and n.ev["e"] == "asg" and n.ev.get("op") == "+="):
                    tgt = strip_cast(n.ev.get("lhs"))
                    if isinstance(tgt, dict) and tgt.get("k") == "l" and tgt.get("id") == v.get("id") and \
                            v_.id in ig.reach([n], include_starts=False) and ig.ev_of(strip_cast(ig.resolve(n.ev.get("rhs"), n.frame))) is not v_:
                        ok, why = False, "the length prefix is sized after something (the tag size) was already added to the payload size"
        # a zero payload is reported as zero bytes for tagged fields (the writer skips empty fields)
        if tagged:
            def zero(atom, pol, lab):
                c = L.effective_cmp(atom, pol)
                return c is not None and c[0] == "==" and const_val(c[2]) == 0
            ze = L.cond_edges(ig, zero, live)
            z_ok = bool(ze) and all(
                all(const_val(x.ev.get("v")) == 0 for x in ig.ev_nodes() if x.ev["e"] == "ret" and x.id in ig.reach([ig.nodes[d]]))
                for (_, d) in ze)
            if not z_ok:
                ok, why = False, "an empty member is not sized as 0 although serialize_field writes nothing for it"
        ctx.ob("C11.R1c", inst, ok, fn.loc,
               "a field's predicted size must be payload [+ varint_size(payload) iff length-delimited] [+ tag size for tagged "
               "fields] and 0 for an empty tagged field, mirroring what serialize_field/serialize_packed_field write: %s" % why)
    ctx.floor("C11.R1c", n1c, 20, "SerializationHelper size helper instances")

    # ---------------------------------------------------------------- R1d the sizing pass refreshes the cache on every path (F9)
    n1d = 0
    for fn in hfns:
        if fn.name != "calculate_serialized_size_field":
            continue
        n1d += 1
        ig = IG(fn, inline=nin)
        live = ig.live_nodes()
        wr = []
        for n in ig.ev_nodes(lambda n: n.id in live):
            if n.ev["e"] == "asg" and isinstance(strip_cast(n.ev.get("lhs")), dict) and strip_cast(n.ev["lhs"]).get("k") == "p" and \
                    strip_cast(n.ev["lhs"]).get("i") == 2:
                wr.append(n)
            if n.ev["e"] == "call" and n.ev.get("name") == "operator=" and isinstance(strip_cast(n.ev.get("this")), dict) and \
                    strip_cast(n.ev["this"]).get("k") == "p" and strip_cast(n.ev["this"]).get("i") == 2:
                wr.append(n)
        ctx.ob("C11.R1d", L.short(fn)[:120], bool(wr) and ig.exit.id not in ig.reach([ig.entry], removed=wr), fn.loc,
               "the sizing pass must store the member's size into its cache slot on every path (also when it is 0): "
               "serialize_field trusts that slot, a stale value from an earlier pass makes it write a length prefix for a payload "
               "that is no longer there", site="calculate_serialized_size_field@cache-refresh")
    ctx.floor("C11.R1d", n1d, 10, "calculate_serialized_size_field instances")

    # ---------------------------------------------------------------- R6 macro-generated aggregates
    def vsize(v):
        n = 1
        while v >= 128:
            v >>= 7
            n += 1
        return n

    def key(d):
        d = strip_cast(d)
        while isinstance(d, dict) and d.get("k") == "u" and d.get("op") == "*":
            d = strip_cast(d.get("x"))
        return pstr(d)

    n6 = 0
    aggs = {}
    for fn in fb.find(pred=lambda f: f.has_cfg() and not f.lambda_ and f.name in
                      ("serialize", "deserialize", "calculate_serialized_size", "serialized_size_cached") and
                      not (f.record or "").startswith("babylon::") and
                      any(ev["e"] == "call" and (ev.get("callee") or "").startswith("babylon::SerializationHelper::") and
                          ev.get("name", "").endswith("_field") for _, ev in f.all_events())):
        aggs.setdefault(fn.record, {})[fn.name] = fn
    for rec, fs in sorted(aggs.items()):
        if "serialize" not in fs or "deserialize" not in fs or "calculate_serialized_size" not in fs:
            continue
        n6 += 1

        def fields(fn, helper):
            out = []
            ig = IG(fn, inline=nin)
            live = ig.live_nodes()
            for n in L.call_nodes(ig, name=helper, live=live):
                a = [ig.rarg(n, i) for i in range(len(n.ev.get("args", [])))]
                callee = fn.tu.fns.get(n.ev.get("cid"))
                out.append((n, a, callee, ig))
            return out
        ser = fields(fs["serialize"], "serialize_field")
        siz = fields(fs["calculate_serialized_size"], "calculate_serialized_size_field")
        chs = fields(fs["serialized_size_cached"], "serialized_size_cached_field") if "serialized_size_cached" in fs else None
        wr = {}
        ok = True
        why = []
        for n, a, callee, ig in ser:
            tag = const_val(a[0])
            t = (callee.d.get("targl") or [None])[0] if callee is not None else None
            wt = wire_type(recs, "babylon::SerializeTraits<%s>" % t) if t else None
            if tag is None or key(a[1]) in wr:
                ok = False
                why.append("non-constant or duplicate tag for %s" % key(a[1]))
                continue
            if wt is not None and (tag & 7) != int(wt):
                ok = False
                why.append("%s is written with wire type %d but SerializeTraits<%s>::WIRE_TYPE is %s" % (key(a[1]), tag & 7, t, wt))
            if not ig.postdominated_by(ig.entry, [n]):
                ok = False
                why.append("%s is not written on every path" % key(a[1]))
            wr[key(a[1])] = (tag, pstr(strip_cast(a[3])))
        if len(set(t >> 3 for t, _ in wr.values())) != len(wr):
            ok = False
            why.append("two members share a field number")
        for what, lst, fn_ in (("calculate_serialized_size", siz, fs["calculate_serialized_size"]),
                               ("serialized_size_cached", chs, fs.get("serialized_size_cached"))):
            if lst is None or (what == "serialized_size_cached" and not lst):
                continue        # the per-member arm is pruned when the whole-object cache exists
            seen = {}
            for n, a, callee, ig in lst:
                seen[key(a[1])] = (const_val(a[0]), pstr(strip_cast(a[2])), n, ig)
            if set(seen) != set(wr):
                ok = False
                why.append("%s sizes %s but serialize writes %s" % (what, sorted(seen), sorted(wr)))
                continue
            for k_, (ts, cache, n, ig) in seen.items():
                if ts != vsize(wr[k_][0]):
                    ok = False
                    why.append("%s: tag size %s for %s but its tag %d takes %d bytes" % (what, ts, k_, wr[k_][0], vsize(wr[k_][0])))
                if cache != wr[k_][1]:
                    ok = False
                    why.append("%s: member %s uses cache slot %s but serialize reads %s" % (what, k_, cache, wr[k_][1]))
                live = ig.live_nodes()
                rets = [r_ for r_ in ig.ev_nodes() if r_.id in live and r_.ev["e"] == "ret" and n.id in ig.reach([ig.entry]) and
                        r_.id in ig.reach([n])]
                for r_ in rets:
                    if L.deep_find(ig, ig.resolve(r_.ev.get("v"), r_.frame), lambda d: d.get("k") == "e" and ig.ev_of(d) is n) is None:
                        ok = False
                        why.append("%s: the size of %s is computed but not added to the returned total" % (what, k_))
        # the total cached by the sizing pass is the total returned
        fn_ = fs["calculate_serialized_size"]
        ig = IG(fn_, inline=nin)
        for n in ig.ev_nodes(lambda n: n.ev["e"] == "asg" and "__babylon_cached_serialized_size" in pstr(n.ev.get("lhs"))):
            rets = [r_ for r_ in ig.ev_nodes() if r_.ev["e"] == "ret"]
            same = all(pstr(ig.resolve(r_.ev.get("v"), r_.frame)) == pstr(ig.resolve(n.ev.get("rhs"), n.frame)) for r_ in rets)
            if not same:
                ok = False
                why.append("the cached total differs from the returned total")
        # reader: switch on tag >> 3, case N -> the member written with field number N, default -> consume_unknown_field
        fn_ = fs["deserialize"]
        ig = IG(fn_, inline=nin)
        live = ig.live_nodes()
        rd = {}
        dflt = None
        sw_ok = False
        for nd in ig.nodes:
            labs = [(m, lab) for m, lab in nd.succ if lab is not None and lab.case is not None]
            if not labs:
                continue
            cond = strip_cast(labs[0][1].cond)
            if isinstance(cond, dict) and cond.get("op") == ">>" and const_val(cond.get("r")) == 3:
                o = ig.origins(ig.resolve(cond.get("l"), ig.frames[0]))
                sw_ok = any(ig.ev_of(x) is not None and ig.ev_of(x).ev.get("name") == "ReadTag" for x in o)
            for m, lab in labs:
                r = ig.reach([m], removed=[x for x in ig.nodes if x is nd])
                calls = [x for x in ig.ev_nodes() if x.id in r and x.ev["e"] == "call" and
                         x.ev.get("name") in ("deserialize_field", "consume_unknown_field")]
                # the first helper reached from the case label
                first = [x for x in calls if not any(y is not x and x.id in ig.reach([y]) and y.id not in ig.reach([x]) for y in calls)]
                if lab.case == "default":
                    dflt = first
                else:
                    for x in first:
                        if x.ev.get("name") == "deserialize_field":
                            rd.setdefault(key(ig.rarg(x, 2)), set()).add(int(lab.case))
        if not sw_ok:
            ok = False
            why.append("deserialize does not dispatch on ReadTag() >> 3")
        if not dflt or any(x.ev.get("name") != "consume_unknown_field" for x in dflt):
            ok = False
            why.append("an unknown field number is not skipped through consume_unknown_field")
        want = dict((k_, set([t >> 3])) for k_, (t, _) in wr.items())
        if rd != want:
            ok = False
            why.append("deserialize maps field numbers %s but serialize writes %s" % (
                dict((k_, sorted(v)) for k_, v in sorted(rd.items())), dict((k_, sorted(v)) for k_, v in sorted(want.items()))))
        ctx.ob("C11.R6", rec, ok and bool(wr), fs["serialize"].loc,
               "macro-generated aggregate: writer, both sizing passes and reader must agree member by member on field "
               "number, wire type, tag size and cache slot: %s" % "; ".join(why[:4]))
    ctx.floor("C11.R6", n6, 5, "macro-generated aggregates")

    # ---------------------------------------------------------------- R8 smart pointers: null <-> empty encoding
    n8 = 0
    for rec, fs in sorted(traits.items()):
        if not re.search(r"SerializeTraits<std::(unique_ptr|shared_ptr)<", rec) or rec.startswith("babylon::Basic"):
            continue
        inst = rec.replace("babylon::", "")[:110]
        for nm, fn in sorted(fs.items()):
            if nm not in ("serialize", "deserialize", "calculate_serialized_size", "serialized_size_cached", "print"):
                continue
            ig = IG(fn, inline=nin)
            live = ig.live_nodes()
            if nm == "deserialize":
                gd = list(L.call_nodes(ig, name="GetDirectBufferPointer", live=live))
                te = L.result_edges(ig, set(g.id for g in gd), True, live)
                makers = [n for n in ig.ev_nodes() if n.id in live and (n.ev["e"] == "new" or
                          (n.ev["e"] == "call" and n.ev.get("name") in ("reset", "make_shared", "make_unique", "operator=")))]
                n8 += 1
                ctx.ob("C11.R8a", inst, bool(gd) and bool(te) and bool(makers) and
                       all(m.id not in ig.reach([ig.entry], removed_edges=te) for m in makers), fn.loc,
                       "the pointee may only be created when the input is non-empty: an empty encoding (null pointer or "
                       "empty value on the writer side) must read back as null")
            else:
                derefs = [n for n in ig.ev_nodes() if n.id in live and n.ev["e"] == "call" and n.ev.get("name") in ("operator*", "operator->", "get")]
                def nonnull(atom, pol, lab, ig=ig):
                    n_ = ig.ev_of(strip_cast(atom))
                    if n_ is not None and n_.ev["e"] == "call":
                        nm_ = n_.ev.get("name")
                        if nm_ == "operator bool":
                            return pol is True
                        if nm_ in ("operator!=", "operator=="):
                            hasnull = any(const_val(a_) == "null" or (isinstance(strip_cast(a_), dict) and strip_cast(a_).get("k") in ("ctor", "init"))
                                          or "nullptr" in pstr(a_) for a_ in n_.ev.get("args", []))
                            return hasnull and pol is (nm_ == "operator!=")
                    c = L.effective_cmp(atom, pol)
                    if c is not None and c[0] == "!=" and const_val(c[2]) == "null":
                        g = ig.ev_of(strip_cast(c[1]))
                        return g is not None and g.ev.get("name") == "get"
                    return False
                te = L.cond_edges(ig, nonnull, live)
                n8 += 1
                ctx.ob("C11.R8b", "%s::%s" % (inst, nm), bool(derefs) and bool(te) and
                       all(d.id not in ig.reach([ig.entry], removed_edges=te) for d in derefs), fn.loc,
                       "a null pointer contributes no bytes: the pointee is only touched under the pointer's own null test")
    ctx.floor("C11.R8", n8, 20, "smart pointer trait functions")

    # ---------------------------------------------------------------- R3 error discipline of readers
    n3 = 0
    readers = fb.find(pred=lambda f: f.has_cfg() and not f.lambda_ and
                      (f.name in ("deserialize", "consume_unknown_field", "deserialize_field", "deserialize_packed_field") and
                       (TRAIT.match(f.record or "") or f.record == "babylon::SerializationHelper" or "bsa_driver" in (f.record or "")
                        or "ReusableVector" in (f.record or ""))))
    for fn in readers:
        ig = IG(fn, inline=nin)
        live = ig.live_nodes()
        inst = L.short(fn)[:110]
        reads = [n for n in ig.ev_nodes() if n.id in live and n.ev["e"] == "call" and
                 (re.match(CIS + r"(Read\w+|Skip)$", n.ev.get("callee", "") or "") or
                  n.ev.get("name") in ("deserialize_field", "deserialize_packed_field", "consume_unknown_field") or
                  (n.ev.get("name") == "deserialize" and n.ev.get("rtype") == "bool"))]
        rets = [n for n in ig.ev_nodes() if n.id in live and n.ev["e"] == "ret"]
        false_rets = [r for r in rets if const_val(r.ev.get("v")) == 0]
        for rd in reads:
            if rd.ev.get("name") == "ReadTag":
                continue        # 0 (error / end) falls into the unknown-field path, which fails
            n3 += 1
            ids = set([rd.id])
            fe = L.result_edges(ig, ids, False, live)
            how = None
            if fe:
                ok = True
                for (s, d) in fe:
                    if ig.exit.id in ig.reach([ig.nodes[d]], removed=false_rets):
                        ok = False
                how = "tested"
            else:
                # returned directly, or Skip over bytes just peeked (a failed read feeding `ok ? len : 0` into PushLimit is NOT a
                # check: the element then parses an empty window 'successfully' without consuming input - finding F10)
                used_in_ret = any(L.deep_find(ig, ig.resolve(r.ev.get("v"), r.frame), lambda d: d.get("k") == "e" and ig.ev_of(d) is rd) is not None
                                  for r in rets if "v" in r.ev)
                in_cond_expr = any(isinstance(strip_cast(a), dict) and strip_cast(a).get("k") == "cond" and ig.ev_of(strip_cast(strip_cast(a).get("c"))) is rd
                                   for n in ig.ev_nodes() if n.id in live and n.ev["e"] == "call" for a in n.ev.get("args", []))
                peeked = False
                if rd.ev.get("name") == "Skip":
                    a0 = strip_cast(ig.rarg(rd, 0))
                    gd = [n for n in ig.ev_nodes() if n.id in live and n.ev["e"] == "call" and n.ev.get("name") == "GetDirectBufferPointer"]
                    for g in gd:
                        a1 = strip_cast(ig.rarg(g, 1))
                        if isinstance(a1, dict) and a1.get("k") == "u" and a1.get("op") == "&" and pstr(a1.get("x")) == pstr(a0) and ig.dominated_by(rd, [g]):
                            peeked = True
                # stored into a success flag that is returned
                flagged = False
                for n in ig.ev_nodes(lambda n: n.id in live and n.ev["e"] in ("decl", "asg")):
                    src = n.ev.get("init") if n.ev["e"] == "decl" else n.ev.get("rhs")
                    if isinstance(strip_cast(src), dict) and ig.ev_of(ig.resolve(strip_cast(src), n.frame)) is rd:
                        flagged = any(L.deep_find(ig, ig.resolve(r.ev.get("v"), r.frame), lambda d: d.get("k") == "l") is not None for r in rets if "v" in r.ev)
                ok = used_in_ret or peeked or flagged
                how = "idiom"
            ctx.ob("C11.R3a", "%s@%s %s" % (inst, rd.line, rd.ev.get("name")), ok, rd.where,
                   "the result of this read does not decide a path that returns false on failure (%s): a truncated or "
                   "malformed input is reported as parsed" % how, site="%s@read-check" % inst)
    ctx.floor("C11.R3a", n3, 60, "checked reads in deserialize paths")
    for fn in fb.find(pred=lambda f: f.record == "babylon::SerializationHelper" and f.name == "consume_unknown_field" and f.has_cfg()):
        ig = IG(fn, inline=nin)
        want = {"0": [("ReadVarint64", None)], "5": [("Skip", 4)], "1": [("Skip", 8)], "2": [("ReadVarint64", None), ("Skip", "var")]}
        for n in ig.nodes:
            labs = [(m, lab) for m, lab in n.succ if lab is not None and lab.case is not None]
            if not labs:
                continue
            cases = {}
            for m, lab in labs:
                r = ig.reach([m])
                ops = []
                for x in ig.ev_nodes():
                    if x.id in r and x.ev["e"] == "call" and re.match(CIS, x.ev.get("callee", "") or ""):
                        a0 = ig.rarg(x, 0)
                        ops.append((x.ev["name"], const_val(a0) if x.ev["name"] == "Skip" and const_val(a0) is not None
                                    else ("var" if x.ev["name"] == "Skip" else None)))
                rets = [x for x in ig.ev_nodes() if x.id in r and x.ev["e"] == "ret"]
                cases[lab.case] = (sorted(ops, key=str), rets)
            cond = strip_cast(labs[0][1].cond)
            mask_ok = isinstance(cond, dict) and ((cond.get("op") == "&" and const_val(cond.get("r")) == 7) or
                                                  (cond.get("op") == "%" and const_val(cond.get("r")) == 8))
            ok = mask_ok and "default" in cases and bool(cases["default"][1]) and \
                all(const_val(x.ev.get("v")) == 0 for x in cases["default"][1]) and not cases["default"][0]
            for c, w in want.items():
                ok = ok and c in cases and cases[c][0] == sorted(w, key=str)
            ctx.ob("C11.R3b", L.short(fn), ok, fn.loc,
                   "unknown fields must be skipped by wire type (tag & 7): varint -> ReadVarint64, fixed32 -> Skip(4), fixed64 -> "
                   "Skip(8), length-delimited -> ReadVarint64 + Skip(length); every other wire type rejected; found %s" %
                   dict((c, v[0]) for c, v in cases.items()))

    # ---------------------------------------------------------------- R7b raw payloads are read chunk by chunk
    n7b = 0
    for fn in fb.find(pred=lambda f: f.has_cfg() and not f.lambda_ and f.name == "deserialize"):
        ig = IG(fn, inline=nin)
        live = ig.live_nodes()
        gd = [n for n in ig.ev_nodes() if n.id in live and n.ev["e"] == "call" and n.ev.get("name") == "GetDirectBufferPointer"]
        for g in gd:
            a0 = strip_cast(ig.rarg(g, 0))
            if not (isinstance(a0, dict) and a0.get("k") == "u" and a0.get("op") == "&"):
                continue
            dvar = strip_cast(a0.get("x"))
            users = [n for n in ig.ev_nodes() if n.id in live and n is not g and n.ev["e"] == "call" and
                     n.ev.get("name") in ("append", "assign", "insert", "memcpy", "push_back", "write") and
                     any(sd.get("k") == "l" and sd.get("id") == dvar.get("id") for a in n.ev.get("args", []) for sd in walk(a))]
            if not users:
                continue
            n7b += 1
            ctx.ob("C11.R7b", L.short(fn)[:110], all(g.id in ig.reach([u], include_starts=False) for u in users), g.where,
                   "the bytes handed out by GetDirectBufferPointer are only the current buffer of the stream: a raw payload must be "
                   "collected in a loop until the (limited) input is exhausted, otherwise a value that crosses a buffer boundary of a "
                   "stream-backed input is truncated and the rest of it is mis-parsed as the following fields",
                   site="%s@chunk-loop" % L.short(fn)[:110])
    ctx.floor("C11.R7b", n7b, 2, "raw payload readers")

    # ---------------------------------------------------------------- R9 entry points: size pass before write pass
    def const_of(rec, name, depth=0):
        r = recs.get(rec)
        if r is None or depth > 3:
            return None
        v = r.get("consts", {}).get(name)
        if v is not None:
            return v
        for b in r.get("bases", []):
            v = const_of(b.get("type"), name, depth + 1)
            if v is not None:
                return v
        return None
    n9 = 0
    for fn in fb.find(pred=lambda f: f.record == "babylon::Serialization" and f.name == "serialize_to_coded_stream" and f.has_cfg()):
        ig = IG(fn, inline=lambda fr, ev, callee: callee.record == "babylon::Serialization" and not callee.lambda_)
        live = ig.live_nodes()
        sizing = [n for n in ig.ev_nodes() if n.id in live and n.ev["e"] == "call" and TRAIT_CALL.match(n.ev.get("callee", "") or "") and
                  n.ev.get("name") == "calculate_serialized_size"]
        writing = [n for n in ig.ev_nodes() if n.id in live and n.ev["e"] == "call" and TRAIT_CALL.match(n.ev.get("callee", "") or "") and
                   n.ev.get("name") == "serialize"]
        if not writing:
            continue
        cached = const_of(trait_of(writing[0].ev.get("callee")), "SERIALIZED_SIZE_CACHED")
        if cached is None:
            continue
        n9 += 1
        ok = True
        if cached == "1":
            ok = bool(sizing) and all(ig.dominated_by(w_, sizing) for w_ in writing)
        ctx.ob("C11.R9a", L.short(fn)[:110], ok, fn.loc,
               "a type whose writer consumes cached sizes must be sized (calculate_serialized_size) before it is written: without the "
               "size pass the writer emits the length prefixes of the previous value")
    # R9d the flag is monotone along nesting: a writer that hands part of its value to a writer consuming cached sizes needs the
    # size pass itself
    n9d = 0
    for fn in fb.find(pred=lambda f: f.name == "serialize" and f.has_cfg() and not f.lambda_ and
                      re.match(r"^babylon::SerializeTraits<.*>$", f.record or "")):
        own = const_of(fn.record, "SERIALIZED_SIZE_CACHED")
        if own is None:
            continue
        ig = IG(fn, inline=lambda fr, ev, callee: callee.record == "babylon::SerializationHelper" and not callee.lambda_)
        live = ig.live_nodes()
        nested = set()
        for n in ig.ev_nodes():
            if n.id in live and n.ev["e"] == "call" and TRAIT_CALL.match(n.ev.get("callee", "") or ""):
                t_ = trait_of(n.ev.get("callee"))
                if t_ and t_ != fn.record:
                    nested.add(t_)
        need = sorted(t_ for t_ in nested if const_of(t_, "SERIALIZED_SIZE_CACHED") == "1")
        n9d += 1
        ctx.ob("C11.R9d", L.short(fn)[:110], not need or own == "1", fn.loc,
               "this writer hands part of its value to %s, whose writer consumes cached sizes, but declares "
               "SERIALIZED_SIZE_CACHED=false: the entry points then skip the size pass and the nested length prefixes are "
               "whatever the caches held before" % ", ".join(x[len("babylon::SerializeTraits<"):-1][:60] for x in need[:3]),
               site="%s@size-cached-flag" % fn.record[:140])
    ctx.floor("C11.R9d", n9d, 25, "trait writers with a declared SERIALIZED_SIZE_CACHED")
    # R10 TRIVIAL means what the container shortcuts take it to mean: the encoded size does not depend on the value
    helper = recs.get("babylon::SerializationHelper") or {}
    TRIV = helper.get("consts", {}).get("SERIALIZED_SIZE_COMPLEXITY_TRIVIAL")
    if TRIV is None:
        ctx.broken("C11.R10: SerializationHelper::SERIALIZED_SIZE_COMPLEXITY_TRIVIAL not found")
    n10 = 0
    TREC = re.compile(r"^(babylon::BasicSerializeTraits<)?babylon::SerializeTraits<.*>$")
    for fn in fb.find(pred=lambda f: f.name == "calculate_serialized_size" and f.has_cfg() and not f.lambda_ and TREC.match(f.record or "")):
        own_t = trait_of(fn.record + "::x")
        if own_t is None or const_of(own_t, "SERIALIZED_SIZE_COMPLEXITY") != TRIV:
            continue
        n10 += 1
        # the helper and the member functions the serialization macro generates are part of the size function; other traits are not
        ig = IG(fn, inline=lambda fr, ev, callee: not callee.lambda_ and not TREC.match(callee.record or "") and
                (callee.record == "babylon::SerializationHelper" or "serialize" in callee.name), max_depth=5)
        live = ig.live_nodes()
        nested = set()
        for n in ig.ev_nodes():
            if n.id in live and n.ev["e"] == "call" and TRAIT_CALL.match(n.ev.get("callee", "") or ""):
                t_ = trait_of(n.ev.get("callee"))
                if t_ and t_ != own_t:
                    nested.add(t_)
        weaker = sorted(t_ for t_ in nested if const_of(t_, "SERIALIZED_SIZE_COMPLEXITY") not in (None, TRIV))
        # a branch of the size function itself that tests the value
        dep = None
        for nd in ig.nodes:
            for m, lab in nd.succ:
                if lab is None or lab.cond is None or lab.frame.id != 0:
                    continue
                c_ = ig.resolve(lab.cond, lab.frame)
                if const_val(c_) is not None:
                    continue
                if L.deep_find(ig, c_, lambda sd: sd.get("k") == "p" and sd.get("i") == 0, through_args=True) is not None:
                    dep = nd
        short_t = own_t[len("babylon::SerializeTraits<"):-1][:70]
        ctx.ob("C11.R10", "SerializeTraits<%s>" % short_t, not weaker and dep is None, fn.loc,
               "declares SERIALIZED_SIZE_COMPLEXITY_TRIVIAL (size independent of the value; vector / array / ReusableVector then take "
               "N * size(first element)) but %s" % (
                   ("its size function calls %s, which is not TRIVIAL" % ", ".join(x[len("babylon::SerializeTraits<"):-1][:50] for x in weaker[:3]))
                   if weaker else "its size function branches on the value (line %s)" % (dep.line if dep is not None else "?")),
               site="%s@trivial-size" % own_t[:150])
    ctx.floor("C11.R10", n10, 3, "traits declaring a value-independent size")
    for fn in fb.find(pred=lambda f: f.record == "babylon::Serialization" and f.name in ("parse_from_coded_stream",) and f.has_cfg()):
        n9 += 1
        ig = IG(fn, inline=nin)
        rets = [n for n in ig.ev_nodes() if n.ev["e"] == "ret" and "v" in n.ev]
        ok = bool(rets) and all(ig.ev_of(strip_cast(ig.resolve(r_.ev["v"], r_.frame))) is not None and
                                ig.ev_of(strip_cast(ig.resolve(r_.ev["v"], r_.frame))).ev.get("name") == "deserialize" for r_ in rets)
        ctx.ob("C11.R9b", L.short(fn)[:110], ok, fn.loc, "the parse entry point must report the parser's own verdict")
    for fn in fb.find(pred=lambda f: f.record == "babylon::Serialization" and f.name == "parse_from_array" and f.has_cfg()):
        n9 += 1
        ig = IG(fn, inline=nin)
        ctors = [n for n in ig.ev_nodes() if n.ev["e"] == "ctor" and "CodedInputStream" in (n.ev.get("type") or n.ev.get("callee", ""))]
        ok = bool(ctors) and all(len(c_.ev.get("args", [])) == 2 and
                                 any(sd.get("k") == "p" and sd.get("i") == 0 for sd in walk(c_.ev["args"][0])) and
                                 any(sd.get("k") == "p" and sd.get("i") == 1 for sd in walk(c_.ev["args"][1])) for c_ in ctors)
        ctx.ob("C11.R9c", L.short(fn)[:110], ok, fn.loc, "the input window handed to the parser must be exactly (data, size)")
    ctx.floor("C11.R9", n9, 20, "serialization entry point instances")

    # ---------------------------------------------------------------- R5 / R7 BytesUntilLimit discipline
    n7 = 0
    for fn in fb.find(pred=lambda f: f.has_cfg() and not f.lambda_ and f.name == "deserialize"):
        ig = IG(fn, inline=nin)
        live = ig.live_nodes()
        inst = L.short(fn)[:110]
        bul = [n for n in ig.ev_nodes() if n.id in live and n.ev["e"] == "call" and n.ev.get("name") == "BytesUntilLimit"]
        # loops that run until the input ends: their condition asks the stream (fixed-count loops - T[N] - do not)
        loops = [(bid, b) for bid, b in fn.blocks.items() if b.get("term") in ("WhileStmt", "ForStmt", "DoStmt") and "cond" in b and
                 any(d.get("k") == "e" and re.match(CIS, (fn.events.get(d["id"]) or {}).get("callee", "") or "") for d in walk(b["cond"]))]
        elem_loop = any(True for n in ig.ev_nodes() if n.id in live and n.ev["e"] == "call" and
                        n.ev.get("name") in ("deserialize_packed_field", "deserialize_field", "ReadTag"))
        if loops and elem_loop:
            n7 += 1
            good = False
            for bid, b in loops:
                from bsa.graph import cond_atoms
                atom, _ = cond_atoms(b["cond"], True)
                n_ = fn.events.get(atom.get("id")) if isinstance(atom, dict) and atom.get("k") == "e" else None
                if n_ is not None and n_.get("name") == "GetDirectBufferPointer":
                    good = True
                if L.deep_find(ig, ig.resolve(b["cond"], ig.frames[0]), lambda d: d.get("k") == "e" and ig.ev_of(d) in bul) is not None:
                    good = False
                    ctx.ob("C11.R7a", inst, False, "%s:%s" % (fn.file, b.get("cond_line")),
                           "an element loop is controlled by BytesUntilLimit(): it returns -1 when no limit is in place (a "
                           "stream-backed parse at top level), so a valid encoding is 'parsed' into an empty container",
                           site="%s@end-of-input" % inst)
                    break
            else:
                ctx.ob("C11.R7a", inst, good or not loops, fn.loc,
                       "the element loop does not use the tree's end-of-input predicate GetDirectBufferPointer", site="%s@end-of-input" % inst)
        for b_ in bul:
            # every use must be behind a '> 0' (or '>= 0' / '!= -1') test of the same value
            users = [n for n in ig.ev_nodes() if n.id in live and n is not b_ and
                     any(L.deep_find(ig, ig.resolve(d, n.frame), lambda x: x.get("k") == "e" and ig.ev_of(x) is b_) is not None
                         for d in L._event_descs(n.ev)) and n.ev["e"] in ("call",) and n.ev.get("name") in ("reserve", "resize")]

            def positive(atom, pol, lab):
                c = L.effective_cmp(atom, pol)
                if c is None:
                    return False
                op, l, r = c
                if not any(ig.ev_of(o) is b_ for o in ig.origins(l)):
                    return False
                return (op == ">" and const_val(r) in (0, -1)) or (op == ">=" and const_val(r) in (0, 1)) or (op == "!=" and const_val(r) == -1)
            pe = L.cond_edges(ig, positive, live)
            for u in users:
                ctx.ob("C11.R5", "%s@%s" % (inst, u.line), bool(pe) and u.id not in ig.reach([ig.entry], removed_edges=pe), u.where,
                       "a reserve/resize is sized from BytesUntilLimit() without testing it against the -1 'no limit' sentinel "
                       "(size_t(-1)/sizeof(T) elements: length_error inside noexcept -> terminate on valid input)",
                       site="%s@reserve" % inst)
        # reserve from a decoded count
        for u in [n for n in ig.ev_nodes() if n.id in live and n.ev["e"] == "call" and n.ev.get("name") in ("reserve", "resize")]:
            a = ig.rarg(u, 0)
            from_bul = L.deep_find(ig, a, lambda x: x.get("k") == "e" and ig.ev_of(x) in bul) is not None
            from_size = L.deep_find(ig, a, lambda x: x.get("k") == "e" and ig.ev_of(x) is not None and ig.ev_of(x).ev.get("name") == "size") is not None
            decoded = False
            for sd in walk(a):
                if sd.get("k") == "l":
                    # a local filled through &local by a Read call
                    for n in ig.ev_nodes(lambda n: n.id in live and n.ev["e"] == "call" and re.match(CIS + r"Read", n.ev.get("callee", "") or "")):
                        for arg in n.ev.get("args", []):
                            arg = strip_cast(arg)
                            if isinstance(arg, dict) and arg.get("k") == "u" and arg.get("op") == "&" and strip_cast(arg.get("x")).get("id") == sd.get("id"):
                                decoded = True
            ctx.ob("C11.R5b", "%s@%s" % (inst, u.line), (from_bul or from_size or const_val(a) is not None) and not decoded, u.where,
                   "memory is reserved from a count decoded from the input (a hostile length prefix allocates arbitrarily much)")
    ctx.floor("C11.R7a", n7, 8, "element loops in deserialize functions")


SWEEP = ["serialization/test_aggregate.cpp",
         "serialization/test_array.cpp",
         "serialization/test_compatible.cpp",
         "serialization/test_list.cpp",
         "serialization/test_map.cpp",
         "serialization/test_scalar.cpp",
         "serialization/test_set.cpp",
         "serialization/test_shared_ptr.cpp",
         "serialization/test_string.cpp",
         "serialization/test_traits.cpp",
         "serialization/test_unique_ptr.cpp",
         "serialization/test_vector.cpp",
         "serialization/test_message.cpp",
         "serialization/test_serializer.cpp"]


# name anchors (validated by tools/rename_sweep.py; a vanished name is exit 2, see core.check_anchor_names)
ANCHORS = {
    'calculate_serialized_size_packed_field': ['^babylon::SerializationHelper(<|$)'],
    'consume_unknown_field': ['^babylon::SerializationHelper(<|$)'],
    'deserialize': ['^babylon::BasicSerializeTraits(<|$)', '^babylon::ReusableVector(<|$)', '^babylon::SerializationHelper(<|$)', '^babylon::SerializeTraits(<|$)'],
    'deserialize_field': ['^babylon::SerializationHelper(<|$)'],
    'deserialize_packed_field': ['^babylon::SerializationHelper(<|$)'],
    'make_tag_size': ['^babylon::SerializationHelper(<|$)'],
    'serialize': ['^babylon::BasicSerializeTraits(<|$)', '^babylon::ReusableVector(<|$)', '^babylon::SerializationHelper(<|$)', '^babylon::SerializeTraits(<|$)'],
    'serialize_packed_field': ['^babylon::SerializationHelper(<|$)'],
    'serialized_size_cached': ['^babylon::BasicSerializeTraits(<|$)', '^babylon::SerializationHelper(<|$)', '^babylon::SerializeTraits(<|$)'],
    'varint_size': ['^babylon::SerializationHelper(<|$)'],
}
