"""C14 id allocator / thread id / deposit box (DESIGN §4 C14)."""
import re

from bsa.core import driver
from bsa.graph import IG
from bsa import atomics as A
from bsa import lib as L
from bsa.facts import pstr, strip_cast, const_val, walk

EXPLANATION = (
    "Structural clauses of C14 for IdAllocator<uint16_t|uint32_t>, ThreadIdImpl<leaky|non-leaky> and DepositBox<T>: "
    "R1 the free-list head is a whole-word (value,version) atomic, the push installs observed.version + positive "
    "constant inside the retry loop (ABA tag) and links the node to the observed head value before every attempt; "
    "R2 allocate returns a recycled id only on the CAS-success edge, derives the new head from the popped node's "
    "link, marks ids ACTIVE before returning them, mints fresh ids with one RMW, and uses acquire on every head "
    "observation / release on the push (the link is published through the head); R3 DepositBox::take_released "
    "returns the item only on the success edge of a CAS(slot.version: id.version -> different value) and emplace "
    "stamps the slot with the allocated id's version before the id leaves; R4 finish_released is reachable only from "
    "holders of a successful take, Accessor moves keep a single finisher; R5 a thread id is allocated in the "
    "constructor and the same value is returned in the destructor. Uniqueness under all interleavings is NOT decided.")

ALLOC_REC = re.compile(r"^babylon::IdAllocator<.*>$")
BOX_REC = re.compile(r"^babylon::DepositBox<.*>$")
HEAD_ATOMIC = re.compile(r"^std::atomic<babylon::VersionedValue<.*>>$")


DEPENDS = {
    "C04": "id links and deposit slots live in a ConcurrentVector",
}

def units(tier):
    return [driver("id_allocator.cc")]


def head_ops(ig, live):
    out = []
    for a in A.atomic_ops(ig, live):
        if a.op != "fence" and HEAD_ATOMIC.match(a.node.ev.get("rec", "") or ""):
            out.append(a)
    return out


def fld(desc):
    d = strip_cast(desc)
    return d.get("n") if isinstance(d, dict) and d.get("k") == "f" else None


def root_local(desc):
    d = strip_cast(desc)
    while isinstance(d, dict) and d.get("k") == "f":
        d = strip_cast(d.get("b"))
    return d


def run(ctx):
    fb = ctx.fb
    own = lambda a, b, c: bool(ALLOC_REC.match(c.record or ""))

    # ------------------------------------------------------------------ push (deallocate)
    pushes = fb.find(pred=lambda f: ALLOC_REC.match(f.record or "") and f.name == "deallocate" and f.has_cfg())
    pops = fb.find(pred=lambda f: ALLOC_REC.match(f.record or "") and f.name == "allocate" and f.has_cfg())
    ctx.floor("C14.R1", min(len(pushes), len(pops)), 2, "IdAllocator allocate/deallocate instances")
    for fn in pushes:
        inst = L.short(fn)
        ig = IG(fn, inline=lambda a, b, c: False)
        live = ig.live_nodes()
        hops = head_ops(ig, live)
        cas = [a for a in hops if a.op == "cas"]
        ctx.ob("C14.R1a", inst, len(cas) >= 1, fn.loc, "push does not CAS the whole (value, version) head word")
        cas_ids = set(a.node.id for a in cas)
        fail = L.result_edges(ig, cas_ids, False, live)
        for c in cas:
            exp = strip_cast(ig.rarg(c.node, 0))
            des_n = ig.ev_of(strip_cast(ig.rarg(c.node, 1)))
            des = strip_cast(ig.rarg(des_n, 0)) if des_n is not None and des_n.ev["e"] == "ctor" else strip_cast(ig.rarg(c.node, 1))
            # version bump assignments to the desired object
            bumps = []
            links = []
            for n in ig.ev_nodes(lambda n: n.id in live and n.ev["e"] == "asg" and n.ev.get("op") == "="):
                lhs = ig.resolve(n.ev["lhs"], n.frame)
                if fld(lhs) == "version" and pstr(root_local(lhs)) == pstr(root_local(des)):
                    rhs = strip_cast(ig.resolve(n.ev["rhs"], n.frame))
                    if isinstance(rhs, dict) and rhs.get("k") == "b" and rhs.get("op") == "+" and \
                            isinstance(const_val(rhs["r"]), int) and const_val(rhs["r"]) > 0 and \
                            fld(rhs["l"]) == "version" and pstr(root_local(rhs["l"])) == pstr(root_local(exp)):
                        bumps.append(n)
            for n in ig.ev_nodes(lambda n: n.id in live and n.ev["e"] == "call" and n.ev.get("name") == "store"
                                 and not HEAD_ATOMIC.match(n.ev.get("rec", "") or "")):
                v = ig.rarg(n, 0)
                if fld(v) == "value" and pstr(root_local(v)) == pstr(root_local(exp)):
                    links.append(n)
            ok = bool(bumps) and ig.dominated_by(c.node, bumps)
            for (s, d) in fail:
                if c.node.id in ig.reach([ig.nodes[d]], removed=bumps):
                    ok = False
            ctx.ob("C14.R1b", inst, ok, c.node.where,
                   "every push attempt must install <observed head>.version + positive constant (ABA tag) - the bump must "
                   "be recomputed after each failed CAS")
            ok = bool(links) and ig.dominated_by(c.node, links)
            for (s, d) in fail:
                if c.node.id in ig.reach([ig.nodes[d]], removed=links):
                    ok = False
            ctx.ob("C14.R1c", inst, ok, c.node.where,
                   "the pushed node must be linked to the observed head value before each CAS attempt")
            ctx.ob("C14.R1d", inst, A.releases(c.order) and A.acquires(c.fail_order), c.node.where,
                   "push CAS must release (publishes the link) and acquire on failure: %s/%s" %
                   (A.ORDER_NAME.get(c.order), A.ORDER_NAME.get(c.fail_order)))
        for a in hops:
            if a.op == "load":
                ctx.ob("C14.R1e", inst, A.acquires(a.order), a.node.where, "head loaded without acquire in push")

    # ------------------------------------------------------------------ pop (allocate)
    for fn in pops:
        inst = L.short(fn)
        ig = IG(fn, inline=lambda a, b, c: False)
        live = ig.live_nodes()
        hops = head_ops(ig, live)
        cas = [a for a in hops if a.op == "cas"]
        cas_ids = set(a.node.id for a in cas)
        succ = L.result_edges(ig, cas_ids, True, live)
        ctx.ob("C14.R2a", inst, len(cas) >= 1 and bool(succ), fn.loc, "pop does not CAS the whole head word")
        rets = [n for n in ig.ev_nodes() if n.id in live and n.ev["e"] == "ret"]
        # which returns are inside the recycle loop: those reachable from a CAS
        rec_rets = [r for r in rets if any(ig.path_exists(c.node, r) for c in cas) and
                    r.id not in ig.reach([ig.entry], removed=[c.node for c in cas])]
        fresh_rets = [r for r in rets if r not in rec_rets]
        r_nosucc = ig.reach([ig.entry], removed_edges=succ)
        ctx.ob("C14.R2b", inst, bool(rec_rets) and all(r.id not in r_nosucc for r in rec_rets), fn.loc,
               "a recycled id is returned without having won the CAS on the free-list head")
        active = [n for n in ig.ev_nodes() if n.id in live and n.ev["e"] == "call" and n.ev.get("name") == "store"
                  and not HEAD_ATOMIC.match(n.ev.get("rec", "") or "") and
                  const_val(ig.rarg(n, 0)) in (2 ** 16 - 2, 2 ** 32 - 2)]
        ctx.ob("C14.R2c", inst, bool(active) and all(ig.dominated_by(r, active) for r in rets), fn.loc,
               "an id is handed out without its link being marked ACTIVE (for_each would not report it as live)")
        for c in cas:
            exp = strip_cast(ig.rarg(c.node, 0))
            des_n = ig.ev_of(strip_cast(ig.rarg(c.node, 1)))
            des = strip_cast(ig.rarg(des_n, 0)) if des_n is not None and des_n.ev["e"] == "ctor" else strip_cast(ig.rarg(c.node, 1))
            nexts = []
            for n in ig.ev_nodes(lambda n: n.id in live and n.ev["e"] == "asg" and n.ev.get("op") == "="):
                lhs = ig.resolve(n.ev["lhs"], n.frame)
                if fld(lhs) == "value" and pstr(root_local(lhs)) == pstr(root_local(des)):
                    src = ig.ev_of(strip_cast(ig.resolve(n.ev["rhs"], n.frame)))
                    if src is not None and src.ev.get("name") == "load":
                        idx = ig.ev_of(strip_cast(ig.rthis(src)))
                        if idx is not None and fld(ig.rarg(idx, 0)) == "value" and \
                                pstr(root_local(ig.rarg(idx, 0))) == pstr(root_local(exp)):
                            nexts.append(n)
            ctx.ob("C14.R2d", inst, bool(nexts) and ig.dominated_by(c.node, nexts), c.node.where,
                   "the new head installed by pop must be the link of the observed head node")
            ctx.ob("C14.R2e", inst, A.acquires(c.order) and A.acquires(c.fail_order), c.node.where,
                   "pop CAS must acquire on success and failure (it reads the link published by the pusher): %s/%s" %
                   (A.ORDER_NAME.get(c.order), A.ORDER_NAME.get(c.fail_order)))
        for a in hops:
            if a.op == "load":
                ctx.ob("C14.R2e", inst, A.acquires(a.order), a.node.where, "head loaded without acquire in pop")
        mint = [a for a in A.atomic_ops(ig, live) if a.op == "rmw" and not HEAD_ATOMIC.match(a.node.ev.get("rec", "") or "")]
        ctx.ob("C14.R2f", inst, len(mint) == 1 and mint[0].name == "fetch_add" and const_val(ig.rarg(mint[0].node, 0)) == 1
               and all(ig.dominated_by(r, [mint[0].node]) for r in fresh_rets) and bool(fresh_rets), fn.loc,
               "a fresh id must come from exactly one fetch_add(1) on the next-value counter")
        # version is preserved or bumped by pop, never lowered arbitrarily
    # bounds of enumeration
    for fn in fb.find(pred=lambda f: ALLOC_REC.match(f.record or "") and f.name in ("end", "for_each") and f.has_cfg()):
        ig = IG(fn, inline=own)
        live = ig.live_nodes()
        loads = [a for a in A.atomic_ops(ig, live) if a.op == "load" and
                 L.deep_find(ig, a.obj, lambda d: d.get("k") == "f" and d.get("n") == "_next_value") is not None]
        ctx.ob("C14.R2g", L.short(fn), bool(loads) and all(A.acquires(a.order) for a in loads), fn.loc,
               "the enumeration bound must be an acquire load of the next-value counter")

    # ------------------------------------------------------------------ deposit box
    takes = fb.find(pred=lambda f: BOX_REC.match(f.record or "") and f.name == "take_released" and f.has_cfg())
    ctx.floor("C14.R3", len(takes), 2, "DepositBox::take_released instances")
    for fn in takes:
        inst = L.short(fn)
        ig = IG(fn, inline=lambda a, b, c: False)
        live = ig.live_nodes()
        cas = [a for a in A.atomic_ops(ig, live) if a.op == "cas" and
               L.deep_find(ig, a.obj, lambda d: d.get("k") == "f" and d.get("n") == "version") is not None]
        cas_ids = set(a.node.id for a in cas)
        succ = L.result_edges(ig, cas_ids, True, live)
        rets = [n for n in ig.ev_nodes() if n.id in live and n.ev["e"] == "ret"]
        nonnull = [r for r in rets if const_val(r.ev.get("v")) != "null"]
        r0 = ig.reach([ig.entry], removed_edges=succ)
        ctx.ob("C14.R3a", inst, bool(cas) and bool(succ) and bool(nonnull) and all(r.id not in r0 for r in nonnull), fn.loc,
               "the item can be returned without winning the version CAS of its slot (two takers could both get it)")
        for c in cas:
            exp = strip_cast(ig.rarg(c.node, 0))
            des = strip_cast(ig.rarg(c.node, 1))
            ok = fld(exp) == "version" and strip_cast(root_local(exp)).get("k") == "p"
            diff = False
            if isinstance(des, dict) and des.get("k") == "b" and des.get("op") in ("+", "-", "^") and \
                    isinstance(const_val(des["r"]), int) and const_val(des["r"]) != 0 and pstr(des["l"]) == pstr(exp):
                diff = True
            ctx.ob("C14.R3b", inst, ok and diff, c.node.where,
                   "take must CAS the slot round number from id.version to a different value (got %s -> %s)" %
                   (pstr(exp), pstr(des)))
    for fn in fb.find(pred=lambda f: BOX_REC.match(f.record or "") and f.name == "emplace" and f.has_cfg()):
        inst = L.short(fn)
        ig = IG(fn, inline=lambda a, b, c: False)
        live = ig.live_nodes()
        allocs = list(L.call_nodes(ig, name="allocate", live=live))
        stamps = [a for a in A.atomic_ops(ig, live) if a.op == "store" and
                  L.deep_find(ig, a.obj, lambda d: d.get("k") == "f" and d.get("n") == "version") is not None]
        rets = [n for n in ig.ev_nodes() if n.id in live and n.ev["e"] == "ret"]
        ok = len(allocs) == 1 and len(stamps) == 1 and all(ig.dominated_by(r, [stamps[0].node]) for r in rets)
        if ok:
            v = ig.rarg(stamps[0].node, 0)
            ok = fld(v) == "version" and any(ig.ev_of(o) is allocs[0] for o in ig.origins(root_local(v)))
            # slot indexed by the same id
            ens = [n for n in L.call_nodes(ig, name="ensure", live=live)]
            ok = ok and bool(ens) and fld(ig.rarg(ens[0], 0)) == "value" and \
                any(ig.ev_of(o) is allocs[0] for o in ig.origins(root_local(ig.rarg(ens[0], 0))))
            for r in rets:
                ok = ok and any(ig.ev_of(o) is allocs[0] for o in ig.origins(ig.resolve(r.ev.get("v"), r.frame))) or \
                    L.deep_find(ig, ig.resolve(r.ev.get("v"), r.frame), lambda d: d.get("k") == "e" and ig.ev_of(d) is allocs[0]) is not None
        ctx.ob("C14.R3c", inst, ok, fn.loc,
               "emplace must stamp slot[id.value].version with the allocated id's version before returning that id")
    # ------------------------------------------------------------------ R4 who may finish
    n = 0
    for fn in fb.find(pred=lambda f: f.has_cfg()):
        for ev in L.fn_calls(fn, callee_re=r"^babylon::DepositBox<.*>::finish_released$"):
            n += 1
            if fn.file.startswith("/verif/drivers/"):
                continue
            ok = False
            if re.match(r"^babylon::DepositBox<.*>::Accessor$", fn.record or "") and fn.kind == "dtor":
                ig = IG(fn, inline=lambda a, b, c: False)
                live = ig.live_nodes()

                def owns(atom, pol, lab):
                    a = strip_cast(atom)
                    return pol and isinstance(a, dict) and a.get("k") == "f" and a.get("n") == "_object"
                oe = L.cond_edges(ig, owns, live)
                calls = list(L.call_nodes(ig, name="finish_released", live=live))
                ok = bool(oe) and all(c.id not in ig.reach([ig.entry], removed_edges=oe) for c in calls)
            elif re.match(r"^babylon::coroutine::", fn.qname):
                ok = True   # decided under C13 (every finish is dominated by a successful take of that node)
            ctx.ob("C14.R4a", "%s -> finish_released" % L.short(fn), ok, "%s:%s" % (fn.file, ev["line"]),
                   "slot id returned to the allocator by code that does not hold a successful take")
    ctx.floor("C14.R4", n, 2, "finish_released call sites")
    recs = fb.records()
    for name, rec in recs.items():
        if not re.match(r"^babylon::DepositBox<.*>::Accessor$", name):
            continue
        for k in ("copy_ctor", "copy_assign"):
            ms = [m for m in rec["methods"] if m["kind"] == k]
            ctx.ob("C14.R4b", "%s %s" % (name.replace("babylon::", ""), k), bool(ms) and all(m["deleted"] for m in ms),
                   "%s:%s" % (rec["file"], rec["line"]), "take Accessor must not be copyable (two finishers)")
        fields = [f["name"] for f in rec["fields"]]
        for fn in fb.find(pred=lambda f: f.record == name and f.has_cfg() and f.kind in ("move_ctor", "move_assign")):
            if fn.kind == "move_assign":
                swapped = set()
                for ev in L.fn_calls(fn, callee_re=r"^std::swap$"):
                    a0 = strip_cast(ev["args"][0])
                    if isinstance(a0, dict) and a0.get("k") == "f":
                        swapped.add(a0["n"])
                ctx.ob("C14.R4c", L.short(fn), swapped == set(fields), fn.loc,
                       "Accessor move-assignment must exchange every field %s (swaps %s)" % (fields, sorted(swapped)))
            else:
                ex = [ev for ev in L.fn_calls(fn, callee_re=r"^std::exchange$")
                      if strip_cast(ev["args"][0]).get("n") == "_object" and const_val(ev["args"][1]) == "null"]
                ctx.ob("C14.R4c", L.short(fn), bool(ex), fn.loc,
                       "Accessor move-construction must null the source's _object (otherwise both finish the slot)")
    # ------------------------------------------------------------------ R5 thread ids
    tids = fb.find(pred=lambda f: re.match(r"^babylon::internal::ThreadIdImpl<.*>$", f.record or "") and f.has_cfg()
                   and f.kind in ("ctor", "dtor"))
    ctx.floor("C14.R5", len(tids), 4, "ThreadIdImpl ctor/dtor instances")
    for fn in tids:
        if fn.kind == "ctor":
            ok = False
            for _, ev in fn.all_events():
                if ev["e"] == "init" and ev.get("field") == "_value":
                    n_ = L.deep_find(IG(fn, inline=lambda a, b, c: False), {"k": "none"}, lambda d: False)
                    v = strip_cast(ev.get("v"))
                    src = None
                    if isinstance(v, dict) and v.get("k") == "e":
                        src = fn.events.get(v["id"])
                        while src is not None and src["e"] == "ctor" and src.get("args"):
                            a0 = strip_cast(src["args"][0])
                            src = fn.events.get(a0["id"]) if isinstance(a0, dict) and a0.get("k") == "e" else None
                    ok = src is not None and src.get("name") == "allocate" and strip_cast(src.get("this")).get("k") == "p"
            ctx.ob("C14.R5a", L.short(fn), ok, fn.loc, "thread id constructor must take its value from allocator.allocate()")
        else:
            ok = False
            ig = IG(fn, inline=lambda a, b, c: False)
            live_ = ig.live_nodes()
            deallocs = list(L.call_nodes(ig, name="deallocate", live=live_))
            for n_ in deallocs:
                th = strip_cast(n_.ev.get("this"))
                os_ = ig.origins(ig.rarg(n_, 0))
                # deallocate() only uses id.value (it overwrites the version), so `_value` and `_value.value` are both fine
                def own_value(o):
                    o = strip_cast(o)
                    if fld(o) == "_value":
                        return True
                    chain = [d.get("n") for d in walk(o) if d.get("k") == "f"]
                    return "_value" in chain and chain[0] == "value"
                while len(os_) == 1 and ig.ev_of(os_[0]) is not None and ig.ev_of(os_[0]).ev["e"] == "ctor" and \
                        len(ig.ev_of(os_[0]).ev.get("args", [])) == 1:
                    os_ = ig.origins(ig.rarg(ig.ev_of(os_[0]), 0))
                ok = bool(os_) and all(own_value(o) for o in os_) and isinstance(th, dict) and th.get("n") == "_allocator"
            # ... on every path, in every flavour: the dead arm of `if (!Leaky)` is not a path (after seed C14-5)
            ok = ok and bool(deallocs) and ig.exit.id not in ig.reach([ig.entry], removed=deallocs)
            ctx.ob("C14.R5b", L.short(fn), ok, fn.loc,
                   "thread id destructor must return exactly its own _value to its _allocator, on every path and in every flavour "
                   "(a leaky thread id leaks the allocator singleton, not the ids of threads that exit)")


    thread_id_instance_agreement(ctx, "C14.R5c", fb)
    # ------------------------------------------------------------------ R6 for_each reports exactly the live runs
    enums = fb.find(pred=lambda f: ALLOC_REC.match(f.record or "") and f.name == "for_each" and f.has_cfg())
    ctx.floor("C14.R6", len(enums), 2, "IdAllocator::for_each instances")
    recs = fb.records()
    for fn in enums:
        inst = L.short(fn)[:100]
        ig = IG(fn, inline=lambda a, b, c: False)
        live = ig.live_nodes()
        active = None
        r_ = recs.get(fn.record) or {}
        if "ACTIVE_FLAG" in r_.get("consts", {}):
            active = int(r_["consts"]["ACTIVE_FLAG"])
        sweeps = [n for n in L.call_nodes(ig, name="for_each", live=live) if L.lambda_of(ig, ig.rarg(n, len(n.ev.get("args", [])) - 1)) is not None]
        flush = [n for n in ig.ev_nodes() if n.id in live and L.is_param_invoke(n)]
        if len(sweeps) != 1 or active is None:
            ctx.ob("C14.R6", inst, False, fn.loc, "for_each no longer has the shape <sweep over the link array with a callback> + ACTIVE_FLAG constant")
            continue
        sw = sweeps[0]
        lam = L.lambda_of(ig, ig.rarg(sw, len(sw.ev["args"]) - 1))
        lig = IG(lam, inline=lambda a, b, c: False)
        llive = lig.live_nodes()
        calls = [n for n in lig.ev_nodes() if n.id in llive and n.ev["e"] == "call" and n.ev.get("name") == "operator()" and
                 strip_cast(n.ev.get("this")).get("k") == "cap"]
        # the marker of an open run and the running id: the two captured variables the client callback is given / the flush compares
        ok_a = bool(calls)
        marker = None
        for c in calls:
            a0 = strip_cast(c.ev["args"][0]) if c.ev.get("args") else None
            if not (isinstance(a0, dict) and a0.get("k") == "cap"):
                ok_a = False
                continue
            marker = a0.get("n")
            resets = [n for n in lig.ev_nodes() if n.id in llive and n.ev["e"] == "asg" and strip_cast(n.ev.get("lhs")).get("k") == "cap" and
                      strip_cast(n.ev["lhs"]).get("n") == marker]
            # every path from the report to the next loop test / the exit closes the run
            r1 = lig.reach([m for m, _ in c.succ], removed=resets)
            ok_a = ok_a and bool(resets) and lig.exit.id not in r1 and c.id not in r1
        ctx.ob("C14.R6a", inst, ok_a, lam.loc,
               "after a run of live ids was reported the open-run marker must be closed on every path: otherwise the same run is "
               "reported again (an id held by two reports)", site="for_each@run-closed")
        # R6b the trailing run is flushed after the sweep with (marker, running id)
        ok_b = False
        for f_ in flush:
            if ig.path_exists(sw, f_) and len(f_.ev.get("args", [])) == 2:
                a0, a1 = strip_cast(ig.resolve(f_.ev["args"][0], f_.frame)), strip_cast(ig.resolve(f_.ev["args"][1], f_.frame))
                ok_b = isinstance(a0, dict) and a0.get("n") == marker and isinstance(a1, dict) and a1.get("k") == "l" and a1.get("n") != marker
        ctx.ob("C14.R6b", inst, ok_b, fn.loc,
               "a run of live ids that is still open when the sweep ends must be reported afterwards: otherwise the highest live ids are "
               "never enumerated", site="for_each@trailing-run")
        # R6c run boundaries are found with the allocator's ACTIVE_FLAG
        finds = [n for n in lig.ev_nodes() if n.id in llive and n.ev["e"] == "call" and n.ev.get("name") in ("find", "find_if", "find_if_not")]
        ok_c = len(finds) == 2
        kinds = set()
        for f_ in finds:
            last = strip_cast(lig.resolve(f_.ev["args"][-1], f_.frame)) if f_.ev.get("args") else None
            if f_.ev["name"] == "find":
                cv = const_val(last)
                if cv is None and isinstance(last, dict) and last.get("k") == "g" and "::" in (last.get("n") or ""):
                    # the constant passed by reference: evaluated from the record it is a static member of
                    rn, cn = last["n"].rsplit("::", 1)
                    cv = (recs.get(rn) or {}).get("consts", {}).get(cn)
                    cv = int(cv) if cv is not None else None
                ok_c = ok_c and cv == active
                kinds.add("start")
            else:
                pl = L.lambda_of(lig, last)
                rets = [ev for _, ev in pl.all_events() if ev["e"] == "ret"] if pl is not None else []
                good = False
                for rv in rets:
                    at, pol = L.bool_atom(rv.get("v"), True)
                    cp = L.cmp_parts(at)
                    if cp is not None:
                        op, l_, r__ = cp
                        cst = const_val(r__) if const_val(r__) is not None else const_val(l_)
                        neg = (op == "!=") == pol
                        want_neg = f_.ev["name"] == "find_if"
                        good = cst == active and op in ("==", "!=") and neg == want_neg
                ok_c = ok_c and good and len(rets) == 1
                kinds.add("end")
        ctx.ob("C14.R6c", inst, ok_c and kinds == set(["start", "end"]), lam.loc,
               "a live run starts at the first link equal to ACTIVE_FLAG (%s) and ends at the first link different from it: any "
               "other constant reports freed ids as live or live ids as free" % active, site="for_each@active-flag")
        # R6d pointer and id advance together
        ok_d, nd = True, 0
        for bid, b in lam.blocks.items():
            ia = [e for e in b.get("events", []) if e["e"] == "asg" and e.get("op") == "="]
            pi = [e for e in ia if strip_cast(e["lhs"]).get("k") == "l"]
            vi = [e for e in ia if strip_cast(e["lhs"]).get("k") == "cap" and strip_cast(e["lhs"]).get("n") != marker]
            if len(pi) == 1 and len(vi) == 1:
                nd += 1
                fr = lig.frames[0]
                lp = L.linear(lig, pi[0]["rhs"], fr)
                lv = L.linear(lig, vi[0]["rhs"], fr)
                # both are <found position> + c with the same c
                ok_d = ok_d and lp[1] == lv[1] and len(lp[0]) == 1 and len(lv[0]) >= 1
        ctx.ob("C14.R6d", inst, ok_d and nd >= 4, lam.loc,
               "the scan pointer and the running id must advance by the same amount in every branch (found: skip the boundary "
               "element in both; not found: neither)", site="for_each@advance")


def thread_id_instance_agreement(ctx, rule, fb):
    """ThreadIdImpl<Leaky> has one id allocator per (tag type, Leaky): the value a thread holds, the bound of 'ever used' and the
    enumeration of live ids must all come from that same instance"""
    n = 0
    for fn in fb.find(pred=lambda f: re.match(r"^babylon::internal::ThreadIdImpl<.*>$", f.record or "") and
                      f.name in ("current_thread_id", "end", "for_each") and f.has_cfg()):
        own = re.match(r"^babylon::internal::ThreadIdImpl<(.*)>$", fn.record).group(1)
        tag = (fn.d.get("targl") or [None])[0]
        insts = [ev for _, ev in fn.all_events() if ev["e"] == "call" and ev.get("name") == "instance" and
                 "IdAllocatorFotType<" in (ev.get("callee", "") or "")]
        if not insts:
            continue
        n += 1
        bad = []
        for ev in insts:
            m = re.search(r"IdAllocatorFotType<(.*)>::instance$", ev.get("callee", ""))
            args = m.group(1) if m else ""
            flav = args.rsplit(",", 1)[-1].strip() if "," in args else "false"
            if flav != own or (tag is not None and not args.startswith(tag)):
                bad.append(args)
        ctx.ob(rule, "%s<%s>" % (L.short(fn)[:90], tag), not bad, fn.loc,
               "ThreadIdImpl<%s>::%s<%s> uses the allocator instance IdAllocatorFotType<%s>: ids, the 'ever used' bound and the "
               "live-id enumeration of one thread-id flavour must come from one allocator, or for_each_alive follows the lifetimes "
               "of other threads" % (own, fn.name, tag, "; ".join(bad)), site="ThreadIdImpl::%s@same-allocator" % fn.name)
    ctx.floor(rule, n, 5, "ThreadIdImpl members that pick an allocator instance")


def L_deep_field(desc, name):
    for d in walk(desc):
        if d.get("k") == "f" and d.get("n") == name:
            return True
        if d.get("k") == "e":
            return False
    return False


SWEEP = ["concurrent/test_id_allocator.cpp",
         "concurrent/test_deposit_box.cpp"]


# name anchors (validated by tools/rename_sweep.py; a vanished name is exit 2, see core.check_anchor_names)
ANCHORS = {
    '_allocator': ['^babylon::internal::ThreadIdImpl(<|$)'],
    '_next_value': ['^babylon::IdAllocator(<|$)'],
    '_object': ['^babylon::DepositBox(<|$)'],
    '_value': ['^babylon::internal::ThreadIdImpl(<|$)'],
    'free_head': ['^babylon::IdAllocator(<|$)'],
    'next_value': ['^babylon::IdAllocator(<|$)'],
    'version': ['^babylon::DepositBox(<|$)', '^babylon::VersionedValue(<|$)'],
}
