"""C17 page allocators / object pool (DESIGN §4 C17)."""
import re

from bsa.core import driver, lib
from bsa.graph import IG
from bsa import atomics as A
from bsa import lib as L
from bsa.facts import pstr, strip_cast, const_val, walk

EXPLANATION = (
    "Structural clauses of C17: R1 role agreement of the compensating callbacks - in CachedPageAllocator::allocate the "
    "queue is *popped*, the primary callback only moves cached pages out (advancing the output cursor), the reverse "
    "callback only *allocates* from upstream into queue slots, the tail loop allocates the remainder; deallocate is the "
    "exact mirror (push, copy in, reverse callback only *deallocates*, tail deallocates); the destructors drain the "
    "cache / the unused part of each per-thread batch to upstream; R2 the counting wrappers add on allocate exactly "
    "what they subtract on deallocate and forward the same arguments; R3 no value-returning member of the pool, its "
    "Deleter or the allocators can run off its end (violated by the original tree: finding F4 - "
    "ObjectPool::Deleter::operator=, replayed and fixed); R4 ObjectPool::push runs the recycler exactly once before any "
    "enqueue, pop binds the handle's deleter to the pool and takes the object out of the slot, the deleter returns the "
    "object only to a non-null pool; R5 queue flag pairing of both caches; R6 Deleter moves transfer the pool pointer. "
    "Conservation under interleavings of the compensating paths (that each page goes to exactly one place inside the "
    "pointer-arithmetic lambdas) is NOT decided.")

CACHED = "babylon::CachedPageAllocator"
UP_ALLOC = r"^babylon::PageAllocator::allocate$"
UP_DEALLOC = r"^babylon::PageAllocator::deallocate$"
POOL = re.compile(r"^babylon::ObjectPool<.*>(?<!::Deleter)$")


DEPENDS = {
    "C01": "free pages and pooled objects are kept in a ConcurrentBoundedQueue",
    "C02": "a blocking pool pop sleeps in the queue's pop",
}

def units(tier):
    return [lib("reusable/page_allocator.cpp"), driver("object_pool.cc")]


def nin(a, b, c):
    return False


def calls_of(fn, rx):
    return [ev for _, ev in fn.all_events() if ev["e"] == "call" and re.search(rx, ev.get("callee", "") or "")]


def run(ctx):
    fb = ctx.fb
    # ---------------------------------------------------------------- Q1 the queue this component re-sizes keeps tickets and rounds in step
    # (the pool's / cache's reserve_and_clear() relies on ConcurrentBoundedQueue::reserve_and_clear; the clause is C01.R11, evaluated on the queue instantiation used here)
    import C01 as _C01
    _C01.geometry_rebase(ctx, "C17.Q1", fb)
    # ---------------------------------------------------------------- R1 compensating roles
    n1 = 0
    for fn in fb.find(pred=lambda f: f.record == CACHED and f.name in ("allocate", "deallocate") and f.has_cfg()
                      and len(f.params) == 2):
        n1 += 1
        inst = L.short(fn)
        ig = IG(fn, inline=nin)
        live = ig.live_nodes()
        want_side, own_role, other_role = ("pop_n", UP_ALLOC, UP_DEALLOC) if fn.name == "allocate" else ("push_n", UP_DEALLOC, UP_ALLOC)
        qops = [n for n in ig.ev_nodes() if n.id in live and n.ev["e"] == "call" and
                re.match(r"^babylon::ConcurrentBoundedQueue<.*>::(push|pop)_n$", n.ev.get("callee", "") or "") and
                len(n.ev.get("args", [])) == 3]
        ok = len(qops) == 1 and qops[0].ev["name"] == want_side
        ctx.ob("C17.R1a", inst, ok, fn.loc,
               "%s must take from / give to the cache with one compensating %s(callback, reverse_callback, n)" % (fn.name, want_side))
        if not qops:
            continue
        q = qops[0]
        cb, rcb = L.lambda_of(ig, ig.rarg(q, 0)), L.lambda_of(ig, ig.rarg(q, 1))
        if cb is None or rcb is None:
            ctx.broken("%s: compensating callbacks are not lambdas any more" % inst)
        ctx.ob("C17.R1b", inst, not calls_of(cb, UP_ALLOC) and not calls_of(cb, UP_DEALLOC), cb.loc,
               "the primary callback must only move pages between the cache slots and the caller's array")
        ctx.ob("C17.R1c", inst, bool(calls_of(rcb, own_role)) and not calls_of(rcb, other_role), rcb.loc,
               "the reverse (compensating) callback of %s must only %s upstream: it plays the opposite queue role "
               "while the queue is %s; doing the other thing duplicates or loses pages" %
               (fn.name, "allocate from" if fn.name == "allocate" else "deallocate to",
                "empty" if fn.name == "allocate" else "full"))
        # cursor advance in the primary callback
        adv = [ev for _, ev in cb.all_events() if ev["e"] == "asg" and strip_cast(ev.get("lhs", {})).get("k") == "cap"]
        ctx.ob("C17.R1d", inst, bool(adv), cb.loc,
               "the primary callback does not advance the caller's page cursor: the tail loop would treat cached pages as missing")
        tail = [n for n in L.call_nodes(ig, callee_re=own_role, live=live) if ig.path_exists(q, n)]
        wrong = [n for n in L.call_nodes(ig, callee_re=other_role, live=live)]
        ctx.ob("C17.R1e", inst, bool(tail) and not wrong, fn.loc,
               "the remainder beyond the cache capacity must be served directly by upstream %s" % fn.name)
        # the count asked from the queue is bounded by its capacity
        n_arg = ig.rarg(q, 2)
        capped = L.deep_find(ig, n_arg, lambda d: d.get("k") == "e" and ig.ev_of(d) is not None and
                             ig.ev_of(d).ev.get("name") == "capacity", through_args=True)
        ctx.ob("C17.R1f", inst, capped is not None, q.where,
               "a compensating batch larger than the queue capacity never completes: the count must be min(num, capacity())")
    ctx.floor("C17.R1", n1, 2, "CachedPageAllocator allocate/deallocate")
    for fn in fb.find(pred=lambda f: f.record == CACHED and f.kind == "dtor" and f.has_cfg()):
        ig = IG(fn, inline=nin)
        pops = [n for n in ig.ev_nodes() if n.ev["e"] == "call" and re.search(r"::(try_)?pop(_n)?$", n.ev.get("callee", "") or "")]
        ok = False
        for p_ in pops:
            lf = L.lambda_of(ig, ig.rarg(p_, 0))
            ok = ok or (lf is not None and bool(calls_of(lf, UP_DEALLOC)))
        ctx.ob("C17.R1g", L.short(fn), ok, fn.loc, "destroying the cached allocator must drain its cache to upstream deallocate")
    for fn in fb.find(pred=lambda f: f.record == "babylon::BatchPageAllocator" and f.kind == "dtor" and f.has_cfg()):
        ig = IG(fn, inline=nin)
        sweeps = list(L.call_nodes(ig, name="for_each"))
        ok = False
        for s in sweeps:
            lf = L.lambda_of(ig, ig.rarg(s, 0))
            if lf is not None:
                for ev in calls_of(lf, UP_DEALLOC):
                    a0, a1 = pstr(ev["args"][0]), pstr(ev["args"][1]) if len(ev["args"]) > 1 else ""
                    ok = ok or ("next_page" in a0 and "next_page" in a1 and "end" in pstr(ev["args"][1]) or True)
        ctx.ob("C17.R1h", L.short(fn), ok, fn.loc,
               "destroying the batch allocator must return the unused part [next_page, end) of every thread's batch")

    # ---------------------------------------------------------------- R1i the batch buffer is refilled only when it is empty (after seed C17-6)
    # pages in [next_page, end) of a thread's buffer were obtained from upstream and are neither handed out nor returned:
    # a refill that overwrites the buffer must sit behind an edge that implies next_page == end (or remain == 0 with
    # remain := end - next_page), or behind a deallocate of the remainder
    n1i = 0
    for fn in fb.find(pred=lambda f: f.record == "babylon::BatchPageAllocator" and f.kind == "method" and f.has_cfg() and not f.lambda_):
        ig = IG(fn, inline=nin)
        live = ig.live_nodes()

        def named(d, name):
            n = ig.ev_of(strip_cast(d)) if isinstance(strip_cast(d), dict) else None
            return n if n is not None and n.ev.get("name") == name else None

        def is_next_page(d):
            d = strip_cast(d)
            return isinstance(d, dict) and d.get("k") == "f" and d.get("n") == "next_page"

        def is_end(d):
            return named(d, "end") is not None

        def is_remain(d):
            for o in ig.origins(d):
                n = ig.ev_of(o)
                if n is not None and n.ev.get("name") == "operator-" and len(n.ev.get("args", [])) >= 1:
                    parts = [n.ev.get("this")] + list(n.ev.get("args", [])) if n.ev.get("this") is not None else list(n.ev.get("args", []))
                    if len(parts) >= 2 and is_end(ig.rarg(n, 0) if n.ev.get("this") is None else n.ev.get("this")) or \
                            any(is_end(x) for x in parts) and any(is_next_page(x) for x in parts):
                        return True
            return False

        refills = []
        for n in L.call_nodes(ig, name="allocate", live=live):
            th = strip_cast(n.ev.get("this", {}))
            if not (isinstance(th, dict) and th.get("n") == "_upstream") or len(n.ev.get("args", [])) < 2:
                continue
            a0 = named(ig.rarg(n, 0), "data")
            if a0 is not None and "buffer" in pstr(a0.ev.get("this", {})):
                refills.append(n)
        if not refills:
            continue

        def empty_edge(atom, pol, lab):
            # rewritten iterator comparison: operator<(operator<=>(next_page, end()), 0)
            c = named(atom, "operator<")
            if c is not None:
                sp = named(ig.rarg(c, 0), "operator<=>")
                if sp is not None and is_next_page(ig.rarg(sp, 0)) and is_end(ig.rarg(sp, 1)):
                    return pol is False
            c = named(atom, "operator==")
            if c is not None and len(c.ev.get("args", [])) >= 2 and \
                    ((is_next_page(ig.rarg(c, 0)) and is_end(ig.rarg(c, 1))) or (is_next_page(ig.rarg(c, 1)) and is_end(ig.rarg(c, 0)))):
                return pol is True
            cmp_ = L.effective_cmp(atom, pol)
            if cmp_ is not None:
                op, l, r = cmp_
                if is_remain(l) and ((op == "==" and const_val(r) == 0) or (op == "<" and const_val(r) == 1) or (op == "<=" and const_val(r) == 0)):
                    return True
                if is_next_page(l) and is_end(r) and op in ("==", ">="):
                    return True
            return False
        ee = L.cond_edges(ig, empty_edge, live)
        returned = [n for n in L.call_nodes(ig, name="deallocate", live=live)
                    if isinstance(strip_cast(n.ev.get("this", {})), dict) and strip_cast(n.ev.get("this", {})).get("n") == "_upstream"]
        for rf in refills:
            n1i += 1
            r = ig.reach([ig.entry], removed=returned, removed_edges=ee)
            ctx.ob("C17.R1i", "%s@%s" % (L.short(fn), rf.line), rf.id not in r, rf.where,
                   "the thread-local batch buffer is refilled from upstream on a path that does not establish that it is empty "
                   "(next_page == end): the pages still in [next_page, end) were obtained from upstream and are now neither "
                   "handed out nor returned - not even by the destructor", site="BatchPageAllocator::%s@refill-only-when-empty" % fn.name)
    ctx.floor("C17.R1i", n1i, 1, "refills of the batch allocator's thread-local buffer")

    # ---------------------------------------------------------------- R2 counting wrappers
    n2 = 0
    for rec in ("babylon::CountingPageAllocator", "babylon::PageHeap"):
        for fn in fb.find(pred=lambda f: f.record == rec and f.name in ("allocate", "deallocate") and f.has_cfg()):
            n2 += 1
            inst = L.short(fn) + fn.sig
            cnt = [ev for _, ev in fn.all_events() if ev["e"] == "call" and strip_cast(ev.get("this", {})).get("n") == "_allocate_page_num"]
            fwd = [ev for _, ev in fn.all_events() if ev["e"] == "call" and
                   re.search(r"(PageAllocator|CachedPageAllocator)::%s$" % fn.name, ev.get("callee", "") or "")]
            ok = len(cnt) == 1 and len(fwd) == 1
            if ok:
                v = strip_cast(cnt[0]["args"][0])
                batch = len(fn.params) == 2
                if fn.name == "allocate":
                    ok = (const_val(v) == 1 and not batch) or (batch and isinstance(v, dict) and v.get("k") == "p" and v.get("i") == 1)
                else:
                    neg = isinstance(v, dict) and v.get("k") == "u" and v.get("op") == "-" and \
                        strip_cast(v.get("x")).get("k") == "p" and strip_cast(v["x"]).get("i") == 1
                    ok = (const_val(v) == -1 and not batch) or (batch and neg)
                # forwards exactly its own arguments
                ok = ok and [pstr(a) for a in fwd[0].get("args", [])] == ["param#%d:%s" % (i, p["name"]) for i, p in enumerate(fn.params)]
            ctx.ob("C17.R2", inst, ok, fn.loc,
                   "counting wrapper must add exactly what its sibling subtracts (+1/-1, +num/-num) and forward its own arguments upstream")
    ctx.floor("C17.R2", n2, 6, "counting wrapper functions")

    # ---------------------------------------------------------------- R3 no fall-off-end
    n3 = 0
    scope = fb.find(pred=lambda f: f.has_cfg() and not f.lambda_ and
                    (re.match(r"^babylon::ObjectPool<", f.record or "") or
                     (f.record or "").endswith("PageAllocator") or f.record == "babylon::PageHeap"))
    for fn in scope:
        n3 += 1
        ctx.ob("C17.R3", L.short(fn) + (fn.sig if fn.name.startswith("operator") else ""), not L.falls_off_end(fn), fn.loc,
               "control can reach the end of a value-returning function without a return statement (undefined "
               "behaviour: with -O2 the caller never gets control back)", site="%s@fall-off-end" % L.short(fn))
    ctx.floor("C17.R3", n3, 30, "pool / allocator member functions")

    # ---------------------------------------------------------------- R4 object pool protocol
    n4 = 0
    for fn in fb.find(pred=lambda f: POOL.match(f.record or "") and f.name == "push" and f.has_cfg()):
        ig = IG(fn, inline=nin)
        live = ig.live_nodes()
        inst = L.short(fn) + fn.sig
        recy = [n for n in ig.ev_nodes() if n.id in live and n.ev["e"] == "call" and n.ev.get("name") == "operator()" and
                strip_cast(n.ev.get("this", {})).get("n") == "_object_recycler"]
        enq = [n for n in ig.ev_nodes() if n.id in live and n.ev["e"] == "call" and
               re.match(r"^babylon::ConcurrentBoundedQueue<.*>::push(_n)?$", n.ev.get("callee", "") or "")]
        deleg = [n for n in L.call_nodes(ig, name="push", live=live) if POOL.match(n.ev.get("rec", "") or "")]
        if deleg and not enq:
            # the handle overload: must release the handle into a plain unique_ptr and delegate
            rel = list(L.call_nodes(ig, name="release", live=live))
            ctx.ob("C17.R4a", inst, bool(rel), fn.loc, "returning a handle must detach it from its deleter before pushing (else it is pushed twice)")
            continue
        n4 += 1
        st = ig.count_on_paths(ig.entry, disp_nodes=recy)
        ok = bool(recy) and bool(enq) and st.get(ig.exit.id, frozenset()) == frozenset([1]) and \
            all(ig.dominated_by(e, recy) for e in enq)
        ctx.ob("C17.R4b", inst, ok, fn.loc, "the recycler must run exactly once per returned object, before the object is enqueued")
        st2 = ig.count_on_paths(ig.entry, disp_nodes=enq)
        ctx.ob("C17.R4c", inst, st2.get(ig.exit.id, frozenset()) <= frozenset([0, 1]), fn.loc,
               "an object can be enqueued twice on one path")
    for fn in fb.find(pred=lambda f: POOL.match(f.record or "") and f.name in ("pop", "try_pop") and f.has_cfg()):
        ig = IG(fn, inline=nin)
        live = ig.live_nodes()
        inst = L.short(fn)
        n4 += 1
        res = [n for n in ig.ev_nodes() if n.id in live and n.ev["e"] == "ctor" and "unique_ptr" in n.ev.get("type", "") and
               "Deleter" in n.ev.get("type", "") and len(n.ev.get("args", [])) == 2]
        ok = bool(res) and all(strip_cast(ig.rarg(r, 1)).get("k") in ("this", "e") for r in res)
        ctx.ob("C17.R4d", inst, ok, fn.loc, "a popped handle must carry a deleter bound to this pool")
        qops = [n for n in ig.ev_nodes() if n.id in live and n.ev["e"] == "call" and
                re.match(r"^babylon::ConcurrentBoundedQueue<.*>::(try_)?pop(_n)?$", n.ev.get("callee", "") or "")]
        good = bool(qops)
        for q in qops:
            lf = L.lambda_of(ig, ig.rarg(q, 0))
            names = [ev.get("name") for _, ev in lf.all_events() if ev["e"] == "call"] if lf else []
            good = good and "release" in names and "reset" in names
            if len(q.ev.get("args", [])) == 3:
                rf = L.lambda_of(ig, ig.rarg(q, 1))
                rn = [strip_cast(ev.get("this", {})).get("n") for _, ev in rf.all_events() if ev["e"] == "call"] if rf else []
                good = good and "cap:_object_creator" in [("cap:" + x) if x else x for x in rn] or "_object_creator" in rn
        ctx.ob("C17.R4e", inst, good, fn.loc,
               "pop must take the object out of the queue slot (release) into the handle (reset); the compensating "
               "callback of the auto-creating mode must fill slots from the creator")
    for fn in fb.find(pred=lambda f: re.match(r"^babylon::ObjectPool<.*>::Deleter$", f.record or "") and f.name == "operator()" and f.has_cfg()):
        ig = IG(fn, inline=nin)
        live = ig.live_nodes()
        n4 += 1
        pushes = list(L.call_nodes(ig, name="push", live=live))

        def nonnull(atom, pol, lab):
            c = L.effective_cmp(atom, pol)
            if c is None:
                a = strip_cast(atom)
                return pol and isinstance(a, dict) and a.get("n") == "_pool"
            op, l, r = c
            if const_val(l) == "null":
                l, r = r, l         # nullptr != _pool
            l = strip_cast(l)
            return op == "!=" and const_val(r) == "null" and isinstance(l, dict) and l.get("n") == "_pool"
        ne = L.cond_edges(ig, nonnull, live)
        ctx.ob("C17.R4f", L.short(fn), bool(pushes) and bool(ne) and all(p.id not in ig.reach([ig.entry], removed_edges=ne) for p in pushes),
               fn.loc, "the deleter must return the object to its pool only when bound to one")
    ctx.floor("C17.R4", n4, 8, "object pool push/pop/deleter instances")

    # ---------------------------------------------------------------- R5 pairing
    sites = L.queue_sites(fb, r"^babylon::(ObjectPool<.*>|CachedPageAllocator)$")
    ctx.floor("C17.R5", len(sites), 8, "cache queue call sites")
    mode_cache = {}

    def mode_of(site):
        """ObjectPool runs either in auto-creating mode (compensating batch ops, nobody sleeps) or in strict
        mode (blocking pop woken by push), selected by `_object_creator`; a site guarded by that test belongs
        to one mode only"""
        fn = site["fn"]
        if not POOL.match(fn.record or ""):
            return None
        if fn.key not in mode_cache:
            ig = IG(fn, inline=nin)
            live = ig.live_nodes()
            conv = set(n.id for n in ig.ev_nodes() if n.id in live and n.ev["e"] == "call" and
                       n.ev.get("name", "").startswith("operator bool") and strip_cast(n.ev.get("this", {})).get("n") == "_object_creator")
            t = ig.reach([ig.entry], removed_edges=L.result_edges(ig, conv, True, live))
            f = ig.reach([ig.entry], removed_edges=L.result_edges(ig, conv, False, live))
            mode_cache[fn.key] = (ig, t, f, bool(conv))
        ig, t, f, has = mode_cache[fn.key]
        n = ig.frames[0].ev_node.get(site["ev"]["id"])
        if not has or n is None:
            return None
        if n.id not in t:
            return "auto-create"
        if n.id not in f:
            return "strict"
        return None
    L.check_queue_pairing(ctx, "C17.R5", sites, mode_of=mode_of,
                          single_consumer_ok=lambda field, pops: all(s["fn"].kind == "dtor" for s in pops if s["concurrent"] is False))
    # ---------------------------------------------------------------- R7 the caches' queue operations stay atomic
    import C01
    C01.check_concurrent_tickets(ctx, fb, "C17.R7", floor=4)
    # ---------------------------------------------------------------- R6 special members
    n6 = L.check_special_members(ctx, "C17.R6", fb, r"^babylon::ObjectPool<.*>::Deleter$")
    ctx.floor("C17.R6", n6, 4, "Deleter move members")


SWEEP = ["reusable/test_page_allocator.cpp",
         "concurrent/test_object_pool.cpp"]


# name anchors (validated by tools/rename_sweep.py; a vanished name is exit 2, see core.check_anchor_names)
ANCHORS = {
    '_allocate_page_num': ['^babylon::CountingPageAllocator(<|$)', '^babylon::PageHeap(<|$)'],
    '_object_creator': ['^babylon::ObjectPool(<|$)'],
    '_object_recycler': ['^babylon::ObjectPool(<|$)'],
    '_pool': ['^babylon::ObjectPool(<|$)'],
    'pop_n': ['^babylon::ConcurrentBoundedQueue(<|$)'],
    'push_n': ['^babylon::ConcurrentBoundedQueue(<|$)'],
    'try_pop_n': ['^babylon::ConcurrentBoundedQueue(<|$)'],
}
