"""C16 execution queue (DESIGN §4 C16)."""
import re

from bsa.core import driver
from bsa.graph import IG
from bsa import atomics as A
from bsa import lib as L
from bsa.facts import pstr, strip_cast, const_val, walk

EXPLANATION = (
    "Structural clauses of C16 on ConcurrentExecutionQueue<T,S>: R1 in the consumer loop every value of the expected "
    "event count that can reach the exit CAS(events: expected -> 0) was read *before* an (empty) poll of the queue - "
    "every path from a definition of that value to the CAS passes a pop - so an item published after the poll makes the "
    "CAS fail instead of being stranded; the loop leaves only on the CAS-success edge; the CAS releases and join() "
    "acquires; R2 a producer pushes before it signals, and launches a consumer exactly on the edge where the fetch_add "
    "result is 0; R3 after a refused launch the counter is rolled back by CAS to 0, -1 is returned only after that CAS "
    "succeeded and a failed CAS retries the launch; R4 the non-concurrent pop has a single call site (the consumer) and "
    "the queue flags pair. Per-producer order and schedule-level exclusivity of the consume function are NOT decided.")

QREC = re.compile(r"^babylon::ConcurrentExecutionQueue<.*>$")
EVENTS = L.field_pred(name="_events", rec_re=r"^babylon::ConcurrentExecutionQueue<.*>$")
POP_RE = r"^babylon::ConcurrentBoundedQueue<.*>::(try_)?pop(_n)?(_exclusively_until)?$"
PUSH_RE = r"^babylon::ConcurrentBoundedQueue<.*>::(try_)?push(_n)?$"


def units(tier):
    return [driver("execution_queue.cc")]


def nin(a, b, c):
    return False


def ev_ops(ig, live):
    return [a for a in A.atomic_ops(ig, live) if a.op != "fence" and L.deep_find(ig, a.obj, EVENTS) is not None]


def run(ctx):
    fb = ctx.fb
    # ---------------------------------------------------------------- Q1 the queue this component re-sizes keeps tickets and rounds in step
    # (the execution queue's initialize() relies on ConcurrentBoundedQueue::reserve_and_clear; the clause is C01.R11, evaluated on the queue instantiation used here)
    import C01 as _C01
    _C01.geometry_rebase(ctx, "C16.Q1", fb)
    fns = fb.find(pred=lambda f: QREC.match(f.record or "") and f.has_cfg() and not f.lambda_)
    ctx.floor("C16.fns", len(fns), 20, "ConcurrentExecutionQueue member instances")
    n1 = n2 = n3 = 0
    # private helpers of the same class are part of the function that calls them (extracting one poll of the queue into a
    # member must not change the verdict) and are then not analysed on their own; functions that operate on the event
    # counter are rule subjects of their own and stay calls
    igs = {}
    absorbed = set()
    for fn in fns:
        def plain_helper(fr, ev, callee, rec=fn.record):
            if callee.record != rec or callee.lambda_:
                return False
            return not any(e["e"] == "call" and "_events" in pstr(e.get("this", {})) for _, e in callee.all_events())
        igs[fn.key] = IG(fn, inline=plain_helper)
        for fr in igs[fn.key].frames[1:]:
            absorbed.add(fr.fn.key)
    for fn in fns:
        if fn.key in absorbed:
            continue
        ig = igs[fn.key]
        live = ig.live_nodes()
        inst = L.short(fn)
        ops = ev_ops(ig, live)
        pops = list(L.call_nodes(ig, callee_re=POP_RE, live=live))
        pushes = list(L.call_nodes(ig, callee_re=PUSH_RE, live=live))
        cas = [a for a in ops if a.op == "cas"]
        cas_ids = set(a.node.id for a in cas)
        succ = L.result_edges(ig, cas_ids, True, live)
        fail = L.result_edges(ig, cas_ids, False, live)
        # ---------------------------------------------------------------- R1 consumer
        if pops and not cas:
            n1 += 1
            ctx.ob("C16.R1d", inst, False, fn.loc,
                   "the consumer leaves without a compare-exchange on the event counter: a producer that signalled "
                   "after the last poll is overwritten and its item stranded", site="%s@exit-cas" % inst)
        if pops and cas:
            n1 += 1
            for c in cas:
                exp = strip_cast(ig.rarg(c.node, 0))
                ctx.ob("C16.R1a", inst, const_val(ig.rarg(c.node, 1)) == 0 and A.releases(c.order) and A.acquires(c.fail_order),
                       c.node.where, "the consumer's exit must be CAS(events: expected -> 0) with release (join() and the "
                       "next producer synchronise on it) and acquire on failure")
                if not (isinstance(exp, dict) and exp.get("k") == "l"):
                    ctx.broken("%s: expected operand of the exit CAS is not a local" % inst)
                bad = None
                for d, rhs, how in ig.local_defs(ig.frames[0], exp["id"]):
                    if d is c.node:
                        start = [m for m, _ in d.succ]
                        r = ig.reach(start, removed=pops)
                        if c.node.id in r:
                            bad = d
                    elif ig.path_exists(d, c.node, avoiding=pops):
                        bad = d
                detail = ig.describe_path(ig.witness_path(bad, c.node, removed=pops)) if bad is not None and bad is not c.node else None
                ctx.ob("C16.R1b", inst, bad is None, (bad.where if bad else c.node.where),
                       "the event count the exit CAS expects can have been read after the last poll of the queue: an item "
                       "pushed between the empty poll and that read is counted as seen, the CAS succeeds and the item is "
                       "stranded with no consumer", detail, site="%s@exit-cas" % inst)
                for d, rhs, how in ig.local_defs(ig.frames[0], exp["id"]):
                    if rhs is not None and not (isinstance(rhs, dict) and rhs.get("lab")):
                        srcs = ig.origins(rhs)
                        ok = all(ig.ev_of(o) is not None and A.classify(ig, ig.ev_of(o)) is not None and
                                 A.classify(ig, ig.ev_of(o)).op == "load" and A.acquires(A.classify(ig, ig.ev_of(o)).order)
                                 for o in srcs)
                        ctx.ob("C16.R1c", "%s@%s" % (inst, d.line), ok, d.where,
                               "the expected event count must be an acquire load of the event counter")
            ctx.ob("C16.R1d", inst, bool(succ) and ig.exit.id not in ig.reach([ig.entry], removed_edges=succ), fn.loc,
                   "the consumer can stop without having reset the event counter by a successful CAS: the next producer "
                   "sees a non-zero count and launches nobody")
            for (s, d) in fail:
                r = ig.reach([ig.nodes[d]], removed=pops)
                ctx.ob("C16.R1e", inst, ig.exit.id not in r and not any(c.node.id in r for c in cas), fn.loc,
                       "after a failed exit CAS the consumer must poll the queue again")
        # ---------------------------------------------------------------- R2 producer signal
        rmw = [a for a in ops if a.op == "rmw"]
        if rmw and not pops:
            n2 += 1
            ids = set(a.node.id for a in rmw)

            def first(atom, pol, lab):
                c = L.effective_cmp(atom, pol)
                if c is None:
                    return False
                op, l, r = c
                if const_val(l) == 0 and const_val(r) is None:
                    l, r = r, l
                return op == "==" and const_val(r) == 0 and any(ig.ev_of(o) is not None and ig.ev_of(o).id in ids for o in ig.origins(l))
            fe = L.cond_edges(ig, first, live)
            launch = [n for n in ig.ev_nodes() if n.id in live and n.ev["e"] == "call" and QREC.match(n.ev.get("rec", "") or "")]
            ok = bool(fe) and bool(launch) and all(x.id not in ig.reach([ig.entry], removed_edges=fe) for x in launch)
            for (s, d) in fe:
                if ig.exit.id in ig.reach([ig.nodes[d]], removed=launch):
                    ok = False
            for a in rmw:
                ok = ok and a.name == "fetch_add" and const_val(ig.rarg(a.node, 0)) == 1
            ctx.ob("C16.R2a", inst, ok, fn.loc,
                   "a consumer must be launched exactly on the edge where fetch_add(1) on the event counter returned 0 "
                   "(not launched: items wait for ever; launched otherwise: two consumers run at once)")
        if pushes:
            sig = [n for n in ig.ev_nodes() if n.id in live and n.ev["e"] == "call" and QREC.match(n.ev.get("rec", "") or "")]
            if sig:
                ctx.ob("C16.R2b", inst + fn.sig, all(ig.dominated_by(s, pushes) for s in sig), fn.loc,
                       "the item must be pushed before the push event is signalled")
        if fn.name == "join":
            loads = [a for a in ops if a.op == "load"]
            ctx.ob("C16.R2c", inst, bool(loads) and all(A.acquires(a.order) for a in loads), fn.loc,
                   "join() must observe the event counter with acquire")
            # R2d join returns only on the edge where the counter it loaded was 0
            lids = set(a.node.id for a in loads)
            zero_e = L.result_edges(ig, lids, False, live)

            def is_zero(atom, pol, lab):
                c = L.effective_cmp(atom, pol)
                return c is not None and c[0] == "==" and const_val(c[2]) == 0 and \
                    any(ig.ev_of(o) is not None and ig.ev_of(o).id in lids for o in ig.origins(c[1]))
            zero_e = list(zero_e) + L.cond_edges(ig, is_zero, live)
            rets = [n for n in ig.ev_nodes() if n.id in live and n.ev["e"] == "ret"] or [ig.exit]
            r0 = ig.reach([ig.entry], removed_edges=zero_e)
            ctx.ob("C16.R2d", inst, bool(zero_e) and ig.exit.id not in r0, fn.loc,
                   "join() can return without having seen the event counter at 0: items accepted before the call may still be "
                   "unconsumed when it returns", site="join@returns-on-zero")
        if fn.name == "consume_until_empty":
            # R2e the consumer hands the items to the function installed by initialize()
            pops_ = [n for n in ig.ev_nodes() if n.id in live and n.ev["e"] == "call" and re.search(POP_RE, n.ev.get("callee", "") or "")]
            okc = bool(pops_) and all(strip_cast(ig.rarg(p_, 0)).get("n") == "_consume_function" for p_ in pops_)
            ctx.ob("C16.R2e", inst, okc, fn.loc, "the consumer must pass every popped item to the installed consume function",
                   site="consume_until_empty@consume-function")
        if fn.name == "initialize":
            st, stn = {}, {}
            for n in ig.ev_nodes():
                if n.id in live and n.ev["e"] == "asg" and strip_cast(n.ev.get("lhs")).get("k") == "f":
                    st[strip_cast(n.ev["lhs"]).get("n")] = strip_cast(ig.resolve(n.ev.get("rhs"), n.frame))
                    stn.setdefault(strip_cast(n.ev["lhs"]).get("n"), []).append(n)
                if n.id in live and n.ev["e"] == "call" and n.ev.get("name") == "operator=" and strip_cast(n.ev.get("this")).get("k") == "f":
                    st[strip_cast(n.ev["this"]).get("n")] = strip_cast(ig.rarg(n, 0))
                    stn.setdefault(strip_cast(n.ev["this"]).get("n"), []).append(n)
            for k_ in ("_executor", "_consume_function"):
                if k_ in st and ig.exit.id in ig.reach([ig.entry], removed=stn[k_]):
                    del st[k_]          # not installed on every path
            def from_param(d, i):
                return any(isinstance(sd, dict) and sd.get("k") == "p" and sd.get("i") == i for sd in walk(d))
            ctx.ob("C16.R2f", inst[:110], "_executor" in st and from_param(st["_executor"], 1) and
                   "_consume_function" in st and from_param(st["_consume_function"], 2) and
                   any(n.ev.get("name") == "reserve_and_clear" for n in ig.ev_nodes() if n.id in live and n.ev["e"] == "call"), fn.loc,
                   "initialize must install the caller's executor and consume function and size the queue",
                   site="initialize@installs")
        # ---------------------------------------------------------------- R3 launch failure roll-back
        submits = list(L.call_nodes(ig, callee_re=r"^babylon::Executor::submit$", live=live))
        if submits and not cas:
            n3 += 1
            ctx.ob("C16.R3b", inst, False, fn.loc,
                   "a refused launch is not rolled back by a CAS on the event counter: the counter stays non-zero and no "
                   "later producer ever launches a consumer")
        if submits and cas:
            n3 += 1
            sub_ids = set(s.id for s in submits)

            def accepted(atom, pol, lab):
                c = L.effective_cmp(atom, pol)
                return c is not None and c[0] == "==" and const_val(c[2]) == 0 and \
                    any(ig.ev_of(o) is not None and ig.ev_of(o).id in sub_ids for o in ig.origins(c[1]))
            ae = L.cond_edges(ig, accepted, live)
            rets = [n for n in ig.ev_nodes() if n.id in live and n.ev["e"] == "ret"]
            r0 = [r for r in rets if const_val(r.ev.get("v")) == 0]
            rneg = [r for r in rets if const_val(r.ev.get("v")) not in (0, None)]
            ok = bool(ae) and bool(r0) and all(r.id not in ig.reach([ig.entry], removed_edges=ae) for r in r0)
            ctx.ob("C16.R3a", inst, ok, fn.loc, "success may be reported only when the executor accepted the consumer")
            ok = bool(rneg) and bool(succ) and all(r.id not in ig.reach([ig.entry], removed_edges=succ) for r in rneg) and \
                all(const_val(ig.rarg(c.node, 1)) == 0 for c in cas)
            ctx.ob("C16.R3b", inst, ok, fn.loc,
                   "failure may be reported only after the event counter was rolled back to 0 by a successful CAS "
                   "(otherwise no later producer ever launches a consumer)")
            ok = True
            for (s, d) in fail:
                r = ig.reach([ig.nodes[d]], removed=submits)
                if ig.exit.id in r:
                    ok = False
            ctx.ob("C16.R3c", inst, ok and bool(fail), fn.loc,
                   "when the roll-back CAS fails (more events arrived) the launch must be retried")
            for c in cas:
                init = [rhs for d, rhs, how in ig.local_defs(ig.frames[0], strip_cast(ig.rarg(c.node, 0)).get("id")) if how == "decl"]
                ctx.ob("C16.R3d", inst, [const_val(x) for x in init] == [1], c.node.where,
                       "the roll-back must first expect the count this producer installed (1)")
    ctx.floor("C16.R1", n1, 3, "consumer loops")
    ctx.floor("C16.R2", n2, 3, "signal functions")
    ctx.floor("C16.R3", n3, 3, "launch functions")
    # ---------------------------------------------------------------- R4 pairing
    sites = L.queue_sites(fb, r"^babylon::ConcurrentExecutionQueue<.*>$")
    ctx.floor("C16.R4", len(sites), 9, "queue call sites")
    L.check_queue_pairing(ctx, "C16.R4", sites)


SWEEP = ["concurrent/test_execution_queue.cpp"]
DEPENDS = {"C01": "the execution queue hands every item through ConcurrentBoundedQueue push / try_pop: a lost or doubled element there is a lost or doubled item here",
           "C02": "producers block in the queue's push when it is full and rely on the consumer's pop to wake them"}


# name anchors (validated by tools/rename_sweep.py; a vanished name is exit 2, see core.check_anchor_names)
ANCHORS = {
    '_consume_function': ['^babylon::ConcurrentExecutionQueue(<|$)'],
    '_events': ['^babylon::ConcurrentExecutionQueue(<|$)'],
    '_executor': ['^babylon::ConcurrentExecutionQueue(<|$)'],
    'reserve_and_clear': ['^babylon::ConcurrentBoundedQueue(<|$)'],
    'start_consumer': ['^babylon::ConcurrentExecutionQueue(<|$)'],
    'try_pop_n': ['^babylon::ConcurrentBoundedQueue(<|$)'],
}
