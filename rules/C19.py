"""C19 counters / enumerable thread locals (DESIGN §4 C19)."""
import re

from bsa.core import driver, lib
from bsa.graph import IG
from bsa import atomics as A
from bsa import lib as L
from bsa.facts import pstr, strip_cast, const_val, walk

EXPLANATION = (
    "Structural clauses of C19: R1 a compact thread-local zeroes its offset in every thread's cache line *before* it "
    "returns its instance id to the allocator (a new counter recycling the id starts from zero), and derives storage "
    "index and in-line offset from the same id with the same divisor; R2 the per-thread cache of EnumerableThreadLocal "
    "is keyed by an id minted by a fetch_add (never reused), id and item are written together after the slot exists, "
    "and the fast path hands out the cached item only when the cached id equals this instance's id; R3 aggregate "
    "readers (adder/summer/maxer/miner value()) sum over for_each - every slot ever used, bounded by ThreadId::end - "
    "never over for_each_alive, whose bound comes from the live-id enumeration; R4 the comparer's reset only bumps the "
    "version and a write under a stale version overwrites both value and version, readers ignore stale slots; R5 the "
    "adder updates its own slot by a plain read-add-write and reset zeroes all slots; R6 move members transfer every "
    "field. Exactness of sums under concurrent readers is NOT decided.")

ETL = re.compile(r"^babylon::EnumerableThreadLocal<.*>$")
CTL = re.compile(r"^babylon::CompactEnumerableThreadLocal<.*>$")


DEPENDS = {
    "C04": "the per-thread slots live in a ConcurrentVector",
    "C14": ("slots are addressed by ThreadId", "all"),
}

def units(tier):
    return [driver("counter.cc"), lib("concurrent/counter.cpp")]


def nin(a, b, c):
    return False


def run(ctx):
    fb = ctx.fb
    # ---------------------------------------------------------------- R1 compact destructor / constructor
    dts = fb.find(pred=lambda f: CTL.match(f.record or "") and f.kind == "dtor" and f.has_cfg())
    ctx.floor("C19.R1", len(dts), 3, "CompactEnumerableThreadLocal destructors")
    for fn in dts:
        inst = L.short(fn)
        ig = IG(fn, inline=nin)
        live = ig.live_nodes()
        sweeps = [n for n in L.call_nodes(ig, name="for_each", live=live)]
        frees = [n for n in L.call_nodes(ig, callee_re=r"IdAllocator<.*>::deallocate$", live=live)]
        zero_ok = False
        for s in sweeps:
            lam = L.lambda_of(ig, ig.rarg(s, 0))
            if lam is None:
                continue
            for _, ev in lam.all_events():
                if ev["e"] == "asg" and ev.get("op") == "=":
                    lhs = strip_cast(ev["lhs"])
                    if isinstance(lhs, dict) and lhs.get("k") == "idx" and strip_cast(lhs.get("b", {})).get("n") == "value" and \
                            "_cacheline_offset" in pstr(lhs.get("i")):
                        zero_ok = True
                if ev["e"] == "call" and ev.get("name") == "operator=" and ev.get("this"):
                    th = strip_cast(ev["this"])
                    if isinstance(th, dict) and th.get("k") == "idx" and "_cacheline_offset" in pstr(th.get("i")):
                        zero_ok = True
        sweep_all = all(re.search(r"EnumerableThreadLocal<.*>::for_each$", s.ev.get("callee", "") or "") for s in sweeps)
        ok = bool(sweeps) and bool(frees) and zero_ok and sweep_all and all(ig.dominated_by(f, sweeps) for f in frees)
        ctx.ob("C19.R1a", inst, ok, fn.loc,
               "the destructor must zero its offset in every thread's line (for_each over all slots ever used) before "
               "releasing the instance id; otherwise a counter that recycles the id starts from a stale value")
        for f in frees:
            ok = any("_instance_id" in pstr(o) for o in ig.origins(ig.rarg(f, 0))) or \
                L.deep_find(ig, ig.rarg(f, 0), lambda d: d.get("k") == "f" and d.get("n") == "_instance_id", through_args=True) is not None
            ctx.ob("C19.R1b", inst, ok, f.where, "the id released must be this instance's id")
    for fn in fb.find(pred=lambda f: CTL.match(f.record or "") and f.kind == "ctor" and not f.params and f.has_cfg()):
        inits = {}
        for _, ev in fn.all_events():
            if ev["e"] == "init" and "field" in ev:
                inits[ev["field"]] = ev
        off = strip_cast((inits.get("_cacheline_offset", {}).get("v") or {}))
        if isinstance(off, dict) and off.get("k") == "init" and off.get("xs"):
            off = strip_cast(off["xs"][0])
        sto = None
        for _, ev in fn.all_events():
            if ev["e"] == "call" and ev.get("name") == "storage":
                sto = strip_cast(ev["args"][0])
        ok = isinstance(off, dict) and off.get("op") == "%" and isinstance(sto, dict) and sto.get("op") == "/" and \
            pstr(off["l"]) == pstr(sto["l"]) and const_val(off["r"]) == const_val(sto["r"]) and "_instance_id" in pstr(off["l"])
        alloc = any(ev["e"] == "call" and ev.get("name") == "allocate_id" for _, ev in fn.all_events())
        ctx.ob("C19.R1c", L.short(fn), ok and alloc, fn.loc,
               "storage index and in-line offset must be id / N and id % N of the same freshly allocated id and the same N")

    # ---------------------------------------------------------------- R2 per-thread cache
    n2 = 0
    for fn in fb.find(pred=lambda f: ETL.match(f.record or "") and f.has_cfg() and not f.lambda_):
        ig = IG(fn, inline=nin)
        live = ig.live_nodes()
        inst = L.short(fn)
        wid = [n for n in ig.ev_nodes() if n.id in live and n.ev["e"] == "asg" and pstr(n.ev["lhs"]).endswith("_s_cache.id")]
        wit = [n for n in ig.ev_nodes() if n.id in live and n.ev["e"] == "asg" and pstr(n.ev["lhs"]).endswith("_s_cache.item")]
        if wid or wit:
            n2 += 1
            ens = list(L.call_nodes(ig, name="ensure", live=live))
            ok = len(wid) == 1 and len(wit) == 1 and strip_cast(wid[0].ev["rhs"]).get("n") == "_id" and \
                ig.postdominated_by(wid[0], wit) and ig.dominated_by(wit[0], wid) and bool(ens) and \
                all(ig.dominated_by(w, ens) for w in wid + wit)
            if ok:
                ok = any(ig.ev_of(o) is not None and ig.ev_of(o).ev.get("name") == "ensure" or
                         L.deep_find(ig, o, lambda d: d.get("k") == "e" and ig.ev_of(d) is not None and ig.ev_of(d).ev.get("name") == "ensure") is not None
                         for o in ig.origins_at(wit[0].ev["rhs"], wit[0]))
                tid = L.deep_find(ig, ig.rarg(ens[0], 0), lambda d: d.get("k") == "e" and ig.ev_of(d) is not None and
                                  (ig.ev_of(d).ev.get("name") == "current_thread_id"), through_args=True)
                ok = ok and tid is not None
            ctx.ob("C19.R2a", inst, ok, fn.loc,
                   "the per-thread cache must be filled with (this instance's id, pointer to the slot of the current "
                   "thread id) together, after the slot exists")
        if fn.name == "local_fast":
            n2 += 1

            def hit(atom, pol, lab):
                c = L.effective_cmp(atom, pol)
                return c is not None and c[0] == "==" and sorted([pstr(c[1]).split(".")[-1].split("->")[-1], pstr(c[2]).split("->")[-1]]) == ["_id", "id"]
            he = L.cond_edges(ig, hit, live)
            rets = [n for n in ig.ev_nodes() if n.id in live and n.ev["e"] == "ret" and const_val(n.ev.get("v")) != "null"]
            ok = bool(he) and bool(rets) and all(r.id not in ig.reach([ig.entry], removed_edges=he) for r in rets) and \
                all(pstr(r.ev.get("v")).endswith("_s_cache.item") for r in rets)
            ctx.ob("C19.R2b", inst, ok, fn.loc, "the cached item may be used only when the cached id equals this instance's id")
        if fn.name == "fetch_add_id":
            n2 += 1
            ops = A.atomic_ops(ig, live)
            ok = len(ops) == 1 and ops[0].op == "rmw" and ops[0].name == "fetch_add" and const_val(ig.rarg(ops[0].node, 0)) == 1
            ctx.ob("C19.R2c", inst, ok, fn.loc, "instance ids must be minted by fetch_add(1) (never reused)")
    ctx.floor("C19.R2", n2, 3, "cache-related functions")
    recs = fb.records()
    for name, rec in recs.items():
        if ETL.match(name):
            f = [x for x in rec["fields"] if x["name"] == "_id"]
            ctx.ob("C19.R2d", name.replace("babylon::", "")[:80], bool(f) and f[0].get("has_init"), "%s:%s" % (rec["file"], rec["line"]),
                   "every instance must get a fresh id through the in-class initialiser")

    # ---------------------------------------------------------------- R3 who sums over what
    n3 = 0
    for fn in fb.find(pred=lambda f: f.has_cfg() and not f.lambda_ and f.name in ("value", "reset") and
                      re.match(r"^babylon::(GenericsConcurrentAdder<.*>|ConcurrentSummer|internal::ConcurrentComparer<.*>)$", f.record or "")):
        calls = [ev for _, ev in fn.all_events() if ev["e"] == "call"]
        if not any(c.get("name") in ("for_each", "for_each_alive") for c in calls):
            continue
        n3 += 1
        ok = any(c.get("name") == "for_each" and strip_cast(c.get("this", {})).get("n") == "_storage" for c in calls) and \
            not any(c.get("name") == "for_each_alive" for c in calls)
        ctx.ob("C19.R3a", L.short(fn) + fn.sig, ok, fn.loc,
               "an aggregate (and the reset that starts a new count) must walk every slot ever used (for_each): contributions of "
               "exited threads live in slots that for_each_alive skips", site="%s::%s@every-slot" % (fn.record, fn.name))
    ctx.floor("C19.R3a", n3, 6, "aggregate value() / reset() functions that walk the slots")
    n3 = 0
    for fn in fb.find(pred=lambda f: (ETL.match(f.record or "") or CTL.match(f.record or "")) and f.has_cfg() and
                      f.name in ("for_each", "for_each_alive") and not f.lambda_):
        n3 += 1
        ig = IG(fn, inline=nin)
        live = ig.live_nodes()
        names = [n.ev.get("name") for n in ig.ev_nodes() if n.id in live and n.ev["e"] == "call"]
        callees = [n.ev.get("callee", "") for n in ig.ev_nodes() if n.id in live and n.ev["e"] == "call"]
        if CTL.match(fn.record or ""):
            ok = any(re.search(r"EnumerableThreadLocal<.*>::%s$" % fn.name, c) for c in callees)
        elif fn.name == "for_each":
            fe = [n for n in ig.ev_nodes() if n.id in live and n.ev["e"] == "call" and n.ev.get("name") == "for_each"]
            ok = len(fe) == 1 and const_val(ig.rarg(fe[0], 0)) == 0 and \
                L.deep_find(ig, ig.rarg(fe[0], 1), lambda d: d.get("k") == "e" and ig.ev_of(d) is not None and
                            re.search(r"ThreadId(Impl<.*>)?::end$", ig.ev_of(d).ev.get("callee", "") or ""), through_args=True) is not None
            ok = ok and not any(re.search(r"ThreadId(Impl<.*>)?::for_each$", c) for c in callees)
        else:
            ok = any(re.search(r"ThreadId(Impl<.*>)?::for_each$", c) for c in callees)
        ctx.ob("C19.R3b", L.short(fn)[:140], ok, fn.loc,
               "for_each must cover slots [0, ThreadId::end) (ever used); for_each_alive must follow the live-id enumeration")
    ctx.floor("C19.R3b", n3, 8, "for_each / for_each_alive instances")
    import C14 as _C14
    _C14.thread_id_instance_agreement(ctx, "C19.R3c", fb)

    # ---------------------------------------------------------------- R4 comparer
    n4 = 0
    for fn in fb.find(pred=lambda f: re.match(r"^babylon::internal::ConcurrentComparer<.*>$", f.record or "") and f.has_cfg() and not f.lambda_):
        ig = IG(fn, inline=nin)
        live = ig.live_nodes()
        inst = L.short(fn)
        if fn.name == "reset":
            n4 += 1
            w = [n for n in ig.ev_nodes() if n.id in live and n.ev["e"] in ("asg", "call")]
            ok = len(w) == 1 and w[0].ev["e"] == "asg" and strip_cast(w[0].ev["lhs"]).get("n") == "_version" and w[0].ev["op"] in ("++", "+=")
            ctx.ob("C19.R4a", inst, ok, fn.loc, "reset of a comparer must only advance the version (slots are invalidated lazily)")
        if fn.name == "operator<<":
            n4 += 1

            def stale(atom, pol, lab):
                c = L.effective_cmp(atom, pol)
                return c is not None and c[0] == "!=" and "version" in pstr(c[1]) and "version" in pstr(c[2])
            se = L.cond_edges(ig, stale, live)
            wv = [n for n in ig.ev_nodes() if n.id in live and n.ev["e"] == "asg" and pstr(n.ev["lhs"]).endswith(".version")]
            wval = [n for n in ig.ev_nodes() if n.id in live and n.ev["e"] == "asg" and pstr(n.ev["lhs"]).endswith(".value")]
            ok = bool(se) and bool(wv) and bool(wval)
            for (s, d) in se:
                r1 = ig.reach([ig.nodes[d]], removed=wv)
                r2 = ig.reach([ig.nodes[d]], removed=[x for x in wval if strip_cast(x.ev["rhs"]).get("k") == "p"])
                if ig.exit.id in r1 or ig.exit.id in r2:
                    ok = False
            for x in wv:
                ok = ok and strip_cast(x.ev["rhs"]).get("n") == "_version" and x.id not in ig.reach([ig.entry], removed_edges=se)
            ctx.ob("C19.R4b", inst, ok, fn.loc,
                   "a write into a slot of a previous period must overwrite the value and stamp the current version")
    for fn in fb.find(pred=lambda f: f.lambda_ and f.has_cfg() and re.search(r"ConcurrentComparer<.*>::value", f.outer or "")):
        n4 += 1
        ig = IG(fn, inline=nin)
        live = ig.live_nodes()

        def current(atom, pol, lab):
            c = L.effective_cmp(atom, pol)
            return c is not None and c[0] == "==" and "version" in pstr(c[1]) and "version" in pstr(c[2])
        ce = L.cond_edges(ig, current, live)
        w = [n for n in ig.ev_nodes() if n.id in live and n.ev["e"] == "asg"]
        ok = bool(ce) and bool(w) and all(x.id not in ig.reach([ig.entry], removed_edges=ce) for x in w)
        ctx.ob("C19.R4c", L.short(fn)[:120], ok, fn.loc, "slots stamped with an older version must not contribute to the extreme")
    ctx.floor("C19.R4", n4, 6, "comparer functions")

    # ---------------------------------------------------------------- R5 adder
    n5 = 0
    for fn in fb.find(pred=lambda f: re.match(r"^babylon::GenericsConcurrentAdder<.*>$", f.record or "") and f.has_cfg() and f.name == "count"):
        n5 += 1
        ig = IG(fn, inline=nin)
        live = ig.live_nodes()
        loc = list(L.call_nodes(ig, name="local", live=live))
        w = [n for n in ig.ev_nodes() if n.id in live and n.ev["e"] == "asg"]
        ok = len(loc) == 1 and len(w) == 1
        if ok:
            rhs = strip_cast(w[0].ev.get("rhs"))
            ok = (w[0].ev["op"] == "+=" and strip_cast(rhs).get("k") == "p") or \
                (w[0].ev["op"] == "=" and isinstance(rhs, dict) and rhs.get("op") == "+" and pstr(rhs["l"]) == pstr(w[0].ev["lhs"]) and
                 strip_cast(rhs["r"]).get("k") == "p")
            ok = ok and any(ig.ev_of(o) is loc[0] for o in ig.origins(ig.resolve(w[0].ev["lhs"], w[0].frame)))
        ctx.ob("C19.R5a", L.short(fn), ok, fn.loc, "count must add the value to this thread's own slot (local())")
    for fn in fb.find(pred=lambda f: f.lambda_ and f.has_cfg() and re.search(r"GenericsConcurrentAdder<.*>::reset", f.outer or "")):
        n5 += 1
        w = [ev for _, ev in fn.all_events() if ev["e"] == "asg"]
        ctx.ob("C19.R5b", L.short(fn)[:100], len(w) == 1 and const_val(w[0].get("rhs")) == 0 and strip_cast(w[0]["lhs"]).get("k") == "p",
               fn.loc, "adder reset must zero every slot")
    # R5c/R5d summer: one sample adds (value, 1); the pair update is <own slot> = <own slot> + <argument>, written back to the own slot
    for fn in fb.find(pred=lambda f: f.record == "babylon::ConcurrentSummer" and f.name == "operator<<" and f.has_cfg()):
        ig = IG(fn, inline=nin)
        live = ig.live_nodes()
        if "Summary" not in (fn.params[0].get("type") or ""):
            n5 += 1
            fw = [n for n in L.call_nodes(ig, name="operator<<", live=live)]
            ok = len(fw) == 1
            if ok:
                a0 = strip_cast(ig.rarg(fw[0], 0))
                xs = a0.get("xs") if isinstance(a0, dict) else None
                ok = isinstance(xs, list) and len(xs) == 2 and strip_cast(xs[0]).get("k") == "p" and const_val(xs[1]) == 1
            ctx.ob("C19.R5c", L.short(fn) + fn.sig, ok, fn.loc, "one sample must contribute (value, 1) to (sum, count)", site="summer@one-sample")
            continue
        n5 += 1
        loc = list(L.call_nodes(ig, name="local", live=live))
        loads = [n for n in ig.ev_nodes() if n.id in live and n.ev["e"] == "call" and re.match(r"^(_mm_load_si128|vld1q_s64)$", n.ev.get("name", "") or "")]
        adds = [n for n in ig.ev_nodes() if n.id in live and n.ev["e"] == "call" and re.match(r"^(_mm_add_epi64|vaddq_s64)$", n.ev.get("name", "") or "")]
        stores = [n for n in ig.ev_nodes() if n.id in live and n.ev["e"] == "call" and re.match(r"^(_mm_store_si128|vst1q_s64)$", n.ev.get("name", "") or "")]

        def own(d):
            return bool(loc) and any(ig.ev_of(o) is loc[0] for sd in walk(strip_cast(ig.resolve(d, ig.frames[0]))) if isinstance(sd, dict) and sd.get("k") == "l"
                                     for o in ig.origins(sd))

        def arg_(d):
            return any(isinstance(sd, dict) and sd.get("k") == "p" for sd in walk(strip_cast(ig.resolve(d, ig.frames[0]))))
        ok = len(loc) == 1 and len(loads) == 2 and len(adds) == 1 and len(stores) == 1
        if ok:
            l_own = [n for n in loads if own(n.ev["args"][0])]
            l_arg = [n for n in loads if arg_(n.ev["args"][0]) and not own(n.ev["args"][0])]
            ok = len(l_own) == 1 and len(l_arg) == 1
            if ok:
                srcs = set()
                for a in adds[0].ev["args"]:
                    for o in ig.origins_at(strip_cast(ig.resolve(a, adds[0].frame)), adds[0]):
                        n_ = ig.ev_of(strip_cast(o))
                        if n_ is not None:
                            srcs.add(n_.id)
                ok = srcs == set([l_own[0].id, l_arg[0].id])
                st_args = stores[0].ev["args"]
                own_i = [i for i, a in enumerate(st_args) if own(a)]
                val_i = [i for i, a in enumerate(st_args) if any(ig.ev_of(strip_cast(o)) is adds[0] for o in ig.origins_at(strip_cast(ig.resolve(a, stores[0].frame)), stores[0]))]
                ok = ok and len(own_i) == 1 and len(val_i) == 1 and ig.dominated_by(stores[0], adds) and \
                    all(ig.postdominated_by(ig.entry, stores) for _ in [0])
        ctx.ob("C19.R5d", L.short(fn) + fn.sig[:40], ok, fn.loc,
               "the (sum, count) pair of this thread must be updated as one 128-bit <own slot> = <own slot> + <argument>: any other "
               "data flow loses or double-counts contributions", site="summer@pair-update")
    ctx.floor("C19.R5", n5, 5, "adder count/reset, summer updates")

    # ---------------------------------------------------------------- R6 special members
    n6 = L.check_special_members(ctx, "C19.R6", fb, r"^babylon::(Compact)?EnumerableThreadLocal<.*>$")
    ctx.floor("C19.R6", n6, 6, "thread-local move members")


SWEEP = ["concurrent/test_counter.cpp",
         "concurrent/test_thread_local.cpp"]


# name anchors (validated by tools/rename_sweep.py; a vanished name is exit 2, see core.check_anchor_names)
ANCHORS = {
    '_cacheline_offset': ['^babylon::CompactEnumerableThreadLocal(<|$)'],
    '_instance_id': ['^babylon::CompactEnumerableThreadLocal(<|$)'],
    '_storage': ['^babylon::CompactEnumerableThreadLocal(<|$)', '^babylon::ConcurrentSampler(<|$)', '^babylon::ConcurrentSummer(<|$)', '^babylon::EnumerableThreadLocal(<|$)', '^babylon::GenericsConcurrentAdder(<|$)', '^babylon::internal::ConcurrentComparer(<|$)'],
    '_version': ['^babylon::ConcurrentSampler(<|$)', '^babylon::internal::ConcurrentComparer(<|$)'],
    'allocate_id': ['^babylon::CompactEnumerableThreadLocal(<|$)'],
    'current_thread_id': ['^babylon::internal::ThreadIdImpl(<|$)'],
    'ensure': ['^babylon::ConcurrentVector(<|$)'],
    'storage': ['^babylon::CompactEnumerableThreadLocal(<|$)'],
    'version': ['^babylon::ConcurrentSampler::Sample(<|$)', '^babylon::internal::ConcurrentComparer(<|$)'],
}
