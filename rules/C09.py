"""C09 Epoch (DESIGN §4 C09)."""
import re

from bsa.core import driver
from bsa.graph import IG
from bsa import atomics as A
from bsa import lib as L
from bsa.facts import pstr, strip_cast, const_val

EXPLANATION = (
    "Structural clauses of the Epoch safety argument (a store-then-load Dekker pattern between a reader's slot "
    "publication and the reclaimer's tick + scan): R1 region entry stores the *global* version into the own slot only "
    "on the outermost entry (lock_times == 1) and a seq_cst fence (or a seq_cst store) follows on every path to "
    "return; R2 tick is a seq_cst read-modify-write (or is followed by a seq_cst fence) and returns old+1; R3 the "
    "low-water-mark scan loads every slot with acquire, bounds the scan by 'all ids ever allocated' "
    "(IdAllocator::end / ThreadId::end), and takes the minimum; R4 leaving stores UINT64_MAX with release only on the "
    "outermost exit and the nesting counter is balanced; R5 Accessor is move-only, moves by swapping both fields, and "
    "unregisters at most once. Only the x86-64 preprocessor branch of tick() is seen. The Dekker argument itself "
    "(that these orders suffice) is NOT decided.")

SLOT_VERSION = L.field_pred(name="version", rec_re=r"^babylon::Epoch::Slot$")
GLOBAL_VERSION = L.field_pred(name="_version", rec_re=r"^babylon::Epoch$")
UMAX = 2 ** 64 - 1


DEPENDS = {
    "C04": "the per-thread version slots live in a ConcurrentVector",
    "C14": ("slots are addressed by ThreadId / IdAllocator values", "all"),
}

def units(tier):
    return [driver("epoch_gc.cc")]


def is_epoch(fn):
    return fn.record == "babylon::Epoch" and not fn.lambda_


def epoch_inline(fr, ev, callee):
    return callee.record in ("babylon::Epoch", "babylon::Epoch::Accessor") and not callee.lambda_


def ops_on(ig, live, field):
    return [a for a in A.atomic_ops(ig, live) if a.op != "fence" and L.deep_find(ig, a.obj, field) is not None]


def outermost_edges(ig, live):
    def pred(atom, pol, lab):
        c = L.effective_cmp(atom, pol)
        if c is None:
            return False
        op, l, r = c
        return op == "==" and const_val(r) == 1 and \
            L.deep_find(ig, l, lambda d: d.get("k") == "f" and d.get("n") == "lock_times") is not None
    return L.cond_edges(ig, pred, live)


def run(ctx):
    fb = ctx.fb
    fns = fb.find(pred=lambda f: is_epoch(f) and f.has_cfg())
    ctx.floor("C09.fns", len(fns), 9, "Epoch member functions")
    n_enter = n_leave = n_tick = n_scan = 0
    # helpers of Epoch are part of the function that calls them (extracting the slot publication into a member must not
    # change the verdict) and are then not analysed on their own; the public protocol steps, which also call each other
    # (lock() -> lock(index)), are rule subjects of their own and stay calls
    igs = {}
    absorbed = set()
    for fn in fns:
        ig = IG(fn, inline=lambda fr, ev, callee, root=fn: callee.record == root.record and not callee.lambda_ and
                callee.name not in ("lock", "unlock", "tick", "low_water_mark"))
        igs[fn.key] = ig
        for fr in ig.frames[1:]:
            absorbed.add(fr.fn.key)
    for fn in fns:
        if fn.key in absorbed:
            continue
        ig = igs[fn.key]
        live = ig.live_nodes()
        inst = L.short(fn)
        sv = ops_on(ig, live, SLOT_VERSION)
        gv = ops_on(ig, live, GLOBAL_VERSION)
        fences = [a for a in A.atomic_ops(ig, live) if a.op == "fence"]
        for a in sv + gv + fences:
            if a.unresolved:
                ctx.broken("unresolved memory order at %s" % a.node.where)
        stores = [a for a in sv if a.op == "store"]
        for st in stores:
            val = ig.rarg(st.node, 0)
            if const_val(val) == UMAX:
                # ------------------------------------------------------ R4 leave
                n_leave += 1
                ctx.ob("C09.R4a", inst, A.releases(st.order), st.node.where,
                       "leaving a region must release-store UINT64_MAX: reads inside the region may otherwise be "
                       "ordered after the slot is marked free; got %s" % A.ORDER_NAME.get(st.order))
                oe = outermost_edges(ig, live)
                ctx.ob("C09.R4b", inst, bool(oe) and st.node.id not in ig.reach([ig.entry], removed_edges=oe),
                       st.node.where, "slot is marked free on a nested unlock (must be only when lock_times == 1)")
                decs = [n for n in ig.ev_nodes() if n.id in live and n.ev["e"] == "asg" and
                        strip_cast(n.ev.get("lhs", {})).get("n") == "lock_times"]
                ok = len(decs) == 1 and (decs[0].ev["op"] == "--" or
                                         (decs[0].ev["op"] == "-=" and const_val(decs[0].ev.get("rhs")) == 1)) and \
                    ig.postdominated_by(ig.entry, decs)
                ctx.ob("C09.R4c", inst, ok, fn.loc, "nesting counter must be decremented by one on every path of unlock")
                continue
            # ---------------------------------------------------------- R1 enter
            n_enter += 1
            src_ok = True
            srcs = ig.origins(val)
            for o in srcs:
                n = ig.ev_of(o)
                a = A.classify(ig, n) if n is not None else None
                if not (a is not None and a.op == "load" and L.deep_find(ig, a.obj, GLOBAL_VERSION) is not None):
                    src_ok = False
            ctx.ob("C09.R1a", inst, src_ok and bool(srcs), st.node.where,
                   "the version published on region entry must be a load of the global epoch, got %s" % pstr(val))
            sc = [f.node for f in fences if f.order == A.SEQ_CST]
            ok = st.order == A.SEQ_CST or ig.postdominated_by(st.node, sc)
            ctx.ob("C09.R1b", inst, ok, st.node.where,
                   "the slot publication (%s store) is not followed by a seq_cst fence on every path to return: the "
                   "reader's subsequent loads may be satisfied before the store is visible to low_water_mark()" %
                   A.ORDER_NAME.get(st.order))
            oe = outermost_edges(ig, live)
            ctx.ob("C09.R1c", inst, bool(oe) and st.node.id not in ig.reach([ig.entry], removed_edges=oe), st.node.where,
                   "slot version is (re)published on a nested lock: it must be written only when lock_times == 1, "
                   "otherwise an inner region moves the outer region's epoch forward")
            incs = [n for n in ig.ev_nodes() if n.id in live and n.ev["e"] == "asg" and
                    strip_cast(n.ev.get("lhs", {})).get("n") == "lock_times"]
            ok = len(incs) == 1 and (incs[0].ev["op"] == "++" or
                                     (incs[0].ev["op"] == "+=" and const_val(incs[0].ev.get("rhs")) == 1)) and \
                ig.dominated_by(st.node, incs)
            ctx.ob("C09.R1d", inst, ok, fn.loc, "nesting counter must be incremented by one before the outermost test")
        # -------------------------------------------------------------- R2 tick
        rmws = [a for a in gv if a.op == "rmw"]
        others = [a for a in gv if a.op in ("cas", "store")]
        if fn.name == "tick" or rmws or others:
            if fn.name == "tick" or others:
                ctx.ob("C09.R2d", inst, bool(rmws) and not others, (others[0].node.where if others else fn.loc),
                       "the global epoch must be advanced by an unconditional read-modify-write (fetch_add) of the caller "
                       "itself: with a compare-exchange (or store) the value a retiring thread gets back can have been "
                       "produced by another thread's tick while the caller's unlink was not yet visible, so it does not "
                       "order the unlink before later region entries", site="%s@advance" % inst)
        if rmws:
            n_tick += 1
            sc = [f.node for f in fences if f.order == A.SEQ_CST]
            for a in rmws:
                ok = a.order == A.SEQ_CST or ig.postdominated_by(a.node, sc)
                ctx.ob("C09.R2a", inst, ok, a.node.where,
                       "tick must be totally ordered with the readers' entry fences: seq_cst RMW or a seq_cst fence "
                       "before return; got %s" % A.ORDER_NAME.get(a.order))
                ctx.ob("C09.R2b", inst, a.name == "fetch_add" and const_val(ig.rarg(a.node, 0)) == 1, a.node.where,
                       "tick must advance the global epoch by exactly one")
            rets = [n for n in ig.ev_nodes() if n.id in live and n.ev["e"] == "ret" and "v" in n.ev]
            ok = bool(rets)
            for r in rets:
                good = False
                for o in ig.origins(ig.resolve(r.ev["v"], r.frame)):
                    o = strip_cast(o)
                    if isinstance(o, dict) and o.get("k") == "b" and o.get("op") == "+":
                        tot_const = [const_val(o["l"]), const_val(o["r"])]
                        other = o["r"] if const_val(o["l"]) == 1 else o["l"]
                        n = ig.ev_of(strip_cast(other))
                        if 1 in tot_const and n is not None and n.id in set(a.node.id for a in rmws):
                            good = True
                ok = ok and good
            ctx.ob("C09.R2c", inst, ok, fn.loc, "tick must return the new epoch (old value + 1)")
    ctx.floor("C09.R1", n_enter, 1, "region-entry stores")
    ctx.floor("C09.R4", n_leave, 1, "region-exit stores")
    if not any(o["rule"] == "C09.R2d" and not o["ok"] for o in ctx.obligations):
        ctx.floor("C09.R2", n_tick, 1, "tick functions")

    # ---------------------------------------------------------------- R3 scan
    scans = [f for f in fns if f.name == "low_water_mark"]
    ctx.floor("C09.R3", len(scans), 1, "low_water_mark")
    for fn in scans:
        inst = L.short(fn)
        ig = IG(fn, inline=epoch_inline)
        live = ig.live_nodes()
        fe = [n for n in L.call_nodes(ig, name="for_each", live=live)]
        if ctx.named("C09.R3a", fe, "for_each", r"ConcurrentVector<") is None:
            continue
        ok = len(fe) == 1
        bound_ok = False
        lam = None
        if ok:
            bound = ig.rarg(fe[0], 1)
            has_alloc_end = L.deep_find(ig, bound, lambda d: d.get("k") == "e" and ig.ev_of(d) is not None and
                                        re.search(r"IdAllocator<.*>::end$", ig.ev_of(d).ev.get("callee", "") or ""),
                                        through_args=True) is not None
            has_thread_end = L.deep_find(ig, bound, lambda d: d.get("k") == "e" and ig.ev_of(d) is not None and
                                         re.search(r"ThreadId(Impl<.*>)?::end$", ig.ev_of(d).ev.get("callee", "") or ""),
                                         through_args=True) is not None
            bound_ok = has_alloc_end and has_thread_end and const_val(ig.rarg(fe[0], 0)) == 0
            lam = strip_cast(ig.rarg(fe[0], 2))
        ctx.ob("C09.R3a", inst, ok and bound_ok, fn.loc,
               "the scan must cover slots [0, all ids ever allocated): bound must derive from IdAllocator::end() and "
               "ThreadId::end<Epoch>() (a live-only enumeration misses a reader whose thread is being created)")
        if ok:
            # R3e the instance's own accessor count decides: the process-wide thread count is a fall-back for "no accessor"
            own = [n for n in ig.ev_nodes() if n.id in live and n.ev["e"] == "call" and re.search(r"IdAllocator<.*>::end$", n.ev.get("callee", "") or "")]
            thr = [n for n in ig.ev_nodes() if n.id in live and n.ev["e"] == "call" and re.search(r"ThreadId(Impl<.*>)?::end$", n.ev.get("callee", "") or "")]
            own_ids = set(n.id for n in own)

            def zero_edge(atom, pol, lab):
                ec = L.effective_cmp(atom, pol)
                if ec is None or ec[0] != "==" or const_val(ec[2]) != 0:
                    return False
                return any(ig.ev_of(o) is not None and ig.ev_of(o).id in own_ids for o in ig.origins(ec[1]))
            ze = L.cond_edges(ig, zero_edge, live)
            r_ = ig.reach([ig.entry], removed_edges=ze)
            ctx.ob("C09.R3e", inst, bool(own) and bool(thr) and bool(ze) and ig.dominated_by(fe[0], own) and not any(t.id in r_ for t in thr),
                   fn.loc,
                   "accessor slots are numbered per instance, thread slots per process: the scan bound must be this instance's accessor "
                   "count whenever it is non-zero, and the thread count only on the edge where it was seen to be 0 - otherwise an "
                   "accessor whose index is beyond the thread count is never scanned", site="low_water_mark@bound-priority")
        lfn = None
        if isinstance(lam, dict) and lam.get("k") == "lam" and "fid" in lam:
            lfn = fn.tu.fns.get(lam["fid"])
        if lfn is None:
            ctx.broken("low_water_mark: scan callback not found")
        lig = IG(lfn, inline=lambda a, b, c: False)
        llive = lig.live_nodes()
        loads = [a for a in A.atomic_ops(lig, llive) if a.op == "load" and
                 L.deep_find(lig, a.obj, SLOT_VERSION) is not None]
        ctx.ob("C09.R3b", inst, bool(loads) and all(A.acquires(a.order) for a in loads), lfn.loc,
               "slot versions must be loaded with acquire in the scan")
        # minimum: assignment min = local guarded by min > local
        ok = False
        folds = {}
        for n in lig.ev_nodes(lambda n: n.id in llive and n.ev["e"] == "asg" and n.ev.get("op") == "="):
            lhs, rhs = pstr(n.ev["lhs"]), pstr(n.ev["rhs"])
            is_cap = strip_cast(n.ev["lhs"]).get("k") == "cap"
            if is_cap:
                folds[n.id] = False

            def gt(atom, pol, lab):
                c = L.effective_cmp(atom, pol)
                if c is None:
                    return False
                op, l, r = c
                return (op == ">" and pstr(l) == lhs and pstr(r) == rhs) or (op == "<" and pstr(r) == lhs and pstr(l) == rhs)
            ge = L.cond_edges(lig, gt, llive)
            if ge and n.id not in lig.reach([lig.entry], removed_edges=ge):
                ok = True
                if is_cap:
                    folds[n.id] = True
            # or min = std::min(min, local)
            mn = lig.ev_of(strip_cast(lig.resolve(n.ev["rhs"], n.frame)))
            if mn is not None and mn.ev["e"] == "call" and mn.ev.get("name") == "min" and \
                    any(pstr(strip_cast(lig.resolve(a_, mn.frame))) == lhs for a_ in mn.ev.get("args", [])):
                ok = True
                if is_cap:
                    folds[n.id] = True
        ctx.ob("C09.R3c", inst, ok, lfn.loc, "the scan must keep the minimum slot version (assign only when current > slot)")
        # R3f the callback runs once per block of the slot vector: what survives an invocation (a captured variable) is only ever
        # lowered, never overwritten - otherwise the result is the minimum of the last block alone
        ctx.ob("C09.R3f", inst, bool(folds) and all(folds.values()), lfn.loc,
               "the scan callback is invoked once per block of the slot vector: every write to the captured result must keep the "
               "minimum (guarded by result > value, or std::min(result, value)); an unconditional write makes low_water_mark the "
               "minimum of the last block only and readers in earlier blocks are ignored", site="low_water_mark@fold-across-blocks")
        rets = [n for n in ig.ev_nodes() if n.id in live and n.ev["e"] == "ret" and n.frame.id == 0]
        init_ok = False
        for n in ig.ev_nodes(lambda n: n.id in live and n.ev["e"] == "decl" and n.frame.owner_id == 0):
            if const_val(n.ev.get("init")) == UMAX and any(pstr(r.ev.get("v")) == n.ev["name"] for r in rets):
                init_ok = True
        ctx.ob("C09.R3d", inst, init_ok, fn.loc, "the scan result must start from UINT64_MAX (no reader in a region)")

    # thread-local lock ensures the slot exists and uses the per-class thread id
    for fn in [f for f in fns if f.name in ("lock", "unlock") and not f.params]:
        ig = IG(fn, inline=lambda a, b, c: False)
        live = ig.live_nodes()
        ids = list(L.call_nodes(ig, callee_re=r"ThreadId(Impl<.*>)?::current_thread_id$", live=live))
        inner = list(L.call_nodes(ig, callee_re=r"^babylon::Epoch::(lock|unlock)$", live=live))
        if ctx.named("C09.R1e", ids, "current_thread_id", r"ThreadId") is None:
            continue
        ok = bool(ids) and bool(inner)
        if fn.name == "lock":
            ens = list(L.call_nodes(ig, callee_re=r"ConcurrentVector<.*>::ensure$", live=live))
            if ctx.named("C09.R1e", ens, "ensure", r"ConcurrentVector<") is None:
                continue
            ok = ok and bool(ens) and all(ig.dominated_by(i, ens) for i in inner)
        ctx.ob("C09.R1e", L.short(fn), ok, fn.loc,
               "thread-local region entry must address the slot of ThreadId::current_thread_id<Epoch>() and make it exist first")

    # ---------------------------------------------------------------- R5 accessor
    recs = fb.records()
    acc = recs.get("babylon::Epoch::Accessor")
    if acc is None:
        ctx.broken("record Epoch::Accessor not found")
    for k in ("copy_ctor", "copy_assign"):
        ms = [m for m in acc["methods"] if m["kind"] == k]
        ctx.ob("C09.R5a", "Epoch::Accessor %s" % k, bool(ms) and all(m["deleted"] for m in ms),
               "%s:%s" % (acc["file"], acc["line"]), "Accessor must not be copyable (two owners of one slot)")
    fields = [f["name"] for f in acc["fields"]]
    afns = fb.find(pred=lambda f: f.record == "babylon::Epoch::Accessor" and f.has_cfg())
    for fn in afns:
        if fn.name == "swap":
            swapped = set()
            for ev in L.fn_calls(fn, callee_re=r"^std::swap$"):
                a0 = strip_cast(ev["args"][0])
                if isinstance(a0, dict) and a0.get("k") == "f":
                    swapped.add(a0["n"])
            ctx.ob("C09.R5b", L.short(fn), swapped == set(fields), fn.loc,
                   "Accessor::swap must exchange every field (%s), swaps %s" % (fields, sorted(swapped)))
        if fn.kind in ("move_ctor", "move_assign"):
            ctx.ob("C09.R5c", L.short(fn), any(True for _ in L.fn_calls(fn, name="swap")), fn.loc,
                   "Accessor move must go through swap (the moved-from object must give up the slot)")
        if fn.kind == "dtor":
            ctx.ob("C09.R5d", L.short(fn), any(True for _ in L.fn_calls(fn, name="release")), fn.loc,
                   "Accessor destructor must release its slot")
        if fn.name == "release":
            ig = IG(fn, inline=lambda a, b, c: False)
            live = ig.live_nodes()
            unreg = list(L.call_nodes(ig, name="unregister_accessor", live=live))
            if ctx.named("C09.R5e", unreg, "unregister_accessor", r"Epoch") is None:
                continue

            def nonnull(atom, pol, lab):
                c = L.effective_cmp(atom, pol)
                if c is None:
                    a = strip_cast(atom)
                    return pol and isinstance(a, dict) and a.get("k") == "f" and a.get("n") == "_epoch"
                op, l, r = c
                return op == "!=" and const_val(r) == "null" and strip_cast(l).get("n") == "_epoch"
            ne = L.cond_edges(ig, nonnull, live)
            clears = [n for n in ig.ev_nodes() if n.id in live and n.ev["e"] == "asg" and n.ev.get("op") == "=" and
                      strip_cast(n.ev.get("lhs", {})).get("n") == "_epoch" and const_val(n.ev.get("rhs")) == "null"]
            ok = bool(unreg) and bool(ne) and all(u.id not in ig.reach([ig.entry], removed_edges=ne) for u in unreg) and \
                all(ig.postdominated_by(u, clears) for u in unreg)
            ctx.ob("C09.R5e", L.short(fn), ok, fn.loc,
                   "release() must unregister only when it still owns a slot and forget the slot afterwards (at most once)")

    # ---------------------------------------------------------------- R6 a region is opened on the caller's own slot, which exists
    n6 = 0
    for fn in fb.find(pred=lambda f: f.record == "babylon::Epoch" and f.name in ("lock", "unlock") and len(f.params) == 0 and f.has_cfg()):
        n6 += 1
        ig = IG(fn, inline=lambda a, b, c: False)
        live = ig.live_nodes()
        tid = [n for n in ig.ev_nodes() if n.id in live and n.ev["e"] == "call" and re.search(r"ThreadId(Impl<.*>)?::current_thread_id$", n.ev.get("callee", "") or "")]
        inner = [n for n in L.call_nodes(ig, name=fn.name, live=live) if len(n.ev.get("args", [])) == 1]
        ens = list(L.call_nodes(ig, name="ensure", live=live))

        def from_tid(d):
            return L.deep_find(ig, d, lambda x: x.get("k") == "e" and ig.ev_of(x) in tid) is not None
        ok = len(tid) == 1 and len(inner) == 1 and from_tid(ig.rarg(inner[0], 0)) and \
            ("Epoch" in (tid[0].ev.get("targs") or tid[0].ev.get("callee", "") + "<babylon::Epoch>"))
        if fn.name == "lock":
            ok = ok and len(ens) == 1 and from_tid(ig.rarg(ens[0], 0)) and ig.dominated_by(inner[0], ens)
        ctx.ob("C09.R6a", L.short(fn), ok, fn.loc,
               "the thread-local %s must work on the slot indexed by this thread's id (and lock must make sure the slot exists first): "
               "a region opened on another slot is invisible to low_water_mark" % fn.name, site="Epoch::%s@own-slot" % fn.name)
    for fn in fb.find(pred=lambda f: f.record == "babylon::Epoch::Accessor" and f.name in ("lock", "unlock") and f.has_cfg()):
        n6 += 1
        ig = IG(fn, inline=lambda a, b, c: False)
        live = ig.live_nodes()
        inner = [n for n in L.call_nodes(ig, name=fn.name, live=live)]
        ok = len(inner) == 1 and strip_cast(ig.rthis(inner[0])).get("n") == "_epoch" and len(inner[0].ev.get("args", [])) == 1 and \
            strip_cast(ig.rarg(inner[0], 0)).get("n") == "_index"
        ctx.ob("C09.R6b", L.short(fn), ok, fn.loc, "an accessor must open / close the region on its own slot of its own epoch",
               site="Accessor::%s@own-slot" % fn.name)
    for fn in fb.find(pred=lambda f: f.record == "babylon::Epoch" and f.name == "create_accessor" and f.has_cfg()):
        n6 += 1
        ig = IG(fn, inline=lambda a, b, c: False)
        live = ig.live_nodes()
        al = list(L.call_nodes(ig, name="allocate", live=live))
        ens = list(L.call_nodes(ig, name="ensure", live=live))
        rets = [n for n in ig.ev_nodes() if n.id in live and n.ev["e"] == "ret"]

        def from_al(d):
            return L.deep_find(ig, d, lambda x: x.get("k") == "e" and ig.ev_of(x) in al) is not None
        def from_end(d):
            # ensure(n) makes [0, n] addressable: the count of ids ever allocated, read after the allocation, covers the index too
            return L.deep_find(ig, d, lambda x: x.get("k") == "e" and ig.ev_of(x) is not None and
                               re.search(r"IdAllocator<.*>::end$", ig.ev_of(x).ev.get("callee", "") or "") is not None and
                               all(ig.dominated_by(ig.ev_of(x), [a_]) for a_ in al), through_args=True) is not None
        ok = len(al) == 1 and len(ens) == 1 and (from_al(ig.rarg(ens[0], 0)) or from_end(ig.rarg(ens[0], 0))) and bool(rets) and all(ig.dominated_by(r_, ens) for r_ in rets)
        for r_ in rets:
            c_ = ig.ev_of(strip_cast(ig.resolve(r_.ev.get("v"), r_.frame)))
            ok = ok and c_ is not None and c_.ev["e"] == "ctor" and len(c_.ev.get("args", [])) == 2 and \
                strip_cast(ig.rarg(c_, 0)).get("k") == "this" and from_al(ig.rarg(c_, 1))
        ctx.ob("C09.R6c", L.short(fn), ok, fn.loc,
               "create_accessor must make sure the slot of the allocated index exists before it hands out an accessor for exactly "
               "(this epoch, that index)", site="create_accessor@slot-exists")
    ctx.floor("C09.R6", n6, 5, "slot index plumbing of lock / unlock / create_accessor")


SWEEP = ["concurrent/test_epoch.cpp"]


# name anchors (validated by tools/rename_sweep.py; a vanished name is exit 2, see core.check_anchor_names)
ANCHORS = {
    '_epoch': ['^babylon::Epoch::Accessor(<|$)'],
    '_index': ['^babylon::Epoch::Accessor(<|$)'],
    '_version': ['^babylon::Epoch(<|$)'],
    'current_thread_id': ['^babylon::internal::ThreadIdImpl(<|$)'],
    'ensure': ['^babylon::ConcurrentVector(<|$)'],
    'for_each': ['^babylon::ConcurrentVector(<|$)'],
    'lock_times': ['^babylon::Epoch::Slot(<|$)'],
    'unregister_accessor': ['^babylon::Epoch(<|$)'],
    'version': ['^babylon::Epoch::Slot(<|$)'],
}
