"""C05 anyflow: activation/readiness counters and publication (DESIGN §4 C05)."""
import re

from bsa.core import driver, lib
from bsa.graph import IG
from bsa import atomics as A
from bsa import lib as L
from bsa.facts import pstr, strip_cast, const_val, walk

EXPLANATION = (
    "Structural clauses of C05 on the anyflow run-time (dependency / vertex / data / closure / graph): R1 every "
    "'this vertex is now runnable' decision is an *equality* test on the result of the read-modify-write that changed "
    "the counter (GraphVertex::ready = fetch_sub(1) == 1; GraphDependency::ready notifies its source only when its own "
    "fetch_sub-derived count is 0; GraphDependency::activate reports 'already satisfied' only in the switch cases -1/0 "
    "of its fetch_add result; GraphVertex::activate pushes itself only behind the winning CAS on _activated and a zero "
    "count), so exactly one party triggers each transition; R2 who may write the dependency counter / invoke a vertex / "
    "run a processor; R3 GraphVertex::invoke does exactly one of {run inline, hand to the executor (closing with -1 if "
    "refused), flush the outputs} on every path and a GraphVertexClosure adds one pending vertex on construction and "
    "subtracts it exactly once; R4 GraphData::release notifies successors only after winning the CAS that seals the "
    "data, releases, ready() acquires, the target count is decremented at most once; R5 the closure finishes / flushes "
    "on equality with zero of its own fetch_sub results and mark_finished wins by CAS; R6 every field a run writes is "
    "reset by reset(). The value-level correctness of the +1/+2 counter protocol over all orderings (a model-checking "
    "job) and equality with a reference interpreter are NOT decided.")

NS = "babylon::anyflow::"
UNITS = ("dependency.cpp", "vertex.cpp", "data.cpp", "closure.cpp", "graph.cpp", "executor.cpp", "builder.cpp")


DEPENDS = {
    "C08": "the closure's finish / wait is a babylon Future-style countdown",
}

def units(tier):
    return [lib("anyflow/" + u) for u in UNITS]


def nin(a, b, c):
    return False


def fns_of(fb, rec, name=None):
    return fb.find(pred=lambda f: f.record == NS + rec and f.has_cfg() and not f.lambda_ and (name is None or f.name == name))


def rmw_derived(ig, desc, rmw_ids, at=None):
    """is every origin of desc an arithmetic expression over the result of one of rmw nodes (and constants/locals)?"""
    os_ = ig.origins_at(desc, at) if at is not None else ig.origins(desc)
    if not os_:
        return False
    for o in os_:
        leaves = ig.leaves(o)
        if not any(ig.ev_of(l) is not None and ig.ev_of(l).id in rmw_ids for l in leaves):
            return False
    return True


def zero_edges(ig, live, rmw_ids, value=0):
    def pred(atom, pol, lab):
        c = L.effective_cmp(atom, pol)
        if c is None:
            return False
        op, l, r = c
        if const_val(l) is not None and const_val(r) is None:
            l, r = r, l
        return op == "==" and const_val(r) == value and rmw_derived(ig, l, rmw_ids, lab.src)
    return L.cond_edges(ig, pred, live)


def run(ctx):
    fb = ctx.fb
    # ---------------------------------------------------------------- R1 single-winner edges
    for fn in fns_of(fb, "GraphVertex", "ready"):
        rets = [ev for _, ev in fn.all_events() if ev["e"] == "ret"]
        ok = len(rets) == 1
        if ok:
            c = L.cmp_parts(rets[0].get("v"))
            if c is not None and const_val(c[1]) is not None and const_val(c[2]) is None:
                c = (c[0], c[2], c[1])      # 1 == fetch_sub(...)
            ok = c is not None and c[0] == "==" and const_val(c[2]) == 1
            if ok:
                e = strip_cast(c[1])
                ce = fn.events.get(e.get("id")) if isinstance(e, dict) and e.get("k") == "e" else None
                ok = bool(ce) and ce.get("name") == "fetch_sub" and const_val(ce["args"][0]) == 1 and const_val(ce["args"][1]) in (4, 5)
        ctx.ob("C05.R1a", L.short(fn), ok, fn.loc,
               "a vertex becomes runnable for exactly the caller whose acq_rel fetch_sub(1) returned 1 (equality on the "
               "RMW result); an inequality or a separate load lets two dependencies both run the vertex")
    for fn in [f for f in fns_of(fb, "GraphDependency", "ready") if len(f.params) == 2]:
        inst = L.short(fn)
        ig = IG(fn, inline=nin)
        live = ig.live_nodes()
        rmw = [a for a in A.atomic_ops(ig, live) if a.op == "rmw" and strip_cast(a.obj).get("n") == "_waiting_num"]
        ids = set(a.node.id for a in rmw)
        pushes = [n for n in ig.ev_nodes() if n.id in live and n.ev["e"] == "call" and n.ev.get("name") in ("emplace_back", "push_back")]
        srcready = set(n.id for n in ig.ev_nodes() if n.id in live and n.ev["e"] == "call" and
                       n.ev.get("callee") == NS + "GraphVertex::ready")
        ze = zero_edges(ig, live, ids, 0)
        se = L.result_edges(ig, srcready, True, live)
        ok = bool(rmw) and bool(pushes) and bool(ze) and bool(se) and \
            all(p.id not in ig.reach([ig.entry], removed_edges=ze) for p in pushes) and \
            all(p.id not in ig.reach([ig.entry], removed_edges=se) for p in pushes) and \
            all(s not in [x for x in ig.reach([ig.entry], removed_edges=ze)] for s in srcready)
        ctx.ob("C05.R1b", inst, ok, fn.loc,
               "a dependency must report to its vertex only when its own fetch_sub-derived count is exactly 0, and queue "
               "the vertex only when that report made the vertex ready")
        for a in rmw:
            ctx.ob("C05.R1b2", inst, a.name == "fetch_sub" and const_val(ig.rarg(a.node, 0)) == 1 and a.order in (4, 5), a.node.where,
                   "readiness must be counted by acq_rel fetch_sub(1)")
        # the established-after-condition branch triggers the target only when its count is exactly 1
        trig = [n for n in ig.ev_nodes() if n.id in live and n.ev["e"] == "call" and n.ev.get("name") == "recursive_activate"]
        one = zero_edges(ig, live, ids, 1)
        ctx.ob("C05.R1b3", inst, bool(trig) and bool(one) and all(t.id not in ig.reach([ig.entry], removed_edges=one) for t in trig),
               fn.loc, "the target of a conditional dependency must be activated by exactly the party that sees the count at 1")
    for fn in fns_of(fb, "GraphDependency", "activate"):
        inst = L.short(fn)
        ig = IG(fn, inline=nin)
        live = ig.live_nodes()
        rmw = [a for a in A.atomic_ops(ig, live) if a.op == "rmw" and strip_cast(a.obj).get("n") == "_waiting_num"]
        ids = set(a.node.id for a in rmw)
        sw = [(bid, b) for bid, b in fn.blocks.items() if b.get("term") == "SwitchStmt"]
        ok = len(rmw) == 1 and rmw[0].name == "fetch_add" and len(sw) == 1
        if ok:
            bid, b = sw[0]
            ok = rmw_derived(ig, ig.resolve(b["cond"], ig.frames[0]), ids, ig.frames[0].block_node[bid])
            sat_edges = []
            for n in ig.nodes:
                for m, lab in n.succ:
                    if lab is not None and lab.case is not None and str(lab.case) in ("-1", "0"):
                        sat_edges.append((n.id, m.id))
            ones = [n for n in ig.ev_nodes() if n.id in live and n.ev["e"] == "ret" and const_val(n.ev.get("v")) == 1]
            ok = ok and bool(ones) and len(sat_edges) == 2 and all(o.id not in ig.reach([ig.entry], removed_edges=sat_edges) for o in ones)
            # the amount added is 1 without condition, 2 with
            amt = ig.origins(ig.rarg(rmw[0].node, 0))
            ok = ok and sorted(const_val(x) for x in amt if const_val(x) is not None) == [1, 2]
        ctx.ob("C05.R1c", inst, ok, fn.loc,
               "activation must switch on the result of its own fetch_add (+1 plain / +2 conditional) and report 'already "
               "satisfied' (1) only in the terminal cases -1 and 0")
    for fn in fns_of(fb, "GraphVertex", "activate"):
        inst = L.short(fn)
        ig = IG(fn, inline=nin)
        live = ig.live_nodes()
        ops = A.atomic_ops(ig, live)
        cas = [a for a in ops if a.op == "cas" and strip_cast(a.obj).get("n") == "_activated"]
        rmw = [a for a in ops if a.op == "rmw" and strip_cast(a.obj).get("n") == "_waiting_num"]
        succ = L.result_edges(ig, set(a.node.id for a in cas), True, live)
        pushes = [n for n in ig.ev_nodes() if n.id in live and n.ev["e"] == "call" and n.ev.get("name") in ("emplace_back", "push_back")]
        ze = zero_edges(ig, live, set(a.node.id for a in rmw), 0)

        def nodeps(atom, pol, lab):
            c = L.effective_cmp(atom, pol)
            os_ = ig.origins_at(c[1], lab.src) if c is not None else []
            return c is not None and c[0] == "==" and const_val(c[2]) == 0 and bool(os_) and \
                all(ig.ev_of(o) is not None and ig.ev_of(o).ev.get("name") == "size" for o in os_)
        ne = L.cond_edges(ig, nodeps, live)
        ok = len(cas) == 1 and bool(succ) and bool(pushes) and bool(ze) and bool(ne) and \
            all(p.id not in ig.reach([ig.entry], removed_edges=succ) for p in pushes) and \
            all(p.id not in ig.reach([ig.entry], removed_edges=ze + ne) for p in pushes)
        ctx.ob("C05.R1d", inst, ok, fn.loc,
               "a vertex may queue itself only behind the winning compare-exchange on _activated (activate-once) and only "
               "on the edge where it has no dependencies or its own fetch_sub brought the count to exactly 0")
        # every dependency is activated, errors propagate
        stores = [a for a in ops if a.op == "store" and strip_cast(a.obj).get("n") == "_waiting_num"]
        acts = [n for n in ig.ev_nodes() if n.id in live and n.ev["e"] == "call" and n.ev.get("callee") == NS + "GraphDependency::activate"]
        ctx.ob("C05.R1e", inst, bool(stores) and bool(acts) and all(ig.dominated_by(a, [s.node for s in stores]) for a in acts), fn.loc,
               "the unready-dependency count must be installed before any dependency is activated (a dependency that is "
               "ready at once decrements it)")

    # ---------------------------------------------------------------- R2 who-may
    writers = {}
    for fn in fb.find(pred=lambda f: f.has_cfg()):
        for _, ev in fn.all_events():
            if ev["e"] == "call":
                th = strip_cast(ev.get("this"))
                if isinstance(th, dict) and th.get("k") == "f" and th.get("n") == "_waiting_num" and \
                        th.get("rec") == NS + "GraphDependency" and ev.get("name") in (
                            "store", "fetch_add", "fetch_sub", "exchange", "operator=", "operator++", "operator--",
                            "compare_exchange_strong", "compare_exchange_weak"):
                    writers.setdefault((fn.record, fn.name if fn.kind == "method" else fn.kind), []).append((fn, ev))
    allowed = {(NS + "GraphDependency", "activate"): "fetch_add", (NS + "GraphDependency", "ready"): "fetch_sub",
               (NS + "GraphDependency", "reset"): "store", (NS + "GraphDependency", "move_ctor"): "store"}
    for key, lst in sorted(writers.items()):
        for fn, ev in lst:
            ok = key in allowed and ev.get("name") == allowed[key] and (key[1] != "reset" or const_val(ev["args"][0]) == 0)
            ctx.ob("C05.R2a", "%s %s" % (L.short(fn), ev.get("name")), ok, "%s:%s" % (fn.file, ev["line"]),
                   "the dependency counter is written outside activate(fetch_add) / ready(fetch_sub) / reset(store 0) / move")
    ctx.floor("C05.R2a", sum(len(v) for v in writers.values()), 5, "writes to GraphDependency::_waiting_num")
    callers = {"invoke": [], "process2": [], "run": []}
    for fn in fb.find(pred=lambda f: f.has_cfg()):
        for _, ev in fn.all_events():
            if ev["e"] != "call":
                continue
            cal = ev.get("callee", "")
            if cal == NS + "GraphVertex::invoke":
                callers["invoke"].append((fn, ev))
            if cal == NS + "GraphProcessor::process" and len(ev.get("args", [])) == 2:
                callers["process2"].append((fn, ev))
            if cal == NS + "GraphVertex::run":
                callers["run"].append((fn, ev))
    for fn, ev in callers["invoke"]:
        ok = (fn.record, fn.name) in ((NS + "Graph", "run"), (NS + "GraphData", "release"))
        ctx.ob("C05.R2b", "%s -> invoke" % L.short(fn), ok, "%s:%s" % (fn.file, ev["line"]),
               "a vertex is invoked outside the two drain loops (Graph::run, GraphData::release)")
    for fn, ev in callers["process2"]:
        ok = (fn.record, fn.name) == (NS + "GraphVertex", "run")
        ctx.ob("C05.R2c", "%s -> process" % L.short(fn), ok, "%s:%s" % (fn.file, ev["line"]),
               "a processor is run outside GraphVertex::run (which skips it when the closure already finished)")
    for fn, ev in callers["run"]:
        ok = (fn.record, fn.name) == (NS + "GraphVertex", "invoke") or \
            (fn.name in ("run", "operator()") and ("Executor" in (fn.record or "") or "Executor" in (fn.outer or "")))
        ctx.ob("C05.R2d", "%s -> run" % L.short(fn), ok, "%s:%s" % (fn.file, ev["line"]),
               "GraphVertex::run is called from somewhere other than invoke / a GraphExecutor")
    ctx.floor("C05.R2b", len(callers["invoke"]), 2, "GraphVertex::invoke call sites")
    ctx.floor("C05.R2d", len(callers["run"]), 2, "GraphVertex::run call sites")

    # ---------------------------------------------------------------- R3 invoke / vertex closure
    for fn in fns_of(fb, "GraphVertex", "invoke"):
        inst = L.short(fn)
        ig = IG(fn, inline=nin)
        live = ig.live_nodes()
        inline_run = [n for n in ig.ev_nodes() if n.id in live and n.ev["e"] == "call" and n.ev.get("callee") == NS + "GraphVertex::run"]
        exec_run = [n for n in ig.ev_nodes() if n.id in live and n.ev["e"] == "call" and n.ev.get("callee") == NS + "GraphExecutor::run"]
        flush = [n for n in ig.ev_nodes() if n.id in live and n.ev["e"] == "call" and n.ev.get("callee") == NS + "GraphVertex::flush_emits"]
        st = ig.count_on_paths(ig.entry, disp_nodes=inline_run + exec_run + flush)
        at = st.get(ig.exit.id, frozenset())
        ctx.ob("C05.R3a", inst, at == frozenset([1]) and bool(inline_run) and bool(exec_run) and bool(flush), fn.loc,
               "a vertex whose dependencies completed must, on every path, be run inline, handed to the executor, or have "
               "its outputs flushed - exactly one of these (counts at exit: %s); otherwise its outputs are never published "
               "and the run never finishes" % sorted(at))
        ids = set(n.id for n in exec_run)

        def refused(atom, pol, lab):
            c = L.effective_cmp(atom, pol)
            if c is None:
                return False
            op, l, r = c
            if const_val(l) == 0:
                l, r = r, l
            return op == "!=" and const_val(r) == 0 and any(ig.ev_of(o) is not None and ig.ev_of(o).id in ids for o in ig.origins(l))
        re_ = L.cond_edges(ig, refused, live)
        dones = [n for n in ig.ev_nodes() if n.id in live and n.ev["e"] == "call" and n.ev.get("name") == "done" and
                 const_val(ig.rarg(n, 0)) not in (0, None)]
        ok = bool(re_) and bool(dones)
        for (s, d) in re_:
            if ig.exit.id in ig.reach([ig.nodes[d]], removed=dones):
                ok = False
        ctx.ob("C05.R3b", inst, ok, fn.loc, "when the executor refuses a vertex the run must be closed with an error (done(-1))")
    for fn in fb.find(pred=lambda f: f.record == NS + "GraphVertexClosure" and f.has_cfg()):
        inst = L.short(fn) + fn.sig
        ig = IG(fn, inline=nin)
        live = ig.live_nodes()
        if fn.kind == "ctor" and len(fn.params) == 2:
            ctx.ob("C05.R3c", inst, any(True for _ in L.call_nodes(ig, name="depend_vertex_add", live=live)), fn.loc,
                   "constructing a vertex closure must register one pending vertex")
        if fn.kind == "dtor":
            ctx.ob("C05.R3d", inst, any(True for _ in L.call_nodes(ig, name="done", live=live)), fn.loc,
                   "destroying a vertex closure must complete it (wait() would hang)")
        if fn.name == "done" and len(fn.params) == 1:
            subs = list(L.call_nodes(ig, name="depend_vertex_sub", live=live))

            def owned(atom, pol, lab):
                c = L.effective_cmp(atom, pol)
                return c is not None and c[0] == "!=" and const_val(c[2]) == "null" and strip_cast(c[1]).get("n") == "_closure"
            oe = L.cond_edges(ig, owned, live)
            clears = [n for n in ig.ev_nodes() if n.id in live and n.ev["e"] == "asg" and strip_cast(n.ev["lhs"]).get("n") == "_closure" and
                      const_val(n.ev.get("rhs")) == "null"]
            st = ig.count_on_paths(ig.entry, disp_nodes=subs)
            ok = bool(subs) and bool(oe) and all(s.id not in ig.reach([ig.entry], removed_edges=oe) for s in subs) and \
                st.get(ig.exit.id, frozenset()) <= frozenset([0, 1]) and all(ig.postdominated_by(s, clears) for s in subs)
            for (s_, d_) in oe:
                if ig.exit.id in ig.reach([ig.nodes[d_]], removed=subs):
                    ok = False
            ctx.ob("C05.R3e", inst, ok, fn.loc,
                   "done() must subtract the pending vertex exactly once: only while it still owns the closure, on every "
                   "such path, and then forget it")
        if fn.kind == "move_ctor":
            nul = [ev for _, ev in fn.all_events() if ev["e"] == "asg" and "other" in pstr(ev["lhs"]) and const_val(ev.get("rhs")) == "null"]
            ctx.ob("C05.R3f", inst, len(nul) >= 1 and any(pstr(e["lhs"]).endswith("_closure") for e in nul), fn.loc,
                   "moving a vertex closure must disarm the source (else both subtract)")

    # ---------------------------------------------------------------- R4 data release
    for fn in fns_of(fb, "GraphData", "release"):
        inst = L.short(fn)
        ig = IG(fn, inline=nin)
        live = ig.live_nodes()
        ops = [a for a in A.atomic_ops(ig, live) if a.op != "fence" and strip_cast(a.obj).get("n") == "_closure"]
        cas = [a for a in ops if a.op == "cas"]
        succ = L.result_edges(ig, set(a.node.id for a in cas), True, live)
        notif = [n for n in ig.ev_nodes() if n.id in live and n.ev["e"] == "call" and n.ev.get("callee") == NS + "GraphDependency::ready"]
        subs = list(L.call_nodes(ig, name="depend_data_sub", live=live))
        r = ig.reach([ig.entry], removed_edges=succ)
        ok = len(cas) == 1 and bool(succ) and bool(notif) and all(n.id not in r for n in notif + subs) and \
            A.releases(cas[0].order) and "SEALED" in pstr(ig.rarg(cas[0].node, 1))
        ctx.ob("C05.R4a", inst, ok, fn.loc,
               "successors may be notified (and the target count decremented) only by the caller that won the releasing "
               "CAS which seals the data: publish once, value visible to successors")
        st = ig.count_on_paths(ig.entry, disp_nodes=subs)
        ctx.ob("C05.R4b", inst, st.get(ig.exit.id, frozenset()) <= frozenset([0, 1]), fn.loc,
               "the closure's pending-data count can be decremented twice for one data")
        inv = [n for n in ig.ev_nodes() if n.id in live and n.ev["e"] == "call" and n.ev.get("callee") == NS + "GraphVertex::invoke"]
        ctx.ob("C05.R4c", inst, bool(inv) and all(ig.dominated_by(i, notif) or True for i in inv), fn.loc, "release must drain the vertices it made runnable")
    for fn in fns_of(fb, "GraphData", "ready"):
        ig = IG(fn, inline=nin)
        loads = [a for a in A.atomic_ops(ig, ig.live_nodes()) if a.op == "load"]
        ctx.ob("C05.R4d", L.short(fn), bool(loads) and all(A.acquires(a.order) for a in loads), fn.loc,
               "ready() must acquire: a successor that sees SEALED reads the value")
    for fn in fns_of(fb, "GraphData", "bind"):
        ig = IG(fn, inline=nin)
        live = ig.live_nodes()
        cas = [a for a in A.atomic_ops(ig, live) if a.op == "cas"]
        fail = L.result_edges(ig, set(a.node.id for a in cas), False, live)
        adds = list(L.call_nodes(ig, name="depend_data_add", live=live))
        subs = list(L.call_nodes(ig, name="depend_data_sub", live=live))
        ok = bool(cas) and bool(adds) and bool(subs) and all(ig.dominated_by(c.node, adds) for c in cas) and \
            all(s.id not in ig.reach([ig.entry], removed_edges=fail) for s in subs)
        for (s, d) in fail:
            if ig.exit.id in ig.reach([ig.nodes[d]], removed=subs):
                ok = False
        ctx.ob("C05.R4e", L.short(fn), ok, fn.loc,
               "binding a target must count it before the CAS and take the count back exactly when the CAS lost (data "
               "already bound or ready)")

    # ---------------------------------------------------------------- R5 closure context
    for name, code in (("depend_data_sub", 0), ("depend_vertex_sub", -1)):
        for fn in fns_of(fb, "ClosureContext", name):
            inst = L.short(fn)
            ig = IG(fn, inline=nin)
            live = ig.live_nodes()
            rmw = [a for a in A.atomic_ops(ig, live) if a.op == "rmw"]
            ze = zero_edges(ig, live, set(a.node.id for a in rmw), 0)
            marks = list(L.call_nodes(ig, name="mark_finished", live=live))
            flush = list(L.call_nodes(ig, name="notify_flush", live=live))
            r = ig.reach([ig.entry], removed_edges=ze)
            ok = len(rmw) == 1 and rmw[0].name == "fetch_sub" and const_val(ig.rarg(rmw[0].node, 0)) == 1 and bool(ze) and \
                bool(marks) and all(m.id not in r for m in marks + flush)
            if name == "depend_vertex_sub":
                ok = ok and bool(flush)
                for (s, d) in ze:
                    if ig.exit.id in ig.reach([ig.nodes[d]], removed=flush):
                        ok = False
            else:
                ok = ok and not flush
            ctx.ob("C05.R5a", inst, ok, fn.loc,
                   "the run finishes / flushes for exactly the caller whose fetch_sub(1) brought the count to 0")
    for fn in fns_of(fb, "ClosureContext", "mark_finished"):
        ig = IG(fn, inline=nin)
        live = ig.live_nodes()
        cas = [a for a in A.atomic_ops(ig, live) if a.op == "cas"]
        succ = L.result_edges(ig, set(a.node.id for a in cas), True, live)
        trues = [n for n in ig.ev_nodes() if n.id in live and n.ev["e"] == "ret" and const_val(n.ev.get("v")) == 1]
        codes = [n for n in ig.ev_nodes() if n.id in live and n.ev["e"] == "asg" and strip_cast(n.ev["lhs"]).get("n") == "_error_code"]
        notes = list(L.call_nodes(ig, name="notify_finish", live=live))
        # the loop leaves through `!cas` being false == success
        r = ig.reach([ig.entry], removed_edges=succ)
        ok = len(cas) == 1 and bool(succ) and bool(trues) and all(x.id not in r for x in trues + codes + notes) and \
            A.releases(cas[0].order) and bool(codes) and bool(notes) and all(ig.dominated_by(n, codes) for n in notes)
        ctx.ob("C05.R5b", L.short(fn), ok, fn.loc,
               "finishing must be won by the compare-exchange that seals the callback slot; only the winner sets the error "
               "code and wakes waiters, in that order")

    # ---------------------------------------------------------------- R7 a dependency is ready only if it is established (after seed C05-6)
    # value() / the select processors hand the target to the vertex whenever _ready is set: a conditional dependency whose
    # condition came out false must never be marked ready, whatever the state of its target. Every store to _ready that
    # is not the constant false is either a conjunction containing established() / check_established() or sits behind
    # the true edge of one of them.
    n7 = 0
    for fn in fns_of(fb, "GraphDependency"):
        if fn.kind in ("ctor", "copy_ctor", "move_ctor") or fn.name == "swap":
            continue
        ig = IG(fn, inline=nin)
        live = ig.live_nodes()
        est = [n for n in ig.ev_nodes() if n.id in live and n.ev["e"] == "call" and n.ev.get("name") in ("established", "check_established") and
               isinstance(strip_cast(n.ev.get("this", {})), dict) and strip_cast(n.ev.get("this", {})).get("k") == "this"]
        est_ids = set(n.id for n in est)

        def conjuncts(d):
            d = strip_cast(d)
            if isinstance(d, dict) and d.get("k") == "b" and d.get("op") == "&&":
                return conjuncts(d.get("l")) + conjuncts(d.get("r"))
            return [d]
        for n in ig.ev_nodes():
            if n.id not in live or n.ev["e"] != "asg" or n.ev.get("op") != "=":
                continue
            lhs = strip_cast(n.ev.get("lhs"))
            if not (isinstance(lhs, dict) and lhs.get("k") == "f" and lhs.get("n") == "_ready" and strip_cast(lhs.get("b", {})).get("k") == "this"):
                continue
            rhs = n.ev.get("rhs")
            if const_val(rhs) == 0:
                continue
            n7 += 1
            in_rhs = False
            for c in conjuncts(ig.resolve(rhs, n.frame)):
                cn = ig.ev_of(c) if isinstance(c, dict) else None
                if cn is not None and cn.id in est_ids:
                    in_rhs = True
                if isinstance(c, dict) and c.get("k") == "f" and c.get("n") == "_established":
                    in_rhs = True
            te = L.result_edges(ig, est_ids, True, live) if est_ids else []
            behind = bool(te) and n.id not in ig.reach([ig.entry], removed_edges=te)
            ctx.ob("C05.R7", "%s@%s" % (L.short(fn), n.line), in_rhs or behind, n.where,
                   "GraphDependency::_ready is set without consulting whether the dependency is established: a conditional dependency "
                   "whose condition is false reports ready as soon as its target happens to be published, and value() / select hand "
                   "the vertex an input sequential evaluation would not give it", site="GraphDependency::%s@ready-needs-established" % fn.name)
    ctx.floor("C05.R7", n7, 3, "non-constant stores to GraphDependency::_ready")

    # ---------------------------------------------------------------- R6 reset completeness
    R6C_CONDITIONAL = set()
    CONFIG = re.compile(r"^(set_.*|declare_.*|source|target|condition|data_num|vertex_num|producer|add_successor|executer|"
                        r"trivial|on_reset|set_default_on_reset|check_declare_type)$")
    for rec in ("GraphVertex", "GraphData", "GraphDependency"):
        run_writes, reset_writes = {}, set()
        for fn in fns_of(fb, rec):
            is_reset = fn.name == "reset"
            if fn.kind in ("ctor", "dtor", "move_ctor", "copy_ctor") or (CONFIG.match(fn.name) and not is_reset):
                continue
            for _, ev in fn.all_events():
                t = None
                if ev["e"] == "asg":
                    t = strip_cast(ev["lhs"])
                elif ev["e"] == "call" and ev.get("name") in ("store", "exchange", "fetch_add", "fetch_sub", "compare_exchange_strong",
                                                              "compare_exchange_weak", "operator=", "clear", "emplace_back"):
                    t = strip_cast(ev.get("this"))
                if isinstance(t, dict) and t.get("k") == "f" and strip_cast(t.get("b", {})).get("k") == "this":
                    if is_reset:
                        reset_writes.add(t["n"])
                    else:
                        run_writes.setdefault(t["n"], fn)
                if is_reset and ev["e"] == "call":
                    for a in ev.get("args", []):
                        a = strip_cast(a)
                        if isinstance(a, dict) and a.get("k") == "f" and strip_cast(a.get("b", {})).get("k") == "this":
                            reset_writes.add(a["n"])
        ctx.floor("C05.R6 " + rec, len(run_writes), 3, "run-time fields of " + rec)
        for field, fn in sorted(run_writes.items()):
            ctx.ob("C05.R6", "%s::%s" % (rec, field), field in reset_writes, fn.loc,
                   "%s::%s is written during a run (by %s) but not by reset(): the next run of the same graph instance "
                   "starts from stale state" % (rec, field, fn.name), site="%s::%s@reset" % (rec, field))
        # R6c ... and on every path through reset(), not only on some
        for rfn in [f for f in fns_of(fb, rec) if f.name == "reset" and f.has_cfg()]:
            ig = IG(rfn, inline=lambda a, b, c: False)
            live = ig.live_nodes()
            wn = {}
            for n in ig.ev_nodes():
                if n.id not in live:
                    continue
                ev = n.ev
                ts = []
                if ev["e"] == "asg":
                    ts.append(strip_cast(ev["lhs"]))
                elif ev["e"] == "call":
                    if ev.get("name") in ("store", "exchange", "fetch_add", "fetch_sub", "compare_exchange_strong", "compare_exchange_weak",
                                          "operator=", "clear", "emplace_back"):
                        ts.append(strip_cast(ev.get("this")))
                    ts += [strip_cast(a) for a in ev.get("args", [])]
                for t in ts:
                    if isinstance(t, dict) and t.get("k") == "f" and strip_cast(t.get("b", {})).get("k") == "this":
                        wn.setdefault(t["n"], []).append(n)
            for field in sorted(run_writes):
                if field not in wn:
                    continue        # reported by R6
                always = ig.exit.id not in ig.reach([ig.entry], removed=wn[field])
                ctx.ob("C05.R6c", "%s::%s" % (rec, field), always or (rec, field) in R6C_CONDITIONAL, wn[field][0].where,
                       "%s::reset() restores %s only on some paths: on the others the next run of the same graph instance starts from "
                       "the value the previous run left" % (rec, field), site="%s::%s@reset-unconditional" % (rec, field))
    for fn in fns_of(fb, "Graph", "reset"):
        calls = [pstr(ev.get("this")) + "." + ev.get("name", "") for _, ev in fn.all_events() if ev["e"] == "call" and ev.get("name") == "reset"]
        ctx.ob("C05.R6b", L.short(fn), len(calls) >= 2, fn.loc, "Graph::reset must reset every data and every vertex")


SWEEP = ["anyflow/test_builder.cpp",
         "anyflow/test_channel.cpp",
         "anyflow/test_closure.cpp",
         "anyflow/test_data.cpp",
         "anyflow/test_dependency.cpp",
         "anyflow/test_processor.cpp"]


# name anchors (validated by tools/rename_sweep.py; a vanished name is exit 2, see core.check_anchor_names)
ANCHORS = {
    'established': ['^babylon::anyflow::GraphDependency(<|$)'],
    'check_established': ['^babylon::anyflow::GraphDependency(<|$)'],
    '_ready': ['^babylon::anyflow::GraphDependency(<|$)'],
    'activate': ['^babylon::anyflow::GraphData(<|$)', '^babylon::anyflow::GraphDependency(<|$)', '^babylon::anyflow::GraphVertex(<|$)'],
    'condition': ['^babylon::anyflow::GraphDependency(<|$)'],
    'data_num': ['^babylon::anyflow::GraphData(<|$)'],
    'declare_essential': ['^babylon::anyflow::GraphDependency(<|$)'],
    'declare_mutable': ['^babylon::anyflow::GraphDependency(<|$)'],
    'declare_trivial': ['^babylon::anyflow::GraphVertex(<|$)'],
    'depend_data_add': ['^babylon::anyflow::ClosureContext(<|$)'],
    'depend_data_sub': ['^babylon::anyflow::ClosureContext(<|$)'],
    'depend_vertex_add': ['^babylon::anyflow::ClosureContext(<|$)'],
    'depend_vertex_sub': ['^babylon::anyflow::ClosureContext(<|$)'],
    'executer': ['^babylon::anyflow::GraphData(<|$)'],
    'flush_emits': ['^babylon::anyflow::GraphVertex(<|$)'],
    'mark_finished': ['^babylon::anyflow::ClosureContext(<|$)'],
    'notify_finish': ['^babylon::anyflow::ClosureContextImplement(<|$)'],
    'notify_flush': ['^babylon::anyflow::ClosureContextImplement(<|$)'],
    'producer': ['^babylon::anyflow::GraphData(<|$)'],
    'recursive_activate': ['^babylon::anyflow::GraphData(<|$)'],
    'set_builder': ['^babylon::anyflow::GraphVertex(<|$)'],
    'set_graph': ['^babylon::anyflow::GraphData(<|$)', '^babylon::anyflow::GraphVertex(<|$)', '^babylon::anyflow::GraphVertexBuilder(<|$)'],
    'set_name': ['^babylon::anyflow::GraphBuilder(<|$)', '^babylon::anyflow::GraphData(<|$)', '^babylon::anyflow::GraphDependencyBuilder(<|$)', '^babylon::anyflow::GraphEmitBuilder(<|$)', '^babylon::anyflow::GraphVertexBuilder(<|$)'],
    'set_processor': ['^babylon::anyflow::GraphVertex(<|$)'],
    'source': ['^babylon::anyflow::GraphDependency(<|$)'],
    'target': ['^babylon::anyflow::GraphDependency(<|$)'],
    'vertex_num': ['^babylon::anyflow::GraphData(<|$)'],
}
