// Replay of finding F5b (property C13): Futex::wake_all evaluates node->next after
// finish_released(node->id). A concurrent user of the same DepositBox re-emplaces the just released
// slot, which resets next to nullptr, so waiters that wake_all already took are never resumed.
// exit 0 = every waiter resumed in every round, 1 = a taken waiter was left suspended.
#include "babylon/coroutine/futex.h"
#include "babylon/executor.h"

#include <atomic>
#include <cstdio>
#include <thread>

using ::babylon::coroutine::Futex;
using ::babylon::coroutine::Task;

int main() {
  auto& executor = ::babylon::InplaceExecutor::instance();
  auto& box = ::babylon::DepositBox<Futex::Node>::instance();
  ::std::atomic<bool> stop {false};
  // another waiter-like user of the per-wait bookkeeping: allocates and frees slots all the time
  ::std::thread churn {[&] {
    while (!stop.load(::std::memory_order_relaxed)) {
      auto id = box.emplace();
      box.take_released(id);
      box.finish_released(id);
    }
  }};
  int lost_rounds = 0;
  const int ROUNDS = 200000;
  for (int round = 0; round < ROUNDS && lost_rounds == 0; ++round) {
    Futex futex;
    futex.value() = 1;
    ::std::atomic<int> resumed {0};
    const int N = 4;
    for (int i = 0; i < N; ++i) {
      executor.execute([&]() -> Task<> {
        co_await futex.wait(1);
        resumed++;
      });
    }
    int waked = futex.wake_all();
    if (resumed.load() != N) {
      ::printf("round %d: wake_all returned %d, resumed %d of %d waiters\n", round, waked, resumed.load(), N);
      lost_rounds++;
    }
  }
  stop = true;
  churn.join();
  ::printf("%s\n", lost_rounds ? "LOST waiters" : "all waiters resumed in every round");
  return lost_rounds ? 1 : 0;
}
