// Replay of finding F7 (property C13): coroutine::Futex::wake_one clears node->next of the node it
// just unlinked and then advances its loop through that very field. When the first waiter's take
// fails (a canceller already owns it and has not unlinked it yet) the loop ends and wake_one returns
// 0 although other, perfectly wakeable waiters are suspended: a wake-up is lost.
// exit 0 = wake_one woke the other waiter, 1 = violated.
// build with -fno-access-control (used to stand in for a canceller that has won the take and is
// about to call remove_awaiter).
#include "babylon/coroutine/futex.h"
#include "babylon/executor.h"

#include <cstdio>

using ::babylon::coroutine::Futex;
using ::babylon::coroutine::Task;

int main() {
  auto& executor = ::babylon::InplaceExecutor::instance();
  auto& box = ::babylon::DepositBox<Futex::Node>::instance();
  Futex futex;
  futex.value() = 1;
  int resumed_b = 0;
  int resumed_a = 0;
  Futex::Cancellation cancel_a;
  // B waits first, A second: A is at the head of the waiter list
  executor.execute([&]() -> Task<> {
    co_await futex.wait(1);
    resumed_b++;
  });
  executor.execute([&]() -> Task<> {
    co_await futex.wait(1).on_suspend([&](Futex::Cancellation&& c) { cancel_a = c; });
    resumed_a++;
  });
  // a canceller of A wins ownership of A's node (first step of Futex::Awaitable::cancel) ...
  auto* node_a = box.take_released(cancel_a._id);
  if (node_a == nullptr) {
    ::printf("setup failed\n");
    return 2;
  }
  // ... and before it gets to remove_awaiter, somebody calls wake_one
  int waked = futex.wake_one();
  ::printf("wake_one returned %d, B resumed %d time(s)\n", waked, resumed_b);
  // the canceller finishes its job
  node_a->futex->remove_awaiter(node_a);
  node_a->promise->resume(node_a->handle);
  box.finish_released(cancel_a._id);
  int rc = (waked == 1 && resumed_b == 1) ? 0 : 1;
  if (resumed_b == 0) {
    futex.wake_all();   // do not leave B suspended at exit
  }
  return rc;
}
