// Replay of finding F9 (property C11): the per-member size cache of a BABYLON_SERIALIZABLE aggregate is not
// refreshed when a member becomes empty. calculate_serialized_size_field returned before `field_cache = size`
// when size == 0, serialize_field then read the stale non-zero size from the previous pass and wrote
// "tag, old length" with no payload: the bytes produced differ from the predicted size and the output is corrupt.
//   g++ -std=gnu++20 -O2 -DNDEBUG -w -I/repo/src -isystem /root/miniconda/include F9*.cc -L/repo/_build -lbabylon \
//       -L/root/miniconda/lib -Wl,-rpath,/root/miniconda/lib -labsl_raw_hash_set -labsl_hash -labsl_strings -labsl_base -labsl_time -lprotobuf -lpthread
// exit 0 = predicted size == produced size and the value round-trips; exit 1 otherwise.
#include "babylon/serialization.h"

#include <cstdio>
#include <string>
#include <vector>

using ::babylon::Serialization;

struct In {
  ::std::vector<::std::string> v;
  int a {0};
  BABYLON_SERIALIZABLE((v, 1)(a, 2))
};
struct Out {
  In in;
  int z {0};
  BABYLON_SERIALIZABLE((in, 1)(z, 2))
};

int main() {
  Out o;
  o.in.v = {"abc", "de"};
  o.in.a = 5;
  o.z = 9;
  ::std::string first;
  Serialization::serialize_to_string(o, first);
  o.in.v.clear();  // the member becomes empty between two serializations of the same object
  ::std::string second;
  bool ok = Serialization::serialize_to_string(o, second);
  size_t predicted = Serialization::calculate_serialized_size(o);
  ::printf("serialize=%d predicted=%zu produced=%zu\n", ok, predicted, second.size());
  Out p;
  bool parsed = Serialization::parse_from_string(second, p);
  ::printf("parse=%d v.size=%zu a=%d z=%d (expected 0 5 9)\n", parsed, p.in.v.size(), p.in.a, p.z);
  bool good = ok && predicted == second.size() && parsed && p.in.v.empty() && p.in.a == 5 && p.z == 9;
  ::printf("%s\n", good ? "OK" : "VIOLATED");
  return good ? 0 : 1;
}
