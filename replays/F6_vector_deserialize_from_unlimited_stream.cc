// Replay of finding F6 (property C11): SerializeTraits<std::vector<T>>::deserialize (also vector<bool> and
// ReusableVector) loops on `is.BytesUntilLimit() > 0`. On a stream-backed CodedInputStream without an enclosing
// limit BytesUntilLimit() is -1: a valid encoding parses "successfully" into an EMPTY vector, and for
// vector<float> the reserve(size_t(-1) / 4) inside a noexcept function terminates the process.
// exit 0 = round trip holds for every way of presenting the bytes; non-zero = violated.
#include "babylon/serialization.h"

#include <google/protobuf/io/zero_copy_stream_impl_lite.h>

#include <csignal>
#include <cstdio>
#include <cstdlib>

using ::babylon::Serialization;

template <typename V>
static bool round_trip_through_stream(const V& value, int chunk) {
  ::std::string bytes;
  if (!Serialization::serialize_to_string(value, bytes)) {
    return false;
  }
  ::google::protobuf::io::ArrayInputStream ais {bytes.data(), static_cast<int>(bytes.size()), chunk};
  ::google::protobuf::io::CodedInputStream cis {&ais};   // stream backed, no limit pushed
  V parsed;
  bool ok = Serialization::parse_from_coded_stream(cis, parsed);
  ::printf("  chunk=%d parse=%d parsed.size=%zu expected=%zu\n", chunk, (int)ok, parsed.size(), value.size());
  return ok && parsed == value;
}

int main() {
  ::signal(SIGABRT, [](int) { ::printf("  terminated (std::terminate from reserve(huge) in noexcept deserialize)\n"); ::_exit(3); });
  int bad = 0;
  ::printf("vector<int>:\n");
  bad += !round_trip_through_stream(::std::vector<int> {1, 2, 3, 300}, 3);
  ::printf("vector<bool>:\n");
  bad += !round_trip_through_stream(::std::vector<bool> {true, false, true}, 2);
  ::printf("vector<string>:\n");
  bad += !round_trip_through_stream(::std::vector<::std::string> {"ab", "cde"}, 2);
  ::printf("vector<float>:\n");
  bad += !round_trip_through_stream(::std::vector<float> {1.5f, 2.5f}, 3);
  return bad ? 1 : 0;
}
