// Replay of finding F11 (property C11, reported by seed agent C11h on the unchanged tree, confirmed here):
// SerializeTraits<std::unique_ptr<T>> / <std::shared_ptr<T>> forward the pointee's SERIALIZED_SIZE_COMPLEXITY. For a
// fixed-width pointee (float, double) that is TRIVIAL = "the encoded size does not depend on the value" - but a null
// pointer encodes as nothing. The size shortcuts of vector / array / ReusableVector trust the flag and compute
// N * size(first element): the predicted size differs from the bytes produced, and a container nested in an aggregate
// gets a wrong length prefix (the output does not parse back).
//   g++ -std=gnu++20 -O2 -DNDEBUG -w -I/repo/src -isystem /root/miniconda/include F11*.cc -L/repo/_build -lbabylon \
//       -L/root/miniconda/lib -Wl,-rpath,/root/miniconda/lib -labsl_raw_hash_set -labsl_hash -labsl_strings -labsl_base -labsl_time -lprotobuf -lpthread
// exit 0 = predicted size == produced size and the value round-trips; exit 1 otherwise.
#include "babylon/serialization.h"

#include <cstdio>
#include <memory>
#include <string>
#include <vector>

using ::babylon::Serialization;

struct Cell {
  ::std::unique_ptr<float> p;
  BABYLON_SERIALIZABLE((p, 1))
};
struct Row {
  ::std::vector<Cell> cells;
  int32_t tail {0};
  BABYLON_SERIALIZABLE((cells, 1)(tail, 2))
};

int main() {
  int bad = 0;
  {
    ::std::vector<Cell> v(2);
    v[1].p.reset(new float {1.5f});     // first element null, second set
    ::std::string s;
    bool ok = Serialization::serialize_to_string(v, s);
    size_t predicted = Serialization::calculate_serialized_size(v);
    ::printf("vector<Cell>{null, 1.5}: serialize=%d predicted=%zu produced=%zu\n", ok, predicted, s.size());
    bad += predicted != s.size();
  }
  {
    Row r;
    r.cells.resize(3);
    r.cells[0].p.reset(new float {2.5f});   // first element set, the others null
    r.tail = 77;
    ::std::string s;
    bool ok = Serialization::serialize_to_string(r, s);
    size_t predicted = Serialization::calculate_serialized_size(r);
    Row back;
    bool parsed = Serialization::parse_from_string(s, back);
    ::printf("Row{cells={2.5,null,null}, tail=77}: serialize=%d predicted=%zu produced=%zu parsed=%d cells=%zu tail=%d\n", ok, predicted,
             s.size(), parsed, back.cells.size(), back.tail);
    bad += predicted != s.size() || !parsed || back.tail != 77 || back.cells.size() != 3;
  }
  ::printf(bad ? "F11 REPRODUCED: %d check(s) failed\n" : "ok\n", bad);
  return bad ? 1 : 0;
}
