// Replay of finding F8 (property C12): ReusableVector, driven by the same operation sequence as
// std::vector, ends with different contents when the argument of insert/emplace/push_back/resize refers
// to an element of the vector itself (std::vector is required to handle this: [sequence.reqmts],
// LWG 526/2164; v.push_back(v[0]) is a common idiom).
//   g++ -std=gnu++20 -O2 -DNDEBUG -w -I/repo/src -isystem /root/miniconda/include F8*.cc -L/repo/_build -lbabylon \
//       -L/root/miniconda/lib -Wl,-rpath,/root/miniconda/lib -labsl_base -labsl_time -lprotobuf -lpthread
// exit 0 = same contents as std::vector in every scenario; exit 1 otherwise.
#include "babylon/reusable/string.h"
#include "babylon/reusable/vector.h"

#include <cstdio>
#include <string>
#include <vector>

using ::babylon::SwissAllocator;
using ::babylon::SwissMemoryResource;
using ::babylon::SwissString;
using ::babylon::SwissVector;

template <typename R, typename S>
static bool same(const char* what, const R& r, const S& s) {
  bool ok = r.size() == s.size();
  for (size_t i = 0; ok && i < s.size(); ++i) {
    ok = ::std::string(r[i].data(), r[i].size()) == s[i];
  }
  ::printf("%-44s %s  reusable=[", what, ok ? "same" : "DIFFERENT");
  for (size_t i = 0; i < r.size(); ++i) ::printf("%s%.*s", i ? "," : "", (int)r[i].size(), r[i].data());
  ::printf("] std=[");
  for (size_t i = 0; i < s.size(); ++i) ::printf("%s%s", i ? "," : "", s[i].c_str());
  ::printf("]\n");
  return ok;
}

template <typename R, typename S>
static bool same_int(const char* what, const R& r, const S& s) {
  bool ok = r.size() == s.size();
  for (size_t i = 0; ok && i < s.size(); ++i) ok = r[i] == s[i];
  ::printf("%-44s %s  reusable=[", what, ok ? "same" : "DIFFERENT");
  for (size_t i = 0; i < r.size(); ++i) ::printf("%s%d", i ? "," : "", r[i]);
  ::printf("] std=[");
  for (size_t i = 0; i < s.size(); ++i) ::printf("%s%d", i ? "," : "", s[i]);
  ::printf("]\n");
  return ok;
}

int main() {
  SwissMemoryResource resource;
  bool ok = true;
  const char* LONG = "a-string-long-enough-to-live-on-the-heap-0123456789";
  {  // push_back(v[0]) at the moment the vector grows (capacity 4 -> 8)
    SwissVector<SwissString> r {SwissAllocator<SwissString> {resource}};
    ::std::vector<::std::string> s;
    for (int i = 0; i < 4; ++i) {
      r.emplace_back(LONG);
      s.emplace_back(LONG);
    }
    r.push_back(r[0]);
    s.push_back(s[0]);
    ok &= same("push_back(v[0]) when growing, string", r, s);
  }
  {  // insert(begin, v[2]) without growth
    SwissVector<int> r {SwissAllocator<int> {resource}};
    ::std::vector<int> s;
    r.reserve(8);
    s.reserve(8);
    for (int i = 1; i <= 3; ++i) {
      r.push_back(i);
      s.push_back(i);
    }
    r.insert(r.begin(), r[2]);
    s.insert(s.begin(), s[2]);
    ok &= same_int("insert(begin, v[2]), int", r, s);
  }
  {  // insert(begin, 2, v[2]) without growth
    SwissVector<int> r {SwissAllocator<int> {resource}};
    ::std::vector<int> s;
    r.reserve(8);
    s.reserve(8);
    for (int i = 1; i <= 3; ++i) {
      r.push_back(i);
      s.push_back(i);
    }
    r.insert(r.begin(), 2, r[2]);
    s.insert(s.begin(), 2, s[2]);
    ok &= same_int("insert(begin, 2, v[2]), int", r, s);
  }
  {  // resize(n, v[0]) when growing
    SwissVector<SwissString> r {SwissAllocator<SwissString> {resource}};
    ::std::vector<::std::string> s;
    r.emplace_back(LONG);
    s.emplace_back(LONG);
    r.resize(6, r[0]);
    s.resize(6, s[0]);
    ok &= same("resize(6, v[0]) when growing, string", r, s);
  }
  return ok ? 0 : 1;
}
