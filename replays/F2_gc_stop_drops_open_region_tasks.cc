// Replay of finding F2 (property C10): reclaimers that share a batch with the stop marker and
// whose epoch is still held by an open region are destroyed WITHOUT being invoked.
// exit 0 = every retired reclaimer was invoked exactly once before stop() returned; 1 = violated.
//
// g++ -std=gnu++20 -O2 -DNDEBUG -w -I/repo/src -isystem /root/miniconda/include F2_*.cc \
//   -L/repo/_build -lbabylon -L/root/miniconda/lib -Wl,-rpath,/root/miniconda/lib \
//   -labsl_base -labsl_time -lprotobuf -lpthread
#include "babylon/concurrent/garbage_collector.h"

#include <atomic>
#include <cstdio>
#include <thread>

static ::std::atomic<int> invoked {0};
static ::std::atomic<int> destroyed_uninvoked {0};

struct Reclaimer {
  Reclaimer() = default;
  Reclaimer(Reclaimer&& o) noexcept : armed(o.armed), ran(o.ran) { o.armed = false; }
  Reclaimer& operator=(Reclaimer&& o) noexcept {
    armed = o.armed; ran = o.ran; o.armed = false; return *this;
  }
  ~Reclaimer() { if (armed && !ran) destroyed_uninvoked++; }
  void operator()() { ran = true; invoked++; }
  bool armed {false};
  bool ran {false};
};

static int attempt() {
  invoked = 0;
  destroyed_uninvoked = 0;
  {
    ::babylon::GarbageCollector<Reclaimer> gc;
    gc.set_queue_capacity(64);
    gc.start();
    // let the collector thread fall into its idle back-off sleep (>= 1 ms per round) so that the
    // retirements and the stop marker below land in one batch
    ::std::this_thread::sleep_for(::std::chrono::milliseconds(200));
    auto accessor = gc.epoch().create_accessor();
    accessor.lock();                      // a region that is open while we retire
    for (int i = 0; i < 5; ++i) {
      Reclaimer r;
      r.armed = true;
      gc.retire(::std::move(r));
    }
    ::std::thread stopper {[&] { gc.stop(); }};
    ::std::this_thread::sleep_for(::std::chrono::milliseconds(100));
    accessor.unlock();                    // region closes: now everything is reclaimable
    stopper.join();
  }
  ::printf("invoked=%d destroyed_uninvoked=%d\n", invoked.load(), destroyed_uninvoked.load());
  return (invoked == 5 && destroyed_uninvoked == 0) ? 0 : 1;
}

int main() {
  for (int i = 0; i < 20; ++i) {
    if (attempt() != 0) {
      return 1;
    }
  }
  return 0;
}
