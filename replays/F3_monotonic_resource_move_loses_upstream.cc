// Replay of finding F3 (property C06): move-assignment of ExclusiveMonotonicBufferResource does not
// transfer _upstream, and move-assignment of SwissMemoryResource does not transfer its base at all.
// After a move, release() hands oversize blocks to a different upstream than the one that produced
// them (and the Swiss variant keeps allocating from / releasing into the wrong object).
// exit 0 = every block went back to the upstream it came from; 1 = violated.
#include "babylon/reusable/memory_resource.h"

#include <cstdio>
#include <memory_resource>

struct CountingUpstream : public ::std::pmr::memory_resource {
  void* do_allocate(size_t bytes, size_t alignment) override {
    allocs++;
    return ::operator new(bytes, ::std::align_val_t(alignment));
  }
  void do_deallocate(void* ptr, size_t bytes, size_t alignment) override {
    deallocs++;
    ::operator delete(ptr, bytes, ::std::align_val_t(alignment));
  }
  bool do_is_equal(const ::std::pmr::memory_resource& o) const noexcept override {
    return this == &o;
  }
  int allocs {0};
  int deallocs {0};
};

int main() {
  int bad = 0;
  {
    CountingUpstream upstream;
    {
      ::babylon::ExclusiveMonotonicBufferResource a;
      a.set_upstream(upstream);
      (void)a.allocate(1 << 20, 64);          // larger than a page: forwarded upstream
      ::babylon::ExclusiveMonotonicBufferResource b;
      b = ::std::move(a);
      b.release();
      a.release();
    }
    ::printf("exclusive: upstream allocs=%d deallocs=%d\n", upstream.allocs, upstream.deallocs);
    bad += upstream.allocs != upstream.deallocs;
  }
  {
    CountingUpstream upstream;
    {
      ::babylon::SwissMemoryResource a;
      a.set_upstream(upstream);
      (void)a.allocate(1 << 20, 64);
      ::babylon::SwissMemoryResource b;
      b = ::std::move(a);
      // the moved-to resource must now own the block: releasing it returns the block
      b.release();
      int after_b = upstream.deallocs;
      ::printf("swiss: after b.release() upstream allocs=%d deallocs=%d (space_allocated of b was taken over: %s)\n",
               upstream.allocs, after_b, after_b == upstream.allocs ? "yes" : "no");
      bad += after_b != upstream.allocs;
    }
  }
  return bad ? 1 : 0;
}
