// Replay of finding F1 (properties C18 / C03): a default-constructed ConcurrentTransientHashSet that
// has grown past its first chained table reports a wrong size(), empty(), iterates only part of its
// elements, and a copy loses elements. exit 0 = matches a reference std::unordered_set, 1 = violated.
#include "babylon/concurrent/transient_hash_table.h"

#include <cstdio>
#include <unordered_set>

int main() {
  ::babylon::ConcurrentTransientHashSet<int> set;   // default constructed: placeholder head table
  ::std::unordered_set<int> ref;
  for (int i = 0; i < 100; ++i) {
    set.emplace(i * 7919);
    ref.insert(i * 7919);
  }
  size_t visited = 0;
  ::std::unordered_set<int> seen;
  for (auto& v : set) {
    visited++;
    seen.insert(v);
  }
  size_t found = 0;
  for (auto v : ref) {
    found += set.contains(v) ? 1 : 0;
  }
  ::babylon::ConcurrentTransientHashSet<int> copy {set};
  size_t copy_found = 0;
  for (auto v : ref) {
    copy_found += copy.contains(v) ? 1 : 0;
  }
  ::printf("reference=%zu size()=%zu empty()=%d iterated=%zu distinct=%zu find=%zu copy.find=%zu\n", ref.size(),
           set.size(), (int)set.empty(), visited, seen.size(), found, copy_found);
  bool ok = set.size() == ref.size() && !set.empty() && visited == ref.size() && seen == ref &&
            found == ref.size() && copy_found == ref.size();
  return ok ? 0 : 1;
}
