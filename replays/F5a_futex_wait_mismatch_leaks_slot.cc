// Replay of finding F5a (property C13): coroutine Futex::wait with a non-matching value does not
// suspend (correct) but leaks its per-wait DepositBox slot. exit 0 = no slot growth, 1 = leak.
// build: g++ -std=gnu++20 -O2 -DNDEBUG -w -fno-access-control -I/repo/src -isystem /root/miniconda/include ... -lbabylon ...
#include "babylon/coroutine/futex.h"
#include "babylon/executor.h"

#include <cstdio>

using ::babylon::coroutine::Futex;
using ::babylon::coroutine::Task;

int main() {
  auto& executor = ::babylon::InplaceExecutor::instance();
  Futex futex;
  futex.value() = 0;
  auto& box = ::babylon::DepositBox<Futex::Node>::instance();
  auto before = box._slot_id_allocator.end();
  for (int i = 0; i < 1000; ++i) {
    executor.execute([&]() -> Task<> { co_return co_await futex.wait(10086); }).get();
  }
  auto after = box._slot_id_allocator.end();
  ::printf("slots ever allocated: before=%u after=%u\n", before, after);
  return after - before <= 1 ? 0 : 1;
}
