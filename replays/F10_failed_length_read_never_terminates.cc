// Replay of finding F10 (property C11): deserialize_field / deserialize_packed_field ignored a failed
// ReadVarint32(&length) (PushLimit(ok ? length : 0)); on a malformed length prefix the element parse
// "succeeds" on an empty window without consuming input, so the container loop never ends: parsing 11 bytes
// 0xff as vector<string> appends empty strings until memory runs out.
//   build line as for F9 (add -labsl_raw_hash_set -labsl_hash -labsl_strings).  exit 0 = parsing terminates and reports failure; exit 1 = still looping after 5 s.
#include "babylon/serialization.h"

#include <cstdio>
#include <cstdlib>
#include <string>
#include <vector>

#include <signal.h>
#include <unistd.h>

using ::babylon::Serialization;

struct S {
  ::std::string s;
  BABYLON_SERIALIZABLE((s, 1))
};

static void on_alarm(int) {
  static const char msg[] = "VIOLATED: parse did not terminate within 5 s\n";
  (void)!::write(1, msg, sizeof(msg) - 1);
  ::_exit(1);
}

int main() {
  ::signal(SIGALRM, on_alarm);
  ::alarm(5);
  ::std::string bytes(11, '\xff');
  ::std::vector<::std::string> v;
  bool ok = Serialization::parse_from_string(bytes, v);
  ::printf("parse=%d elements=%zu\n", ok, v.size());
  // truncated member: a tag for a length-delimited field with the length missing must not parse
  S value;
  ::std::string truncated("\x0a", 1);
  bool ok2 = Serialization::parse_from_string(truncated, value);
  ::printf("parse(truncated member)=%d\n", ok2);
  bool good = !ok && !ok2;
  ::printf("%s\n", good ? "OK" : "VIOLATED");
  return good ? 0 : 1;
}
