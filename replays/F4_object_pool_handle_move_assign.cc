// Replay of finding F4 (property C17): ObjectPool<T>::Deleter::operator=(Deleter&&) has no return
// statement. Built with the project's own flags (-O2) the move-assignment of a pooled handle
// (`held = pool.pop();`) runs off the end of the operator: undefined behaviour, here an endless loop /
// crash, so the object is never handed to the caller nor returned to the pool.
// exit 0 = handle move-assignment works and the object returns to the pool; non-zero (incl. timeout
// by the watchdog alarm) = violated.
#include "babylon/concurrent/object_pool.h"

#include <cstdio>
#include <unistd.h>

int main() {
  static int entered = 0;
  if (entered++ != 0) {
    ::printf("control flow ran off the end of Deleter::operator= and re-entered main\n");
    ::_exit(3);
  }
  ::alarm(10);   // watchdog: SIGALRM kills the process if the assignment never returns
  ::babylon::ObjectPool<int> pool;
  pool.reserve_and_clear(4);
  pool.push(::std::unique_ptr<int> {new int {7}});
  pool.push(::std::unique_ptr<int> {new int {8}});
  {
    auto held = pool.pop();
    ::printf("popped %d, free=%zu\n", *held, pool.free_object_number());
    held = pool.pop();                 // move-assign a pooled handle
    ::printf("re-assigned to %d, free=%zu\n", *held, pool.free_object_number());
  }
  ::printf("after scope free=%zu\n", pool.free_object_number());
  return pool.free_object_number() == 2 ? 0 : 1;
}
