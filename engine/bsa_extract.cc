// bsa-extract: fact extractor for the babylon static analysis (see DESIGN.md §2.1)
//
// For every non-dependent function definition (including template
// instantiations and lambda call operators) located under one of the --root
// prefixes, and transitively for every callee with a body under those
// prefixes, dump:
//   * identity (qualified name, template args, signature, file:line, record)
//   * the clang CFG (reachable successor edges only, terminator conditions)
//   * per block the ordered list of events (calls, constructions, new/delete,
//     assignments, declarations, returns, implicit destructors), each with
//     operand descriptors that refer to parameters, locals, fields, constants
//     and earlier events.
// The extractor decides nothing; rules live in /verif/engine/bsa/*.py.

#include "clang/AST/ASTConsumer.h"
#include "clang/AST/ASTContext.h"
#include "clang/AST/DeclCXX.h"
#include "clang/AST/DeclTemplate.h"
#include "clang/AST/ExprCXX.h"
#include "clang/AST/RecursiveASTVisitor.h"
#include "clang/AST/StmtCXX.h"
#include "clang/Analysis/CFG.h"
#include "clang/Basic/SourceManager.h"
#include "clang/Frontend/CompilerInstance.h"
#include "clang/Frontend/FrontendAction.h"
#include "clang/Tooling/CommonOptionsParser.h"
#include "clang/Tooling/Tooling.h"
#include "llvm/Support/CommandLine.h"
#include "llvm/Support/JSON.h"
#include "llvm/Support/raw_ostream.h"

#include <deque>
#include <map>
#include <set>
#include <string>
#include <vector>

using namespace clang;
using namespace clang::tooling;
namespace json = llvm::json;

static llvm::cl::OptionCategory Cat("bsa-extract options");
static llvm::cl::opt<std::string> OutFile("o", llvm::cl::desc("output json"),
                                          llvm::cl::Required,
                                          llvm::cl::cat(Cat));
static llvm::cl::list<std::string> Roots(
    "root", llvm::cl::desc("path prefix of files whose functions are dumped"),
    llvm::cl::cat(Cat));
static llvm::cl::opt<std::string> Match(
    "match",
    llvm::cl::desc("only seed functions whose qualified name contains one of "
                   "these '|'-separated substrings (callees are always "
                   "followed)"),
    llvm::cl::init(""), llvm::cl::cat(Cat));

namespace {

struct FnState {
  const FunctionDecl* FD = nullptr;
  int id = -1;
};

class Extractor {
 public:
  explicit Extractor(ASTContext& C)
      : Ctx(C), SM(C.getSourceManager()), PP(C.getPrintingPolicy()) {
    PP.SuppressTagKeyword = true;
    PP.Bool = true;
    PP.FullyQualifiedName = true;
    PP.SuppressUnwrittenScope = false;
    PP.TerseOutput = true;
    if (!Match.empty()) {
      llvm::StringRef M(Match);
      llvm::SmallVector<llvm::StringRef, 8> Parts;
      M.split(Parts, '|');
      for (auto P : Parts)
        if (!P.empty()) MatchParts.push_back(P.str());
    }
  }

  // ---------------------------------------------------------------- utilities
  std::string fileOf(SourceLocation L) {
    if (L.isInvalid()) return "";
    L = SM.getExpansionLoc(L);
    PresumedLoc P = SM.getPresumedLoc(L);
    if (P.isInvalid()) return "";
    return P.getFilename();
  }
  unsigned lineOf(SourceLocation L) {
    if (L.isInvalid()) return 0;
    L = SM.getExpansionLoc(L);
    PresumedLoc P = SM.getPresumedLoc(L);
    if (P.isInvalid()) return 0;
    return P.getLine();
  }
  bool inRoots(SourceLocation L) {
    std::string F = fileOf(L);
    if (F.empty()) return false;
    auto It = RootCache.find(F);
    if (It != RootCache.end()) return It->second;
    bool R = false;
    for (auto& P : Roots)
      if (llvm::StringRef(F).startswith(P)) R = true;
    RootCache[F] = R;
    return R;
  }
  std::string typeStr(QualType T) {
    if (T.isNull()) return "";
    return T.getCanonicalType().getAsString(PP);
  }
  std::string qname(const NamedDecl* D) {
    std::string S;
    llvm::raw_string_ostream OS(S);
    D->printQualifiedName(OS, PP);
    return OS.str();
  }
  std::string recName(const RecordDecl* RD) {
    if (!RD) return "";
    if (auto* CR = dyn_cast<CXXRecordDecl>(RD))
      if (CR->isLambda()) return qname(CR);
    return typeStr(Ctx.getRecordType(RD));
  }
  std::string targsOf(const FunctionDecl* FD) {
    std::string S;
    if (auto* Args = FD->getTemplateSpecializationArgs()) {
      llvm::raw_string_ostream OS(S);
      bool First = true;
      for (auto& A : Args->asArray()) {
        if (!First) OS << ",";
        First = false;
        if (A.getKind() == TemplateArgument::Pack) {
          bool F2 = true;
          for (auto& PA : A.pack_elements()) {
            if (!F2) OS << ",";
            F2 = false;
            PA.print(PP, OS, true);
          }
        } else {
          A.print(PP, OS, true);
        }
      }
    }
    return S;
  }
  std::string sigOf(const FunctionDecl* FD) {
    std::string S = "(";
    bool First = true;
    for (auto* P : FD->parameters()) {
      if (!First) S += ",";
      First = false;
      S += typeStr(P->getType());
    }
    S += ")";
    if (auto* M = dyn_cast<CXXMethodDecl>(FD)) {
      if (M->isConst()) S += "const";
      if (M->getRefQualifier() == RQ_RValue) S += "&&";
    }
    return S;
  }

  const FunctionDecl* defOf(const FunctionDecl* FD) {
    if (!FD) return nullptr;
    const FunctionDecl* Def = nullptr;
    if (FD->hasBody(Def) && Def) return Def;
    return nullptr;
  }

  bool wanted(const FunctionDecl* Def) {
    if (!Def) return false;
    if (Def->isDependentContext()) return false;
    if (Def->isTemplated() && !Def->isTemplateInstantiation() &&
        Def->getDescribedFunctionTemplate())
      return false;
    if (!Def->doesThisDeclarationHaveABody()) return false;
    if (Def->isDeleted()) return false;
    if (Def->isDefaulted() && !Def->isUserProvided()) {
      // implicit or =default: body synthesised; skip (handled as opaque)
      return false;
    }
    if (!inRoots(Def->getLocation())) return false;
    return true;
  }

  // returns function id or -1
  int enqueue(const FunctionDecl* FD) {
    const FunctionDecl* Def = defOf(FD);
    if (!wanted(Def)) return -1;
    Def = Def->getCanonicalDecl() ? Def : Def;
    auto It = Ids.find(Def);
    if (It != Ids.end()) return It->second;
    int Id = (int)Ids.size();
    Ids[Def] = Id;
    Work.push_back(Def);
    return Id;
  }

  void seed(const FunctionDecl* FD) {
    const FunctionDecl* Def = defOf(FD);
    if (!Def || Def != FD) return;
    if (!wanted(Def)) return;
    if (!MatchParts.empty()) {
      std::string Q = qname(Def);
      bool Ok = false;
      for (auto& P : MatchParts)
        if (Q.find(P) != std::string::npos) Ok = true;
      if (!Ok) return;
    }
    enqueue(Def);
  }

  // ------------------------------------------------------------------ records
  // does the record (or one of its bases) declare non-static data members?
  // (a vptr alone does not count: there is nothing for a move to transfer)
  bool hasDataMembers(const CXXRecordDecl* RD, int Depth = 0) {
    if (!RD || Depth > 8) return false;
    if (!RD->field_empty()) return true;
    for (auto& B : RD->bases())
      if (auto* BR = B.getType()->getAsCXXRecordDecl())
        if (BR->getDefinition() && hasDataMembers(BR->getDefinition(), Depth + 1))
          return true;
    return false;
  }
  void noteRecord(const CXXRecordDecl* RD) {
    if (!RD) return;
    RD = RD->getDefinition();
    if (!RD || RD->isDependentContext()) return;
    if (!inRoots(RD->getLocation())) return;
    if (RD->isLambda()) return;
    std::string Q = recName(RD);
    if (Records.count(Q)) return;
    json::Object O;
    O["file"] = fileOf(RD->getLocation());
    O["line"] = (int64_t)lineOf(RD->getLocation());
    json::Array Fs;
    for (auto* F : RD->fields()) {
      json::Object FO;
      FO["name"] = F->getNameAsString();
      FO["type"] = typeStr(F->getType());
      FO["has_init"] = F->hasInClassInitializer();
      if (F->hasInClassInitializer() && F->getInClassInitializer()) {
        Expr::EvalResult R;
        const Expr* IE = F->getInClassInitializer();
        if (!IE->isValueDependent() &&
            IE->getType()->isIntegralOrEnumerationType() &&
            IE->EvaluateAsInt(R, Ctx))
          FO["init_const"] = toString(R.Val.getInt(), 10);
      }
      Fs.push_back(std::move(FO));
    }
    O["fields"] = std::move(Fs);
    // static constexpr data members with integral values (WIRE_TYPE, capacities, ...)
    json::Object Cs;
    for (auto* D : RD->decls()) {
      if (auto* VD = dyn_cast<VarDecl>(D)) {
        if (!VD->isStaticDataMember()) continue;
        const VarDecl* Def = VD;
        if (!VD->getType()->isIntegralOrEnumerationType()) continue;
        const Expr* Init = VD->getAnyInitializer(Def);
        if (!Init || Init->isValueDependent()) continue;
        Expr::EvalResult R;
        if (Init->EvaluateAsInt(R, Ctx)) {
          llvm::SmallString<32> S;
          R.Val.getInt().toString(S, 10);
          Cs[VD->getNameAsString()] = std::string(S.str());
        }
      }
    }
    O["consts"] = std::move(Cs);
    json::Array Bs;
    for (auto& B : RD->bases()) {
      json::Object BO;
      BO["type"] = typeStr(B.getType());
      bool HasData = false;
      if (auto* BR = B.getType()->getAsCXXRecordDecl())
        if (BR->getDefinition()) HasData = hasDataMembers(BR->getDefinition());
      BO["has_data"] = HasData;
      Bs.push_back(std::move(BO));
    }
    O["bases"] = std::move(Bs);
    json::Array Ms;
    for (auto* M : RD->methods()) {
      json::Object MO;
      MO["name"] = M->getNameAsString();
      MO["sig"] = sigOf(M);
      std::string K = "method";
      if (auto* C = dyn_cast<CXXConstructorDecl>(M)) {
        if (C->isCopyConstructor())
          K = "copy_ctor";
        else if (C->isMoveConstructor())
          K = "move_ctor";
        else if (C->isDefaultConstructor())
          K = "default_ctor";
        else
          K = "ctor";
      } else if (isa<CXXDestructorDecl>(M))
        K = "dtor";
      else if (M->isCopyAssignmentOperator())
        K = "copy_assign";
      else if (M->isMoveAssignmentOperator())
        K = "move_assign";
      MO["kind"] = K;
      MO["deleted"] = M->isDeleted();
      MO["defaulted"] = M->isDefaulted();
      MO["user_provided"] = M->isUserProvided();
      MO["implicit"] = M->isImplicit();
      MO["virtual"] = M->isVirtual();
      MO["access"] = (int64_t)M->getAccess();
      const FunctionDecl* Def = defOf(M);
      if (Def && Ids.count(Def)) MO["fid"] = Ids[Def];
      Ms.push_back(std::move(MO));
    }
    O["methods"] = std::move(Ms);
    Records[Q] = std::move(O);
  }

  // -------------------------------------------------------------- descriptors
  struct FnCtx {
    const FunctionDecl* FD;
    std::map<const VarDecl*, int> Vars;
    json::Object VarInfo;
    std::map<const Stmt*, int> EvId;
    int NextEv = 0;
    json::Array* CurEvents = nullptr;  // events of the block being filled
    int CurBlock = -1;
  };

  int varId(FnCtx& F, const VarDecl* V) {
    auto It = F.Vars.find(V);
    if (It != F.Vars.end()) return It->second;
    int Id = (int)F.Vars.size();
    F.Vars[V] = Id;
    json::Object O;
    O["name"] = V->getNameAsString();
    O["type"] = typeStr(V->getType());
    O["line"] = (int64_t)lineOf(V->getLocation());
    F.VarInfo[std::to_string(Id)] = std::move(O);
    return Id;
  }

  static const Expr* strip(const Expr* E) {
    while (E) {
      const Expr* N = E->IgnoreParens();
      if (auto* ICE = dyn_cast<ImplicitCastExpr>(N)) {
        N = ICE->getSubExpr();
      } else if (auto* EWC = dyn_cast<ExprWithCleanups>(N)) {
        N = EWC->getSubExpr();
      } else if (auto* MTE = dyn_cast<MaterializeTemporaryExpr>(N)) {
        N = MTE->getSubExpr();
      } else if (auto* BTE = dyn_cast<CXXBindTemporaryExpr>(N)) {
        N = BTE->getSubExpr();
      } else if (auto* DA = dyn_cast<CXXDefaultArgExpr>(N)) {
        N = DA->getExpr();
      } else if (auto* DI = dyn_cast<CXXDefaultInitExpr>(N)) {
        N = DI->getExpr();
      } else if (auto* CE = dyn_cast<ConstantExpr>(N)) {
        N = CE->getSubExpr();
      } else if (auto* SN = dyn_cast<SubstNonTypeTemplateParmExpr>(N)) {
        N = SN->getReplacement();
      } else if (auto* RW = dyn_cast<CXXRewrittenBinaryOperator>(N)) {
        N = RW->getSemanticForm();
      }
      if (N == E) break;
      E = N;
    }
    return E;
  }

  // calls that are value-transparent: desc(call) = desc(arg0), no event
  static bool transparentCallee(const FunctionDecl* FD) {
    if (!FD) return false;
    if (unsigned B = FD->getBuiltinID()) {
      (void)B;
      if (FD->getName() == "__builtin_expect") return true;
    }
    if (!FD->isInStdNamespace()) return false;
    if (!FD->getIdentifier()) return false;
    llvm::StringRef N = FD->getName();
    return N == "move" || N == "forward" || N == "addressof" ||
           N == "move_if_noexcept" || N == "as_const";
  }

  bool isEventExpr(const Expr* E) {
    if (auto* CE = dyn_cast<CallExpr>(E)) {
      if (transparentCallee(CE->getDirectCallee())) return false;
      return true;
    }
    if (isa<CXXConstructExpr>(E) || isa<CXXNewExpr>(E) ||
        isa<CXXDeleteExpr>(E) || isa<CXXThrowExpr>(E))
      return true;
    if (auto* BO = dyn_cast<BinaryOperator>(E))
      return BO->isAssignmentOp();
    if (auto* UO = dyn_cast<UnaryOperator>(E))
      return UO->isIncrementDecrementOp();
    return false;
  }

  json::Value desc(FnCtx& F, const Expr* E0, int Depth = 0) {
    json::Object O;
    if (!E0) {
      O["k"] = "none";
      return std::move(O);
    }
    if (!E0->isValueDependent() && !E0->getType().isNull() &&
        E0->getType()->isIntegralOrEnumerationType() && E0->isPRValue()) {
      Expr::EvalResult R;
      if (E0->EvaluateAsInt(R, Ctx, Expr::SE_NoSideEffects)) {
        O["k"] = "c";
        llvm::SmallString<32> S;
        R.Val.getInt().toString(S, 10);
        O["v"] = std::string(S.str());
        if (auto* DRE = dyn_cast<DeclRefExpr>(strip(E0)))
          O["n"] = DRE->getDecl()->getNameAsString();
        return std::move(O);
      }
    }
    const Expr* E = strip(E0);
    if (Depth > 40) {
      O["k"] = "?";
      O["cls"] = "too-deep";
      return std::move(O);
    }
    // explicit casts: keep a note of narrowing integral casts, else drop
    if (auto* EC = dyn_cast<ExplicitCastExpr>(E)) {
      json::Value Sub = desc(F, EC->getSubExpr(), Depth + 1);
      QualType T = EC->getType();
      if (T->isIntegralOrEnumerationType() || T->isPointerType() ||
          T->isReferenceType()) {
        json::Object C;
        C["k"] = "cast";
        C["t"] = typeStr(T);
        C["x"] = std::move(Sub);
        return std::move(C);
      }
      return Sub;
    }
    // events referenced by id
    if (isEventExpr(E)) {
      O["k"] = "e";
      O["id"] = eventId(F, E);
      return std::move(O);
    }
    // transparent calls
    if (auto* CE = dyn_cast<CallExpr>(E)) {
      if (transparentCallee(CE->getDirectCallee()) && CE->getNumArgs() >= 1)
        return desc(F, CE->getArg(0), Depth + 1);
    }
    // constants
    if (!E->isValueDependent() && !E->getType().isNull()) {
      if (E->getType()->isIntegralOrEnumerationType() && !E->isGLValue()) {
        Expr::EvalResult R;
        if (E->EvaluateAsInt(R, Ctx, Expr::SE_NoSideEffects)) {
          O["k"] = "c";
          llvm::SmallString<32> S;
          R.Val.getInt().toString(S, 10);
          O["v"] = std::string(S.str());
          if (auto* DRE = dyn_cast<DeclRefExpr>(E))
            O["n"] = DRE->getDecl()->getNameAsString();
          return std::move(O);
        }
      }
      if (E->getType()->isPointerType() || E->getType()->isNullPtrType()) {
        if (E->isNullPointerConstant(Ctx, Expr::NPC_ValueDependentIsNotNull)) {
          O["k"] = "c";
          O["v"] = "null";
          return std::move(O);
        }
      }
    }
    if (auto* DRE = dyn_cast<DeclRefExpr>(E)) {
      const ValueDecl* D = DRE->getDecl();
      if (auto* PV = dyn_cast<ParmVarDecl>(D)) {
        if (PV->getDeclContext() == F.FD) {
          O["k"] = "p";
          O["i"] = (int64_t)PV->getFunctionScopeIndex();
          O["n"] = PV->getNameAsString();
          return std::move(O);
        }
        O["k"] = "cap";
        O["n"] = PV->getNameAsString();
        O["param"] = (int64_t)PV->getFunctionScopeIndex();
        return std::move(O);
      }
      if (auto* V = dyn_cast<VarDecl>(D)) {
        if (V->isLocalVarDecl() || V->isStaticLocal()) {
          if (V->getDeclContext() == F.FD) {
            O["k"] = "l";
            O["id"] = varId(F, V);
            O["n"] = V->getNameAsString();
            return std::move(O);
          }
          O["k"] = "cap";
          O["n"] = V->getNameAsString();
          return std::move(O);
        }
        O["k"] = "g";
        O["n"] = qname(V);
        return std::move(O);
      }
      if (auto* FDn = dyn_cast<FunctionDecl>(D)) {
        O["k"] = "fn";
        O["n"] = qname(FDn);
        int Id = enqueue(FDn);
        if (Id >= 0) O["fid"] = Id;
        return std::move(O);
      }
      if (auto* BD = dyn_cast<BindingDecl>(D)) {
        O["k"] = "bind";
        O["n"] = BD->getNameAsString();
        if (BD->getBinding()) O["x"] = desc(F, BD->getBinding(), Depth + 1);
        return std::move(O);
      }
      O["k"] = "g";
      O["n"] = qname(D);
      return std::move(O);
    }
    if (isa<CXXThisExpr>(E)) {
      O["k"] = "this";
      return std::move(O);
    }
    if (auto* ME = dyn_cast<MemberExpr>(E)) {
      O["k"] = "f";
      O["b"] = desc(F, ME->getBase(), Depth + 1);
      O["n"] = ME->getMemberDecl()->getNameAsString();
      O["arrow"] = ME->isArrow();
      if (auto* FDc = dyn_cast<FieldDecl>(ME->getMemberDecl())) {
        O["rec"] = recName(FDc->getParent());
        O["t"] = typeStr(FDc->getType());
      } else if (auto* VD = dyn_cast<VarDecl>(ME->getMemberDecl())) {
        O["rec"] = "static";
        O["t"] = typeStr(VD->getType());
      }
      return std::move(O);
    }
    if (auto* UO = dyn_cast<UnaryOperator>(E)) {
      O["k"] = "u";
      O["op"] = UnaryOperator::getOpcodeStr(UO->getOpcode()).str();
      O["x"] = desc(F, UO->getSubExpr(), Depth + 1);
      return std::move(O);
    }
    if (auto* BO = dyn_cast<BinaryOperator>(E)) {
      O["k"] = "b";
      O["op"] = BO->getOpcodeStr().str();
      if (BO->isComparisonOp() && !BO->getLHS()->getType().isNull() &&
          BO->getLHS()->getType()->isUnsignedIntegerOrEnumerationType())
        O["unsigned"] = true;
      O["l"] = desc(F, BO->getLHS(), Depth + 1);
      O["r"] = desc(F, BO->getRHS(), Depth + 1);
      return std::move(O);
    }
    if (auto* CO = dyn_cast<ConditionalOperator>(E)) {
      O["k"] = "cond";
      O["c"] = desc(F, CO->getCond(), Depth + 1);
      O["t"] = desc(F, CO->getTrueExpr(), Depth + 1);
      O["f"] = desc(F, CO->getFalseExpr(), Depth + 1);
      return std::move(O);
    }
    if (auto* AS = dyn_cast<ArraySubscriptExpr>(E)) {
      O["k"] = "idx";
      O["b"] = desc(F, AS->getBase(), Depth + 1);
      O["i"] = desc(F, AS->getIdx(), Depth + 1);
      return std::move(O);
    }
    if (auto* LE = dyn_cast<LambdaExpr>(E)) {
      O["k"] = "lam";
      if (auto* Op = LE->getCallOperator()) {
        O["line"] = (int64_t)lineOf(Op->getLocation());
        if (!LE->getLambdaClass()->isGenericLambda()) {
          int Id = enqueue(Op);
          if (Id >= 0) O["fid"] = Id;
        }
        O["cls"] = qname(LE->getLambdaClass());
      }
      return std::move(O);
    }
    if (auto* IL = dyn_cast<InitListExpr>(E)) {
      O["k"] = "init";
      json::Array Xs;
      for (auto* I : IL->inits()) Xs.push_back(desc(F, I, Depth + 1));
      O["xs"] = std::move(Xs);
      return std::move(O);
    }
    if (auto* SL = dyn_cast<StringLiteral>(E)) {
      O["k"] = "str";
      O["v"] = SL->getBytes().str().substr(0, 64);
      return std::move(O);
    }
    if (isa<CXXScalarValueInitExpr>(E) || isa<ImplicitValueInitExpr>(E)) {
      O["k"] = "c";
      O["v"] = "0";
      return std::move(O);
    }
    if (auto* FL = dyn_cast<FloatingLiteral>(E)) {
      (void)FL;
      O["k"] = "c";
      O["v"] = "float";
      return std::move(O);
    }
    if (auto* SE = dyn_cast<StmtExpr>(E)) {
      (void)SE;
      O["k"] = "?";
      O["cls"] = "StmtExpr";
      return std::move(O);
    }
    if (auto* OVE = dyn_cast<OpaqueValueExpr>(E)) {
      if (OVE->getSourceExpr()) return desc(F, OVE->getSourceExpr(), Depth + 1);
    }
    if (auto* UE = dyn_cast<UnaryExprOrTypeTraitExpr>(E)) {
      (void)UE;
      O["k"] = "?";
      O["cls"] = "sizeof";
      return std::move(O);
    }
    O["k"] = "?";
    O["cls"] = E->getStmtClassName();
    return std::move(O);
  }

  int eventId(FnCtx& F, const Stmt* S) {
    auto It = F.EvId.find(S);
    if (It != F.EvId.end()) return It->second;
    int Id = F.NextEv++;
    F.EvId[S] = Id;
    return Id;
  }

  // ------------------------------------------------------------------- events
  void calleeInfo(FnCtx& F, json::Object& O, const FunctionDecl* Callee) {
    (void)F;
    O["callee"] = qname(Callee);
    std::string TA = targsOf(Callee);
    if (!TA.empty()) O["targs"] = TA;
    O["sig"] = sigOf(Callee);
    if (auto* M = dyn_cast<CXXMethodDecl>(Callee)) {
      O["rec"] = recName(M->getParent());
      O["name"] = M->getNameAsString();
      if (M->isVirtual()) O["virtual"] = true;
      if (M->isStatic()) O["static"] = true;
      if (M->getParent()->isLambda()) O["lambda"] = true;
    } else {
      O["name"] = Callee->getNameAsString();
    }
    if (Callee->isNoReturn()) O["noreturn"] = true;
    int Id = enqueue(Callee);
    if (Id >= 0) O["cid"] = Id;
    O["rtype"] = typeStr(Callee->getReturnType());
  }

  void emit(FnCtx& F, json::Object&& O) { F.CurEvents->push_back(std::move(O)); }

  void handleStmt(FnCtx& F, const Stmt* S) {
    if (!S) return;
    if (Done.count(S)) return;
    if (auto* E = dyn_cast<Expr>(S)) {
      if (!isEventExpr(E)) return;
      Done.insert(S);
      json::Object O;
      O["id"] = eventId(F, E);
      O["line"] = (int64_t)lineOf(E->getExprLoc());
      if (auto* CE = dyn_cast<CallExpr>(E)) {
        O["e"] = "call";
        const FunctionDecl* Callee = CE->getDirectCallee();
        unsigned ArgStart = 0;
        if (auto* MC = dyn_cast<CXXMemberCallExpr>(CE)) {
          O["this"] = desc(F, MC->getImplicitObjectArgument());
          if (auto* ME = dyn_cast<MemberExpr>(MC->getCallee()->IgnoreParens()))
            if (ME->hasQualifier()) O["qualified"] = true;
        } else if (auto* OC = dyn_cast<CXXOperatorCallExpr>(CE)) {
          if (Callee && isa<CXXMethodDecl>(Callee) &&
              !cast<CXXMethodDecl>(Callee)->isStatic()) {
            O["this"] = desc(F, OC->getArg(0));
            ArgStart = 1;
          }
          O["op"] = getOperatorSpelling(OC->getOperator());
        }
        if (Callee) {
          calleeInfo(F, O, Callee);
        } else {
          O["fn"] = desc(F, CE->getCallee());
          O["ftype"] = typeStr(CE->getCallee()->getType());
        }
        json::Array Args;
        for (unsigned I = ArgStart; I < CE->getNumArgs(); ++I)
          Args.push_back(desc(F, CE->getArg(I)));
        O["args"] = std::move(Args);
        O["type"] = typeStr(CE->getType());
      } else if (auto* CC = dyn_cast<CXXConstructExpr>(E)) {
        O["e"] = "ctor";
        O["type"] = typeStr(CC->getType());
        const CXXConstructorDecl* CD = CC->getConstructor();
        if (CD) {
          calleeInfo(F, O, CD);
          if (CD->isCopyConstructor()) O["ckind"] = "copy";
          if (CD->isMoveConstructor()) O["ckind"] = "move";
          if (CD->isDefaultConstructor()) O["ckind"] = "default";
        }
        json::Array Args;
        for (unsigned I = 0; I < CC->getNumArgs(); ++I)
          Args.push_back(desc(F, CC->getArg(I)));
        O["args"] = std::move(Args);
        if (CC->isElidable()) O["elidable"] = true;
      } else if (auto* NE = dyn_cast<CXXNewExpr>(E)) {
        O["e"] = "new";
        O["type"] = typeStr(NE->getAllocatedType());
        if (NE->isArray()) {
          O["array"] = true;
          if (auto Sz = NE->getArraySize())
            if (*Sz) O["size"] = desc(F, *Sz);
        }
        json::Array Pl;
        for (unsigned I = 0; I < NE->getNumPlacementArgs(); ++I)
          Pl.push_back(desc(F, NE->getPlacementArg(I)));
        O["placement"] = std::move(Pl);
        if (NE->getInitializer()) O["init"] = desc(F, NE->getInitializer());
        if (auto* ON = NE->getOperatorNew()) O["opnew"] = qname(ON);
      } else if (auto* DE = dyn_cast<CXXDeleteExpr>(E)) {
        O["e"] = "delete";
        O["x"] = desc(F, DE->getArgument());
        if (DE->isArrayForm()) O["array"] = true;
        QualType DT = DE->getDestroyedType();
        if (!DT.isNull()) {
          O["type"] = typeStr(DT);
          if (auto* RD = DT->getAsCXXRecordDecl())
            if (RD->getDefinition() && RD->getDefinition()->getDestructor()) {
              int Id = enqueue(RD->getDefinition()->getDestructor());
              if (Id >= 0) O["dtor_cid"] = Id;
            }
        }
      } else if (auto* TE = dyn_cast<CXXThrowExpr>(E)) {
        O["e"] = "throw";
        (void)TE;
      } else if (auto* BO = dyn_cast<BinaryOperator>(E)) {
        O["e"] = "asg";
        O["op"] = BO->getOpcodeStr().str();
        O["lhs"] = desc(F, BO->getLHS());
        O["rhs"] = desc(F, BO->getRHS());
      } else if (auto* UO = dyn_cast<UnaryOperator>(E)) {
        O["e"] = "asg";
        O["op"] = UnaryOperator::getOpcodeStr(UO->getOpcode()).str();
        O["lhs"] = desc(F, UO->getSubExpr());
        O["prefix"] = UO->isPrefix();
      }
      emit(F, std::move(O));
      return;
    }
    if (auto* DS = dyn_cast<DeclStmt>(S)) {
      Done.insert(S);
      for (auto* D : DS->decls()) {
        if (auto* V = dyn_cast<VarDecl>(D)) {
          json::Object O;
          O["e"] = "decl";
          O["id"] = F.NextEv++;
          O["var"] = varId(F, V);
          O["name"] = V->getNameAsString();
          O["type"] = typeStr(V->getType());
          O["line"] = (int64_t)lineOf(V->getLocation());
          if (V->hasInit()) O["init"] = desc(F, V->getInit());
          if (V->isStaticLocal()) O["static"] = true;
          if (auto* DD = dyn_cast<DecompositionDecl>(V)) {
            json::Array Bs;
            for (auto* B : DD->bindings()) Bs.push_back(B->getNameAsString());
            O["bindings"] = std::move(Bs);
          }
          emit(F, std::move(O));
        }
      }
      return;
    }
    if (auto* RS = dyn_cast<ReturnStmt>(S)) {
      Done.insert(S);
      json::Object O;
      O["e"] = "ret";
      O["id"] = F.NextEv++;
      O["line"] = (int64_t)lineOf(RS->getReturnLoc());
      if (RS->getRetValue()) O["v"] = desc(F, RS->getRetValue());
      emit(F, std::move(O));
      return;
    }
  }

  void handleElement(FnCtx& F, const CFGElement& El) {
    switch (El.getKind()) {
      case CFGElement::Statement:
      case CFGElement::Constructor:
      case CFGElement::CXXRecordTypedCall:
        handleStmt(F, El.castAs<CFGStmt>().getStmt());
        break;
      case CFGElement::Initializer: {
        const CXXCtorInitializer* I = El.castAs<CFGInitializer>().getInitializer();
        json::Object O;
        O["e"] = "init";
        O["id"] = F.NextEv++;
        O["line"] = (int64_t)lineOf(I->getSourceLocation());
        if (I->isAnyMemberInitializer()) {
          O["field"] = I->getAnyMember()->getNameAsString();
          if (auto* FDc = I->getMember()) O["rec"] = recName(FDc->getParent());
        } else if (I->isBaseInitializer()) {
          O["base"] = typeStr(QualType(I->getBaseClass(), 0));
        } else if (I->isDelegatingInitializer()) {
          O["delegating"] = true;
        }
        O["written"] = I->isWritten();
        if (I->getInit()) O["v"] = desc(F, I->getInit());
        emit(F, std::move(O));
        break;
      }
      case CFGElement::AutomaticObjectDtor: {
        auto D = El.castAs<CFGAutomaticObjDtor>();
        json::Object O;
        O["e"] = "dtor";
        O["id"] = F.NextEv++;
        O["how"] = "auto";
        const VarDecl* V = D.getVarDecl();
        O["var"] = varId(F, V);
        O["name"] = V->getNameAsString();
        O["type"] = typeStr(V->getType().getNonReferenceType());
        O["line"] = (int64_t)lineOf(D.getTriggerStmt()
                                        ? D.getTriggerStmt()->getEndLoc()
                                        : V->getLocation());
        dtorCallee(F, O, V->getType().getNonReferenceType());
        emit(F, std::move(O));
        break;
      }
      case CFGElement::TemporaryDtor: {
        auto D = El.castAs<CFGTemporaryDtor>();
        json::Object O;
        O["e"] = "dtor";
        O["id"] = F.NextEv++;
        O["how"] = "temp";
        const CXXBindTemporaryExpr* BT = D.getBindTemporaryExpr();
        O["type"] = typeStr(BT->getType());
        O["line"] = (int64_t)lineOf(BT->getExprLoc());
        const Expr* Sub = strip(BT->getSubExpr());
        if (Sub && isEventExpr(Sub)) O["of"] = eventId(F, Sub);
        dtorCallee(F, O, BT->getType());
        emit(F, std::move(O));
        break;
      }
      case CFGElement::MemberDtor: {
        auto D = El.castAs<CFGMemberDtor>();
        json::Object O;
        O["e"] = "dtor";
        O["id"] = F.NextEv++;
        O["how"] = "member";
        O["field"] = D.getFieldDecl()->getNameAsString();
        O["type"] = typeStr(D.getFieldDecl()->getType());
        dtorCallee(F, O, D.getFieldDecl()->getType());
        emit(F, std::move(O));
        break;
      }
      case CFGElement::BaseDtor: {
        auto D = El.castAs<CFGBaseDtor>();
        json::Object O;
        O["e"] = "dtor";
        O["id"] = F.NextEv++;
        O["how"] = "base";
        O["type"] = typeStr(D.getBaseSpecifier()->getType());
        dtorCallee(F, O, D.getBaseSpecifier()->getType());
        emit(F, std::move(O));
        break;
      }
      case CFGElement::DeleteDtor:
      default:
        break;
    }
  }

  void dtorCallee(FnCtx& F, json::Object& O, QualType T) {
    (void)F;
    T = Ctx.getBaseElementType(T);
    if (auto* RD = T->getAsCXXRecordDecl()) {
      RD = RD->getDefinition();
      if (RD && RD->getDestructor()) {
        int Id = enqueue(RD->getDestructor());
        if (Id >= 0) O["cid"] = Id;
        O["callee"] = qname(RD->getDestructor());
      }
    }
  }

  // ---------------------------------------------------------------- functions
  json::Object processFunction(const FunctionDecl* FD, int Id) {
    json::Object O;
    O["id"] = Id;
    O["qname"] = qname(FD);
    O["name"] = FD->getNameAsString();
    O["targs"] = targsOf(FD);
    if (auto* PT = FD->getPrimaryTemplate()) {
      json::Array Names;
      for (auto* P : *PT->getTemplateParameters())
        Names.push_back(P->getNameAsString());
      O["tparams"] = std::move(Names);
      if (auto* Args = FD->getTemplateSpecializationArgs()) {
        json::Array Vals;
        for (auto& A : Args->asArray()) {
          std::string S;
          llvm::raw_string_ostream OS(S);
          if (A.getKind() == TemplateArgument::Pack) {
            OS << "<pack:" << A.pack_size() << ">";
          } else {
            A.print(PP, OS, true);
          }
          Vals.push_back(OS.str());
        }
        O["targl"] = std::move(Vals);
      }
    }
    O["sig"] = sigOf(FD);
    O["file"] = fileOf(FD->getBody()->getBeginLoc());
    O["line"] = (int64_t)lineOf(FD->getBody()->getBeginLoc());
    O["decl_line"] = (int64_t)lineOf(FD->getLocation());
    O["endline"] = (int64_t)lineOf(FD->getEndLoc());
    O["rtype"] = typeStr(FD->getReturnType());
    std::string Kind = "function";
    if (auto* M = dyn_cast<CXXMethodDecl>(FD)) {
      O["record"] = recName(M->getParent());
      noteRecordLater.insert(M->getParent());
      Kind = "method";
      if (auto* C = dyn_cast<CXXConstructorDecl>(M)) {
        Kind = C->isMoveConstructor()   ? "move_ctor"
               : C->isCopyConstructor() ? "copy_ctor"
                                        : "ctor";
      } else if (isa<CXXDestructorDecl>(M))
        Kind = "dtor";
      else if (M->isMoveAssignmentOperator())
        Kind = "move_assign";
      else if (M->isCopyAssignmentOperator())
        Kind = "copy_assign";
      if (M->getParent()->isLambda()) {
        O["lambda"] = true;
        // enclosing function of the lambda
        const DeclContext* DC = M->getParent()->getDeclContext();
        while (DC && !isa<FunctionDecl>(DC)) DC = DC->getParent();
        if (DC) {
          auto* Outer = cast<FunctionDecl>(DC);
          O["outer"] = qname(Outer);
          const FunctionDecl* ODef = defOf(Outer);
          if (ODef && Ids.count(ODef)) O["outer_fid"] = Ids[ODef];
        }
      }
      if (M->isVirtual()) O["virtual"] = true;
      if (M->isStatic()) O["static"] = true;
      O["access"] = (int64_t)M->getAccess();
      json::Array Ov;
      for (auto* OM : M->overridden_methods()) Ov.push_back(qname(OM));
      if (!Ov.empty()) O["overrides"] = std::move(Ov);
    }
    O["kind"] = Kind;
    if (auto* FPT = FD->getType()->getAs<FunctionProtoType>())
      O["noexcept"] = FPT->isNothrow();
    json::Array Ps;
    for (auto* P : FD->parameters()) {
      json::Object PO;
      PO["name"] = P->getNameAsString();
      PO["type"] = typeStr(P->getType());
      // type as written (to recognise template-parameter typed callables)
      QualType PT = P->getType().getNonReferenceType();
      bool Callable = false;
      if (auto* RD = PT->getAsCXXRecordDecl()) {
        if (RD->isLambda()) Callable = true;
      }
      if (PT->isFunctionPointerType() || PT->isFunctionType()) Callable = true;
      PO["callable"] = Callable;
      Ps.push_back(std::move(PO));
    }
    O["params"] = std::move(Ps);

    if (isa<CoroutineBodyStmt>(FD->getBody())) {
      O["coroutine"] = true;
    }

    CFG::BuildOptions BO;
    BO.setAllAlwaysAdd();
    BO.AddImplicitDtors = true;
    BO.AddTemporaryDtors = true;
    BO.AddInitializers = true;
    BO.AddCXXDefaultInitExprInCtors = true;
    BO.PruneTriviallyFalseEdges = true;
    BO.AddEHEdges = false;
    std::unique_ptr<CFG> G =
        CFG::buildCFG(FD, FD->getBody(), &Ctx, BO);
    if (!G) {
      O["cfg_failed"] = true;
      return O;
    }
    FnCtx F;
    F.FD = FD;
    Done.clear();
    O["entry"] = (int64_t)G->getEntry().getBlockID();
    O["exit"] = (int64_t)G->getExit().getBlockID();
    json::Object Blocks;
    // Iterate blocks in a stable order where predecessors in source order
    // come first: CFG stores blocks in reverse; iterate reversed so that
    // sub-expression events get ids before uses in most cases.
    std::vector<const CFGBlock*> Order;
    for (auto It = G->rbegin(); It != G->rend(); ++It) Order.push_back(*It);
    // NB: CFG::begin() is exit-first; rbegin() gives entry-first.
    for (const CFGBlock* B : Order) {
      json::Object BOb;
      json::Array Events;
      F.CurEvents = &Events;
      F.CurBlock = (int)B->getBlockID();
      for (const CFGElement& El : *B) handleElement(F, El);
      // successors
      json::Array Succ;
      const Stmt* Term = B->getTerminatorStmt();
      bool IsSwitch = Term && isa<SwitchStmt>(Term);
      unsigned Idx = 0;
      for (auto SI = B->succ_begin(); SI != B->succ_end(); ++SI, ++Idx) {
        const CFGBlock* SB = SI->getReachableBlock();
        if (!SB) continue;
        json::Object SO;
        SO["to"] = (int64_t)SB->getBlockID();
        if (IsSwitch) {
          const Stmt* L = SB->getLabel();
          if (L && isa<CaseStmt>(L)) {
            auto* CS = cast<CaseStmt>(L);
            Expr::EvalResult R;
            if (CS->getLHS() && CS->getLHS()->EvaluateAsInt(R, Ctx)) {
              llvm::SmallString<32> S;
              R.Val.getInt().toString(S, 10);
              SO["case"] = std::string(S.str());
            }
            // name of the enumerator if any
            if (auto* DRE = dyn_cast<DeclRefExpr>(
                    strip(CS->getLHS())))
              SO["case_name"] = DRE->getDecl()->getNameAsString();
          } else {
            SO["case"] = "default";
          }
        } else if (B->succ_size() == 2) {
          SO["pol"] = (Idx == 0);
        }
        Succ.push_back(std::move(SO));
      }
      BOb["succ"] = std::move(Succ);
      if (B->succ_size() >= 2 || IsSwitch) {
        const Stmt* Cond = B->getLastCondition();
        if (!Cond) Cond = B->getTerminatorCondition(false);
        if (auto* CE = dyn_cast_or_null<Expr>(Cond)) {
          BOb["cond"] = desc(F, CE);
          BOb["cond_line"] = (int64_t)lineOf(CE->getExprLoc());
        }
        if (Term) {
          BOb["term"] = Term->getStmtClassName();
          if (auto* IS = dyn_cast<IfStmt>(Term))
            if (IS->isConstexpr()) BOb["constexpr"] = true;
        }
        if (auto* SS = dyn_cast_or_null<SwitchStmt>(Term)) {
          // every enumerator of the switched-on enum type (exhaustiveness rules)
          QualType CT = SS->getCond()->IgnoreParenImpCasts()->getType();
          if (auto* ET = CT->getAs<EnumType>()) {
            json::Array All;
            for (auto* EC : ET->getDecl()->enumerators()) {
              json::Object EO;
              EO["name"] = EC->getNameAsString();
              llvm::SmallString<32> S;
              EC->getInitVal().toString(S, 10);
              EO["value"] = std::string(S.str());
              All.push_back(std::move(EO));
            }
            BOb["enum_all"] = std::move(All);
            BOb["enum_type"] = typeStr(CT);
          }
        }
        // total number of CFG successors incl. unreachable (to tell pruned)
        BOb["nsucc"] = (int64_t)B->succ_size();
      }
      if (B->hasNoReturnElement()) BOb["noreturn"] = true;
      if (const Stmt* LS = B->getLoopTarget()) {
        (void)LS;
        BOb["loopback"] = true;
      }
      BOb["events"] = std::move(Events);
      Blocks[std::to_string(B->getBlockID())] = std::move(BOb);
    }
    O["blocks"] = std::move(Blocks);
    O["vars"] = std::move(F.VarInfo);
    return O;
  }

  void run(TranslationUnitDecl* TU);

  json::Object finish(const std::string& TUName) {
    json::Array Fns;
    size_t Processed = 0;
    while (Processed < Work.size()) {
      const FunctionDecl* FD = Work[Processed];
      int Id = Ids[FD];
      ++Processed;
      Fns.push_back(processFunction(FD, Id));
    }
    for (auto* RD : noteRecordLater) noteRecord(RD);
    for (auto* RD : SeenRecords) noteRecord(RD);
    json::Object Out;
    Out["tu"] = TUName;
    Out["functions"] = std::move(Fns);
    json::Object Rs;
    for (auto& KV : Records) Rs[KV.first] = std::move(KV.second);
    Out["records"] = std::move(Rs);
    return Out;
  }

  std::set<const CXXRecordDecl*> SeenRecords;

 private:
  ASTContext& Ctx;
  SourceManager& SM;
  PrintingPolicy PP;
  std::map<std::string, bool> RootCache;
  std::map<const FunctionDecl*, int> Ids;
  std::deque<const FunctionDecl*> Work;
  std::set<const Stmt*> Done;
  std::map<std::string, json::Object> Records;
  std::set<const CXXRecordDecl*> noteRecordLater;
  std::vector<std::string> MatchParts;
};

class SeedVisitor : public RecursiveASTVisitor<SeedVisitor> {
 public:
  explicit SeedVisitor(Extractor& E) : Ex(E) {}
  bool shouldVisitTemplateInstantiations() const { return true; }
  bool shouldVisitImplicitCode() const { return false; }
  bool VisitFunctionDecl(FunctionDecl* FD) {
    Ex.seed(FD);
    return true;
  }
  bool VisitLambdaExpr(LambdaExpr* LE) {
    if (LE->getCallOperator() && !LE->getLambdaClass()->isGenericLambda())
      Ex.seed(LE->getCallOperator());
    return true;
  }
  bool VisitCXXRecordDecl(CXXRecordDecl* RD) {
    if (RD->isThisDeclarationADefinition()) Ex.SeenRecords.insert(RD);
    return true;
  }

 private:
  Extractor& Ex;
};

void Extractor::run(TranslationUnitDecl* TU) {
  SeedVisitor V(*this);
  V.TraverseDecl(TU);
}

class Consumer : public ASTConsumer {
 public:
  explicit Consumer(std::string In) : InFile(std::move(In)) {}
  void HandleTranslationUnit(ASTContext& Ctx) override {
    if (Ctx.getDiagnostics().hasErrorOccurred()) {
      llvm::errs() << "bsa-extract: compile errors in " << InFile << "\n";
      Failed = true;
    }
    Extractor Ex(Ctx);
    Ex.run(Ctx.getTranslationUnitDecl());
    json::Object Out = Ex.finish(InFile);
    Out["errors"] = Failed;
    std::error_code EC;
    llvm::raw_fd_ostream OS(OutFile, EC);
    if (EC) {
      llvm::errs() << "cannot write " << OutFile << ": " << EC.message() << "\n";
      return;
    }
    OS << json::Value(std::move(Out)) << "\n";
  }
  bool Failed = false;

 private:
  std::string InFile;
};

class Action : public ASTFrontendAction {
 public:
  std::unique_ptr<ASTConsumer> CreateASTConsumer(CompilerInstance&,
                                                 llvm::StringRef In) override {
    return std::make_unique<Consumer>(In.str());
  }
};

}  // namespace

int main(int argc, const char** argv) {
  auto Parser = CommonOptionsParser::create(argc, argv, Cat);
  if (!Parser) {
    llvm::errs() << Parser.takeError();
    return 2;
  }
  ClangTool Tool(Parser->getCompilations(), Parser->getSourcePathList());
  return Tool.run(newFrontendActionFactory<Action>().get());
}
