"""Classification of events: std::atomic operations, fences, futex calls."""
import re

from .facts import strip_cast, const_val, pstr

RELAXED, CONSUME, ACQUIRE, RELEASE, ACQ_REL, SEQ_CST = 0, 1, 2, 3, 4, 5
ORDER_NAME = {0: "relaxed", 1: "consume", 2: "acquire", 3: "release", 4: "acq_rel", 5: "seq_cst"}

_ATOMIC_REC = re.compile(r"^(const )?std::(__atomic_base|atomic|__atomic_float|atomic_ref)<")
_LOADS = {"load"}
_STORES = {"store"}
_RMW = {"exchange", "fetch_add", "fetch_sub", "fetch_and", "fetch_or", "fetch_xor"}
_CAS = {"compare_exchange_weak", "compare_exchange_strong"}
_RMW_OPS = {"operator++", "operator--", "operator+=", "operator-=", "operator&=", "operator|=", "operator^="}


def acquires(order):
    return order in (CONSUME, ACQUIRE, ACQ_REL, SEQ_CST)


def releases(order):
    return order in (RELEASE, ACQ_REL, SEQ_CST)


def cas_failure_order(success):
    if success == ACQ_REL:
        return ACQUIRE
    if success == RELEASE:
        return RELAXED
    return success


class AtomicOp:
    __slots__ = ("node", "op", "obj", "order", "fail_order", "name", "unresolved", "width")

    def __init__(self, node, op, obj, order, fail_order=None, name="", unresolved=False, width=None):
        self.node = node
        self.op = op            # load | store | rmw | cas | fence
        self.obj = obj          # resolved descriptor of the atomic object
        self.order = order      # int or None if unresolved
        self.fail_order = fail_order
        self.name = name
        self.unresolved = unresolved
        self.width = width

    @property
    def reads(self):
        return self.op in ("load", "rmw", "cas")

    @property
    def writes(self):
        return self.op in ("store", "rmw", "cas")

    def __repr__(self):
        return "<%s %s %s %s @%s>" % (self.op, self.name, pstr(self.obj), ORDER_NAME.get(self.order, self.order),
                                      self.node.line)

    def describe(self):
        return "%s %s on %s with %s at %s" % (self.op, self.name, pstr(self.obj),
                                              ORDER_NAME.get(self.order, "unresolved-order"), self.node.where)


def _order_of(ig, node, idx, default=SEQ_CST):
    args = node.ev.get("args", [])
    if idx >= len(args):
        return default, False
    d = ig.resolve(args[idx], node.frame)
    v = const_val(d)
    if isinstance(v, int):
        return v, False
    # follow locals / inlined returns
    vals = set()
    for o in ig.origins(d):
        cv = const_val(o)
        if isinstance(cv, int):
            vals.add(cv)
        else:
            return None, True
    if len(vals) == 1:
        return vals.pop(), False
    return None, True


def atomic_width(rec):
    m = re.search(r"<(.*)>$", rec or "")
    if not m:
        return None
    t = m.group(1)
    table = {"unsigned short": 16, "short": 16, "unsigned int": 32, "int": 32, "unsigned long": 64, "long": 64,
             "unsigned char": 8, "signed char": 8, "char": 8, "bool": 8, "int8_t": 8}
    if t in table:
        return table[t]
    if t.endswith("*"):
        return 64
    return None


def classify(ig, node):
    """AtomicOp for an event node, or None"""
    ev = node.ev
    if ev["e"] != "call":
        return None
    callee = ev.get("callee", "")
    if callee == "std::atomic_thread_fence":
        order, unres = _order_of(ig, node, 0)
        return AtomicOp(node, "fence", None, order, name="fence", unresolved=unres)
    rec = ev.get("rec", "")
    if not rec or not _ATOMIC_REC.match(rec):
        return None
    name = ev.get("name", "")
    obj = ig.rthis(node)
    width = atomic_width(rec)
    if name in _LOADS:
        order, unres = _order_of(ig, node, 0)
        return AtomicOp(node, "load", obj, order, name=name, unresolved=unres, width=width)
    if name.startswith("operator ") and ev.get("op") is None:
        # conversion operator T(): seq_cst load
        return AtomicOp(node, "load", obj, SEQ_CST, name="operator T", width=width)
    if name in _STORES:
        order, unres = _order_of(ig, node, 1)
        return AtomicOp(node, "store", obj, order, name=name, unresolved=unres, width=width)
    if name == "operator=":
        return AtomicOp(node, "store", obj, SEQ_CST, name=name, width=width)
    if name in _RMW:
        order, unres = _order_of(ig, node, 1)
        return AtomicOp(node, "rmw", obj, order, name=name, unresolved=unres, width=width)
    if name in _RMW_OPS:
        return AtomicOp(node, "rmw", obj, SEQ_CST, name=name, width=width)
    if name in _CAS:
        nargs = len(ev.get("args", []))
        if nargs >= 4:
            so, u1 = _order_of(ig, node, 2)
            fo, u2 = _order_of(ig, node, 3)
            return AtomicOp(node, "cas", obj, so, fo, name=name, unresolved=u1 or u2, width=width)
        so, u1 = _order_of(ig, node, 2)
        fo = cas_failure_order(so) if so is not None else None
        return AtomicOp(node, "cas", obj, so, fo, name=name, unresolved=u1, width=width)
    if name in ("is_lock_free", "atomic", "__atomic_base", "wait", "notify_one", "notify_all"):
        return None
    return None


def atomic_ops(ig, live=None):
    out = []
    for n in ig.ev_nodes():
        if live is not None and n.id not in live:
            continue
        a = classify(ig, n)
        if a is not None:
            out.append(a)
    return out


def obj_field(desc):
    """name of the last field in an access path (through calls like .value())"""
    d = strip_cast(desc)
    while isinstance(d, dict):
        k = d.get("k")
        if k == "f":
            return d.get("n"), d.get("rec"), d.get("t")
        if k in ("u", "cast"):
            d = d.get("x")
        elif k == "idx":
            d = d.get("b")
        else:
            return None, None, None
    return None, None, None


def is_cas_success_edge(ig, src, dst, lab, cas_nodes):
    """edge label tests the boolean result of one of cas_nodes and this is the
    success polarity"""
    from .graph import cond_atoms
    if lab is None or lab.cond is None or lab.pol is None:
        return None
    atom, pol = cond_atoms(ig.resolve(lab.cond, lab.frame), lab.pol)
    for o in ig.origins(atom):
        n = ig.ev_of(o)
        if n is not None and n.id in cas_nodes and not o.get("lab"):
            return n if pol else None
    return None
