"""Inlined event graph (DESIGN §2.3) and the path queries the rule kinds use.

All queries are plain reachability with nodes/edges removed, or small forward
dataflows; nothing here knows about babylon.
"""
from collections import deque

from .facts import walk, strip_cast, pstr


class Frame:
    __slots__ = ("id", "fn", "parent", "call_node", "this", "args", "depth",
                 "children", "ev_node", "after_node", "entry_node", "exit_node", "block_node")

    def __init__(self, fid, fn, parent, call_node, this, args, depth):
        self.id = fid
        self.fn = fn
        self.parent = parent
        self.call_node = call_node
        self.this = this
        self.args = args
        self.depth = depth
        self.children = {}     # event id -> callee Frame
        self.ev_node = {}      # event id -> Node
        self.after_node = {}   # event id -> Node (call return point of inlined call)
        self.block_node = {}
        self.entry_node = None
        self.exit_node = None

    @property
    def owner_id(self):
        """id of the frame this frame's code belongs to: its own, or - for an extracted helper expanded into its caller
        (core.mark_unknown_helpers) - the nearest enclosing frame that is not such a helper"""
        f = self
        while f.parent is not None and getattr(f.fn, "unknown_helper", False):
            f = f.parent
        return f.id

    def chain(self):
        out = []
        f = self
        while f is not None:
            out.append(f.fn.label)
            f = f.parent
        return list(reversed(out))


class Node:
    __slots__ = ("id", "kind", "frame", "ev", "succ", "pred", "block", "inlined")

    def __init__(self, nid, kind, frame, ev=None, block=None):
        self.id = nid
        self.kind = kind          # 'blk' | 'ev' | 'after'
        self.frame = frame
        self.ev = ev
        self.block = block
        self.succ = []            # list of (node, label)
        self.pred = []
        self.inlined = False

    @property
    def line(self):
        if self.ev is not None:
            return self.ev.get("line", 0)
        return 0

    @property
    def where(self):
        fn = self.frame.fn
        return "%s:%s in %s" % (fn.file, self.line, fn.label)

    def __repr__(self):
        if self.kind == "ev":
            return "<N%d %s %s @%s fr%d>" % (self.id, self.ev.get("e"), self.ev.get("callee", self.ev.get("op", "")),
                                             self.line, self.frame.id)
        return "<N%d %s b%s fr%d>" % (self.id, self.kind, self.block, self.frame.id)


class Label:
    __slots__ = ("cond", "pol", "case", "frame", "src")

    def __init__(self, cond, pol, case, frame, src):
        self.cond = cond
        self.pol = pol
        self.case = case
        self.frame = frame
        self.src = src


ABSORB_DEFAULT = True


class IG:
    """inlined graph rooted at one function instance"""

    def __init__(self, root, inline=None, max_depth=6, max_nodes=60000, for_once=False, absorb=None):
        # for_once: assume every counted `for` loop whose header evaluates no
        # call runs its body at least once (the header is split into a
        # first-entry copy that can only enter the body)
        self.for_once = for_once
        self.root = root
        self.tu = root.tu
        self.inline = inline or (lambda caller_frame, ev, callee: True)
        # absorb: a non-public member function of the caller's own class that has a single calling function is part of
        # that function (a private helper): it is expanded even when the rule's own predicate would leave it a call, so
        # that extracting a few statements into a private member does not change what a rule sees
        self.absorb = ABSORB_DEFAULT if absorb is None else absorb
        self.max_depth = max_depth
        self.max_nodes = max_nodes
        self.nodes = []
        self.frames = []
        self.truncated = False
        fr = self._frame(root, None, None, {"k": "this"},
                         [{"k": "p", "i": i, "n": p["name"]} for i, p in enumerate(root.params)], 0)
        self.entry, self.exit = self._expand(fr)

    def _private_helper(self, frame, callee):
        """a member function that did not exist when the rules were armed (not in known_functions.json) is a helper somebody
        extracted: it is expanded into its callers whatever the rule's own inlining predicate says, and it is not offered to
        the rules as a function of its own (FactBase.find hides it)"""
        return bool(getattr(callee, "unknown_helper", False))

    # ------------------------------------------------------------ construction
    def _frame(self, fn, parent, call_node, this, args, depth):
        fr = Frame(len(self.frames), fn, parent, call_node, this, args, depth)
        self.frames.append(fr)
        return fr

    def _node(self, kind, frame, ev=None, block=None):
        n = Node(len(self.nodes), kind, frame, ev, block)
        self.nodes.append(n)
        return n

    @staticmethod
    def _link(a, b, label=None):
        a.succ.append((b, label))
        b.pred.append((a, label))

    def _callee_of(self, frame, ev):
        cid = ev.get("cid")
        if cid is None:
            return None
        callee = self.tu.fns.get(cid)
        if callee is None or not callee.has_cfg():
            return None
        if frame.depth + 1 > self.max_depth:
            return None
        f = frame
        while f is not None:
            if f.fn is callee:
                return None
            f = f.parent
        if len(self.nodes) > self.max_nodes:
            self.truncated = True
            return None
        if not self.inline(frame, ev, callee) and not (self.absorb and self._private_helper(frame, callee)):
            return None
        return callee

    def _emit_events(self, frame, bid, b, cur, register=True):
        """append the event nodes of block `bid` after node `cur`; returns the last node"""
        for ev in b["events"]:
            n = self._node("ev", frame, ev, bid)
            if register:
                frame.ev_node[ev["id"]] = n
            self._link(cur, n)
            cur = n
            if ev["e"] in ("call", "ctor", "dtor"):
                callee = self._callee_of(frame, ev)
                if callee is not None:
                    n.inlined = True
                    if ev["e"] == "dtor":
                        this = {"k": "l", "id": ev.get("var"), "n": ev.get("name"), "fr": frame.id} \
                            if "var" in ev else {"k": "obj", "ev": ev["id"], "fr": frame.id}
                    elif ev["e"] == "ctor":
                        this = {"k": "obj", "ev": ev["id"], "fr": frame.id}
                    else:
                        this = self.resolve(ev.get("this"), frame) if "this" in ev else None
                    args = [self.resolve(a, frame) for a in ev.get("args", [])]
                    fr2 = self._frame(callee, frame, n, this, args, frame.depth + 1)
                    if register:
                        frame.children[ev["id"]] = fr2
                    en, ex = self._expand(fr2)
                    self._link(n, en)
                    after = self._node("after", frame, ev, bid)
                    if register:
                        frame.after_node[ev["id"]] = after
                    self._link(ex, after)
                    cur = after
        return cur

    def _expand(self, frame):
        fn = frame.fn
        for bid in fn.blocks:
            frame.block_node[bid] = self._node("blk", frame, block=bid)
        first_entry = {}
        if self.for_once:
            for bid, b in fn.blocks.items():
                if b.get("term") == "ForStmt" and len(b["succ"]) == 2 and not b.get("noreturn"):
                    tsucc = [s for s in b["succ"] if s.get("pol") is True]
                    if len(tsucc) == 1:
                        h = self._node("blk", frame, block=bid)
                        first_entry[bid] = h
                        last = self._emit_events(frame, bid, b, h, register=False)
                        self._link(last, frame.block_node[tsucc[0]["to"]],
                                   Label(b.get("cond"), True, None, frame, last))
        for bid, b in fn.blocks.items():
            cur = self._emit_events(frame, bid, b, frame.block_node[bid])
            if b.get("noreturn"):
                continue
            cond = b.get("cond")
            for s in b["succ"]:
                lab = None
                if "pol" in s or "case" in s:
                    lab = Label(cond, s.get("pol"), s.get("case"), frame, cur)
                tgt = frame.block_node[s["to"]]
                if s["to"] in first_entry and not b.get("loopback"):
                    tgt = first_entry[s["to"]]
                self._link(cur, tgt, lab)
        frame.entry_node = frame.block_node[fn.entry]
        frame.exit_node = frame.block_node[fn.exit]
        return frame.entry_node, frame.exit_node

    # -------------------------------------------------------------- resolution
    def resolve(self, desc, frame):
        """rewrite a descriptor of `frame` in terms of the root function:
        params/this substituted by the caller's operands, locals and event
        references tagged with their frame"""
        if not isinstance(desc, dict):
            return desc
        k = desc.get("k")
        if k == "p":
            i = desc.get("i")
            if frame.parent is not None or frame.call_node is not None:
                if i is not None and i < len(frame.args):
                    return frame.args[i]
                return {"k": "?", "cls": "unbound-param"}
            return desc
        if k == "this":
            if frame.this is not None:
                return frame.this
            return desc
        if k in ("l", "e"):
            if "fr" in desc:
                return desc
            d = dict(desc)
            d["fr"] = frame.id
            return d
        out = None
        for key in ("b", "x", "l", "r", "c", "t", "f", "i"):
            v = desc.get(key)
            if isinstance(v, dict):
                nv = self.resolve(v, frame)
                if nv is not v:
                    if out is None:
                        out = dict(desc)
                    out[key] = nv
        if "xs" in desc:
            nxs = [self.resolve(x, frame) for x in desc["xs"]]
            if out is None:
                out = dict(desc)
            out["xs"] = nxs
        return out if out is not None else desc

    def rarg(self, node, i):
        args = node.ev.get("args", [])
        if i >= len(args):
            return None
        return self.resolve(args[i], node.frame)

    def rthis(self, node):
        if "this" not in node.ev:
            return None
        return self.resolve(node.ev["this"], node.frame)

    # value tracing (flow-insensitive over locals; follows inlined returns)
    def local_defs(self, frame, var):
        """list of (node, rhs desc resolved or None, how) defining local `var` of `frame`"""
        out = []
        for evid, n in frame.ev_node.items():
            ev = n.ev
            if ev["e"] == "decl" and ev.get("var") == var:
                out.append((n, self.resolve(ev.get("init"), frame) if "init" in ev else None, "decl"))
            elif ev["e"] == "asg":
                lhs = strip_cast(ev.get("lhs"))
                if isinstance(lhs, dict) and lhs.get("k") == "l" and lhs.get("id") == var:
                    if ev.get("op") == "=":
                        out.append((n, self.resolve(ev.get("rhs"), frame), "assign"))
                    else:
                        out.append((n, None, "update:" + ev.get("op", "")))
            elif ev["e"] == "call" and ev.get("name") == "operator=" and ev.get("args") and \
                    isinstance(strip_cast(ev.get("this")), dict) and strip_cast(ev["this"]).get("k") == "l" and \
                    strip_cast(ev["this"]).get("id") == var:
                # assignment of a class-type local through its operator=
                out.append((n, self.resolve(ev["args"][0], frame), "assign"))
            elif ev["e"] == "call":
                # by-reference write-back of compare_exchange into its `expected`
                if ev.get("name", "").startswith("compare_exchange") and ev.get("args"):
                    a0 = strip_cast(ev["args"][0])
                    if isinstance(a0, dict) and a0.get("k") == "l" and a0.get("id") == var:
                        out.append((n, {"k": "e", "id": ev["id"], "fr": frame.id, "lab": "cas-observed"}, "cas-writeback"))
        return out

    def origins(self, desc, frame=None, depth=0, seen=None):
        """terminal sources of a (resolved) descriptor: follows casts, locals'
        definitions, conditional arms and the return values of inlined calls"""
        if frame is not None:
            desc = self.resolve(desc, frame)
        if seen is None:
            seen = set()
        out = []
        if not isinstance(desc, dict) or depth > 12:
            return [desc]
        k = desc.get("k")
        if k == "cast":
            return self.origins(desc["x"], None, depth + 1, seen)
        if k == "cond":
            return self.origins(desc["t"], None, depth + 1, seen) + self.origins(desc["f"], None, depth + 1, seen)
        if k == "l" and "fr" in desc:
            key = ("l", desc["fr"], desc["id"])
            if key in seen:
                return []
            seen.add(key)
            fr = self.frames[desc["fr"]]
            defs = self.local_defs(fr, desc["id"])
            if not defs:
                return [desc]
            for n, rhs, how in defs:
                if rhs is None:
                    out.append({"k": "upd", "how": how, "node": n.id, "of": desc})
                else:
                    out.extend(self.origins(rhs, None, depth + 1, seen))
            return out
        if k == "e" and "fr" in desc and not desc.get("lab"):
            fr = self.frames[desc["fr"]]
            child = fr.children.get(desc["id"])
            if child is not None:
                key = ("e", desc["fr"], desc["id"])
                if key in seen:
                    return []
                seen.add(key)
                rets = [n for n in child.ev_node.values() if n.ev["e"] == "ret" and "v" in n.ev]
                if rets:
                    for r in rets:
                        out.extend(self.origins(r.ev["v"], child, depth + 1, seen))
                    return out
            n = fr.ev_node.get(desc["id"])
            if n is not None and n.ev["e"] == "ctor" and n.ev.get("ckind") in ("copy", "move") and \
                    len(n.ev.get("args", [])) == 1:
                # a copy/move construction carries the value of its operand
                return self.origins(n.ev["args"][0], fr, depth + 1, seen)
            return [desc]
        return [desc]

    def param_defs(self, idx):
        """assignments to root parameter #idx inside the root function"""
        out = []
        fr = self.frames[0]
        for n in fr.ev_node.values():
            if n.ev["e"] == "asg" and n.ev.get("op") == "=":
                lhs = strip_cast(n.ev.get("lhs"))
                if isinstance(lhs, dict) and lhs.get("k") == "p" and lhs.get("i") == idx:
                    out.append((n, self.resolve(n.ev.get("rhs"), fr)))
        return out

    def reaching_defs(self, at_node, var, incl=False):
        """definitions of frame-tagged local `var` that reach `at_node` (backward search that stops at definitions);
        incl: the value after `at_node` executed (conditions on its out-edges)"""
        fr = self.frames[var["fr"]]
        defs = dict((n.id, (n, rhs, how)) for n, rhs, how in self.local_defs(fr, var["id"]))
        out = []
        seen = set()
        if not hasattr(self, "_live"):
            self._live = self.reach([self.entry])
        dq = deque([at_node] if incl else [p for p, _ in at_node.pred])
        while dq:
            n = dq.popleft()
            if n.id in seen or n.id not in self._live:
                continue            # dead code (pruned template arm) defines nothing
            seen.add(n.id)
            if n.id in defs:
                out.append(defs[n.id])
                continue
            for p_, _ in n.pred:
                if p_.id not in seen:
                    dq.append(p_)
        return out

    def origins_at(self, desc, at_node, depth=0, incl=False):
        """like origins(), but a local is resolved through the definitions that reach `at_node`
        (flow-sensitive), each definition's right-hand side being evaluated at that definition"""
        desc = self.resolve(desc, at_node.frame)
        if not isinstance(desc, dict) or depth > 10:
            return [desc]
        k = desc.get("k")
        if k == "cast":
            return self.origins_at(desc["x"], at_node, depth + 1, incl)
        if k == "cond":
            return self.origins_at(desc["t"], at_node, depth + 1, incl) + self.origins_at(desc["f"], at_node, depth + 1, incl)
        if k == "l" and "fr" in desc:
            out = []
            rd = self.reaching_defs(at_node, desc, incl)
            if not rd:
                return [desc]
            for n, rhs, how in rd:
                if rhs is None:
                    out.append({"k": "upd", "how": how, "node": n.id, "of": desc})
                elif isinstance(rhs, dict) and rhs.get("lab"):
                    out.append(rhs)
                else:
                    out.extend(self.origins_at(rhs, n, depth + 1))
            return out
        if k == "e" and "fr" in desc and not desc.get("lab"):
            fr = self.frames[desc["fr"]]
            if desc["id"] in fr.children:
                return self.origins(desc)
            n = fr.ev_node.get(desc["id"])
            if n is not None and n.ev["e"] == "ctor" and n.ev.get("ckind") in ("copy", "move") and \
                    len(n.ev.get("args", [])) == 1:
                return self.origins_at(n.ev["args"][0], n, depth + 1)
        return [desc]

    def expand_cond(self, atom, pol):
        """normalise a branch condition: strip negations and look through
        inlined predicate helpers that have a single return expression"""
        for _ in range(8):
            atom, pol = cond_atoms(atom, pol)
            if isinstance(atom, dict) and atom.get("k") == "e" and "fr" in atom and not atom.get("lab"):
                child = self.frames[atom["fr"]].children.get(atom["id"])
                if child is not None:
                    rets = [n for n in child.ev_node.values() if n.ev["e"] == "ret" and "v" in n.ev]
                    if len(rets) == 1:
                        atom = self.resolve(rets[0].ev["v"], child)
                        continue
            if isinstance(atom, dict) and atom.get("k") == "l" and "fr" in atom:
                # a bool local with a single definition
                defs = self.local_defs(self.frames[atom["fr"]], atom["id"])
                if len(defs) == 1 and defs[0][1] is not None:
                    atom = defs[0][1]
                    continue
            break
        return atom, pol

    def ev_of(self, desc):
        """node of an event-reference descriptor"""
        if isinstance(desc, dict) and desc.get("k") == "e" and "fr" in desc:
            return self.frames[desc["fr"]].ev_node.get(desc["id"])
        return None

    def leaves(self, desc, frame=None, depth=0):
        """all terminal sources reachable through arithmetic as well"""
        out = []
        for o in self.origins(desc, frame):
            if isinstance(o, dict) and o.get("k") in ("b", "u", "idx", "init"):
                for key in ("l", "r", "x", "b", "i"):
                    v = o.get(key)
                    if isinstance(v, dict) and depth < 8:
                        out.extend(self.leaves(v, None, depth + 1))
                for v in o.get("xs", []) or []:
                    if depth < 8:
                        out.extend(self.leaves(v, None, depth + 1))
            else:
                out.append(o)
        return out

    # ------------------------------------------------------------------ queries
    def ev_nodes(self, pred=None):
        for n in self.nodes:
            if n.kind == "ev" and (pred is None or pred(n)):
                yield n

    def reach(self, starts, removed=(), removed_edges=(), forward=True, include_starts=True):
        removed = set(x.id if isinstance(x, Node) else x for x in removed)
        removed_edges = set(removed_edges)
        seen = set()
        dq = deque()
        for s in starts:
            if s.id in removed:
                continue
            if include_starts:
                seen.add(s.id)
            dq.append(s)
        first = set(s.id for s in starts)
        while dq:
            n = dq.popleft()
            nxt = n.succ if forward else n.pred
            for m, lab in nxt:
                if m.id in removed or m.id in seen:
                    continue
                e = (n.id, m.id) if forward else (m.id, n.id)
                if e in removed_edges:
                    continue
                seen.add(m.id)
                dq.append(m)
        if not include_starts:
            pass
        return seen

    def live_nodes(self):
        return self.reach([self.entry])

    def dominated_by(self, b, A, removed_edges=()):
        """every path entry -> b passes through a node of A (or a removed edge)"""
        A = set(a.id for a in A)
        if b.id in A:
            return True
        r = self.reach([self.entry], removed=A, removed_edges=removed_edges)
        return b.id not in r

    def postdominated_by(self, b, A, removed_edges=()):
        """every path b -> normal exit passes through a node of A"""
        A = set(a.id for a in A)
        r = self.reach([b], removed=A - {b.id}, removed_edges=removed_edges)
        return self.exit.id not in r

    def path_exists(self, a, b, avoiding=(), removed_edges=(), strict=True):
        av = set(x.id for x in avoiding) - {a.id, b.id}
        if strict:
            starts = [m for m, _ in a.succ if (a.id, m.id) not in set(removed_edges)]
            r = self.reach(starts, removed=av, removed_edges=removed_edges)
        else:
            r = self.reach([a], removed=av, removed_edges=removed_edges)
        return b.id in r

    def edges_where(self, pred):
        """edges (src, dst, label) whose label satisfies pred"""
        for n in self.nodes:
            for m, lab in n.succ:
                if lab is not None and pred(n, m, lab):
                    yield (n, m, lab)

    def witness_path(self, a, b, removed=(), removed_edges=()):
        """a shortest path a -> b as list of nodes (for reports)"""
        removed = set(x.id if isinstance(x, Node) else x for x in removed) - {a.id, b.id}
        removed_edges = set(removed_edges)
        prev = {a.id: None}
        dq = deque([a])
        while dq:
            n = dq.popleft()
            if n.id == b.id and n is not a:
                break
            for m, lab in n.succ:
                if m.id in removed or m.id in prev or (n.id, m.id) in removed_edges:
                    continue
                prev[m.id] = n
                dq.append(m)
        if b.id not in prev:
            return []
        out = []
        cur = b
        while cur is not None:
            out.append(cur)
            cur = prev[cur.id]
        return list(reversed(out))

    def describe_path(self, path, limit=14):
        out = []
        for n in path:
            if n.kind == "ev" and n.ev["e"] in ("call", "asg", "ret", "new", "delete", "ctor", "dtor"):
                ev = n.ev
                what = ev.get("callee") or ev.get("op") or ev["e"]
                if ev["e"] == "asg":
                    what = "%s %s" % (pstr(ev.get("lhs")), ev.get("op"))
                out.append("%s:%s %s" % (n.frame.fn.file.rsplit("/", 1)[-1], n.line, what))
        if len(out) > limit:
            out = out[:limit // 2] + ["..."] + out[-limit // 2:]
        return out

    # K5: count disposition events along all paths (saturating at 2)
    def count_on_paths(self, start, disp_nodes=(), disp_edges=(), stops=None, removed_edges=()):
        """forward dataflow from `start`; returns dict node id -> frozenset of
        counts {0,1,2} of disposition events seen on some path reaching the
        node (value *after* the node)"""
        dn = set(n.id for n in disp_nodes)
        de = set(disp_edges)
        removed_edges = set(removed_edges)
        stops = set(s.id for s in (stops or ()))
        state = {}
        init = 1 if start.id in dn else 0
        state[start.id] = frozenset([init])
        dq = deque([start])
        while dq:
            n = dq.popleft()
            if n.id in stops:
                continue
            cur = state[n.id]
            for m, lab in n.succ:
                if (n.id, m.id) in removed_edges:
                    continue
                add = 0
                if (n.id, m.id) in de:
                    add += 1
                if m.id in dn:
                    add += 1
                new = frozenset(min(2, c + add) for c in cur)
                old = state.get(m.id, frozenset())
                merged = old | new
                if merged != old:
                    state[m.id] = merged
                    dq.append(m)
        return state


def cond_atoms(cond, pol):
    """decompose a branch condition with polarity into (atom, polarity) where
    atom has no leading '!'; e.g. (!x, True) -> (x, False)"""
    c = strip_cast(cond)
    for _ in range(12):
        if isinstance(c, dict) and c.get("k") == "u" and c.get("op") == "!":
            c = strip_cast(c["x"])
            pol = not pol
            continue
        if isinstance(c, dict) and c.get("k") == "b" and c.get("op") in ("||", "&&"):
            # constant operand of a logical operator (ABSL_PREDICT_* expands to `false || (x)` / `true && (x)`)
            neutral = "0" if c["op"] == "||" else "1"
            l, r = strip_cast(c.get("l")), strip_cast(c.get("r"))
            if isinstance(l, dict) and l.get("k") == "c" and str(l.get("v")) == neutral:
                c = r
                continue
            if isinstance(r, dict) and r.get("k") == "c" and str(r.get("v")) == neutral:
                c = l
                continue
        break
    return c, pol
