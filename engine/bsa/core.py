"""Check driver: extraction, obligation bookkeeping, evidence, exit codes."""
import glob
import json
import os
import re
import shutil
import subprocess
import sys
import tempfile
import time
from concurrent.futures import ThreadPoolExecutor

from .facts import FactBase

VERIF = os.path.dirname(os.path.dirname(os.path.dirname(os.path.abspath(__file__))))
REPO = os.environ.get("BSA_REPO", "/repo")
EXTRACT = os.path.join(VERIF, "build", "bsa-extract")
JOBS = int(os.environ.get("BSA_JOBS", "16"))

BASE_FLAGS = ["-std=gnu++20", "-DFMT_SHARED", "-I%s/src" % REPO, "-I%s/drivers" % VERIF,
              "-isystem", "/root/miniconda/include", "-Wno-everything", "-ferror-limit=0"]


class AnalysisBroken(Exception):
    pass


class ExtractionBroken(AnalysisBroken):
    pass


def resource_dir():
    return subprocess.check_output(["clang++", "-print-resource-dir"], text=True).strip()


class Unit:
    def __init__(self, src, ndebug=True, match="", extra=(), optional=False):
        self.src = src
        self.ndebug = ndebug
        self.match = match
        self.extra = list(extra)
        self.optional = optional      # a client unit of the sweep: skipped (with a note) when it cannot be parsed

    @property
    def tag(self):
        base = re.sub(r"[^A-Za-z0-9]+", "_", self.src)[-80:]
        return "%s_%s" % (base, "ndebug" if self.ndebug else "debug")


def driver(name, **kw):
    return Unit(os.path.join(VERIF, "drivers", name), **kw)


def lib(rel, **kw):
    return Unit(os.path.join(REPO, "src", "babylon", rel), **kw)


def test_unit(rel, **kw):
    """a unit of the project's own test suite: only the library templates it instantiates are analysed
    (functions whose body lies under /repo/src), never the test code"""
    return Unit(os.path.join(REPO, "test", rel), optional=True, **kw)


def ensure_extractor():
    if not os.path.exists(EXTRACT):
        raise AnalysisBroken("extractor %s missing: run MANIFEST.setup_cmd (make -C /verif setup)" % EXTRACT)


def extract(units, outdir):
    ensure_extractor()
    rd = resource_dir()
    proto_inc = []
    if any(u.optional for u in units):
        # the test suite includes a header generated from test/proto (the real build generates it into its build directory)
        pd = os.path.join(outdir, "proto")
        os.makedirs(pd, exist_ok=True)
        srcs = glob.glob(os.path.join(REPO, "test", "proto", "*.proto"))
        if srcs and shutil.which("protoc"):
            r = subprocess.run(["protoc", "--cpp_out=" + pd, "--proto_path=" + os.path.join(REPO, "test", "proto")] + srcs,
                               stdout=subprocess.PIPE, stderr=subprocess.PIPE)
            if r.returncode == 0:
                proto_inc = ["-I" + pd]

    def one(u):
        out = os.path.join(outdir, u.tag + ".json")
        flags = list(BASE_FLAGS) + (["-DNDEBUG"] if u.ndebug else ["-UNDEBUG"]) + u.extra + (proto_inc if u.optional else [])
        cmd = [EXTRACT, "-o", out, "--root", os.path.join(REPO, "src"), "--root", os.path.join(VERIF, "drivers"),
               "--root", os.path.join(VERIF, "witness")]
        if u.match:
            cmd += ["--match", u.match]
        cmd += [u.src, "--"] + flags + ["-resource-dir", rd]
        if not os.path.exists(u.src):
            if u.optional:
                return None
            raise AnalysisBroken("source unit vanished: %s" % u.src)
        p = subprocess.run(cmd, stdout=subprocess.PIPE, stderr=subprocess.PIPE, text=True)
        if (p.returncode != 0 or not os.path.exists(out)) and u.optional:
            return None
        if p.returncode != 0 or not os.path.exists(out):
            errs = "\n".join(l for l in p.stderr.splitlines() if "error" in l)[:3000]
            raise ExtractionBroken("extraction failed for %s (the unit no longer compiles with clang):\n%s" % (u.src, errs))
        return out

    with ThreadPoolExecutor(max_workers=JOBS) as ex:
        outs = list(ex.map(one, units))
    for u, o in zip(units, outs):
        u.skipped = o is None
    return [o for o in outs if o is not None]


class Ctx:
    """collects obligations of one property check"""

    def __init__(self, prop, tier):
        self.prop = prop
        self.tier = tier
        self.obligations = []     # dicts
        self.violations = []
        self.notes = []
        self.floors = []
        self.unmet = []
        self.fb = None
        self.units = []
        self.t0 = time.time()
        self.extra_cov = {}
        self.assumptions = []

    # an obligation instance
    def ob(self, rule, instance, ok, where="", msg="", detail=None, site=None):
        rec = {"rule": rule, "instance": instance, "ok": bool(ok), "where": where}
        if not ok:
            rec["msg"] = msg
            if detail is not None:
                rec["detail"] = detail
            rec["site"] = site or instance
            self.violations.append(rec)
        self.obligations.append(rec)
        return ok

    def note(self, msg):
        self.notes.append(msg)

    def floor(self, rule, count, minimum, what):
        self.floors.append({"rule": rule, "count": count, "min": minimum, "what": what})
        if count < minimum:
            # deferred: a real violation found elsewhere takes precedence (an edit that deletes a
            # call site both breaks a rule and shrinks another rule's instance count); with no
            # violation the unmet floor makes the run analysis-broken, never a pass
            self.unmet.append("%s: rule matched %d %s, fewer than the floor %d confirmed by reading "
                              "(anchor vanished or renamed)" % (rule, count, what, minimum))

    def broken(self, msg):
        raise AnalysisBroken(msg)

    def named(self, rule, found, name, rec_re=None):
        """discriminates a vanished name from an unused one. `found`: the events a rule located through the function
        name `name`. Returns True when found. When nothing was found: if no function called `name` (in a record
        matching rec_re) exists any more, the anchor was renamed or removed - the rule cannot decide (deferred exit 2)
        and None is returned; if the function still exists but is not used at this site, False is returned and the rule
        reports its violation (a dropped call is the regression the rule is there for)."""
        if found:
            return True
        rx = re.compile(rec_re) if rec_re else None
        for fn in self.fb.all_fns():
            if fn.name == name and (rx is None or rx.search(fn.record or "") or rx.search(fn.qname or "")):
                return False
        for rname, rec in self.fb.records().items():
            if rx is not None and not rx.search(rname):
                continue
            for m in rec.get("methods", []):
                if (m.get("name") if isinstance(m, dict) else m) == name:
                    return False
        self.unmet.append("%s: the function '%s'%s no longer exists (renamed or removed): the rule anchored on it cannot decide" % (
            rule, name, (" of %s" % rec_re) if rec_re else ""))
        return None


def load_known():
    p = os.path.join(VERIF, "known_findings.json")
    if not os.path.exists(p):
        return []
    with open(p) as f:
        return json.load(f).get("findings", [])


def match_known(prop, v, known):
    for k in known:
        if k.get("property") != prop or k.get("status") != "known":
            continue
        if k.get("rule") and k["rule"] != v["rule"]:
            continue
        if k.get("site_re") and not re.search(k["site_re"], v.get("site", "")):
            continue
        return k
    return None


def write_evidence(ctx, status, explanation, samples_n=6):
    if os.environ.get("BSA_NO_EVIDENCE"):
        return
    os.makedirs(os.path.join(VERIF, "evidence"), exist_ok=True)
    by_rule = {}
    for o in ctx.obligations:
        r = by_rule.setdefault(o["rule"], {"instances": 0, "ok": 0})
        r["instances"] += 1
        r["ok"] += 1 if o["ok"] else 0
    distinct = len(set((o["rule"], o["instance"]) for o in ctx.obligations))
    samples = []
    seen_rules = set()
    for o in ctx.obligations:
        if o["rule"] in seen_rules and len(samples) >= samples_n:
            continue
        if o["rule"] in seen_rules and sum(1 for s in samples if s["rule"] == o["rule"]) >= 2:
            continue
        seen_rules.add(o["rule"])
        samples.append({"rule": o["rule"], "instance": o["instance"], "where": o["where"], "ok": o["ok"]})
    cov = {
        "explanation": explanation,
        "obligations": len(ctx.obligations),
        "discharged": sum(1 for o in ctx.obligations if o["ok"]),
        "evaluations": len(ctx.obligations),
        "distinct_nontrivial": distinct,
        "rule": "one evaluation = one (rule, function-instance/site) obligation whose pattern matched at least one "
                "event in the extracted CFG facts; rules that match nothing abort the check (exit 2) instead of being counted",
        "per_rule": by_rule,
        "floors": ctx.floors,
        "translation_units": [u.src + ("" if u.ndebug else " [-UNDEBUG]") for u in ctx.units if not getattr(u, "skipped", False)],
        "functions_extracted": sum(len(tu.fns) for tu in ctx.fb.tus) if ctx.fb else 0,
        "samples": samples,
        "notes": ctx.notes[:40],
        "status": status,
        "exhaustive": False,
    }
    cov.update(ctx.extra_cov)
    ev = {
        "property_id": ctx.prop,
        "tier": ctx.tier,
        "seed": int(os.environ.get("VERIF_SEED", "0") or 0),
        "level": "other",
        "coverage": cov,
        "assumptions": ctx.assumptions + [
            "clang 14 AST/CFG of the host (x86-64, little endian) preprocessor branch is the program analysed",
            "callbacks passed by clients and virtual calls are opaque",
            "structural clauses only: the behavioural statement of the property is not decided (DESIGN.md section 1)",
        ],
        "wall_s": round(time.time() - ctx.t0, 2),
        "violations": sum(1 for v in ctx.violations if not v.get("known")),
    }
    kf = sorted(set("%s %s" % (v["rule"], v["site"]) for v in ctx.violations if v.get("known")))
    if kf:
        cov["known_findings_reported"] = kf
    with open(os.path.join(VERIF, "evidence", "%s.json" % ctx.prop), "w") as f:
        json.dump(ev, f, indent=1)


def finish(ctx, prop, module):
    known = load_known()
    new = []
    printed = set()
    for v in ctx.violations:
        k = match_known(prop, v, known)
        if k is not None:
            v["known"] = True
            if (id(k), v["site"]) not in printed:
                printed.add((id(k), v["site"]))
                print("KNOWN-FINDING: property=%s %s [%s %s]" % (prop, k.get("what", ""), v["rule"], v["site"]))
        else:
            new.append(v)
    for n in ctx.notes:
        print("NOTE: %s" % n)
    ok_n = sum(1 for o in ctx.obligations if o["ok"])
    print("%s: %d obligations evaluated, %d hold, %d violated (%d known)" %
          (prop, len(ctx.obligations), ok_n, len(ctx.violations), len(ctx.violations) - len(new)))
    write_evidence(ctx, "ok" if not new else "violations", getattr(module, "EXPLANATION", ""))
    if new:
        os.makedirs(os.path.join(VERIF, "reports"), exist_ok=True)
        rp = os.path.join(VERIF, "reports", "%s%s.json" % (prop, "-scratch" if os.environ.get("BSA_NO_EVIDENCE") else ""))
        with open(rp, "w") as f:
            json.dump({"property": prop, "violations": new}, f, indent=1)
        for v in new[:25]:
            print("  %s %s: %s\n      at %s" % (v["rule"], v["instance"], v["msg"], v["where"]))
            if v.get("detail"):
                d = v["detail"]
                if isinstance(d, list):
                    for l in d[:16]:
                        print("        | %s" % l)
                else:
                    print("        | %s" % d)
        print("VIOLATION property=%s replay=%s" % (prop, rp))
        return 1
    return 0


# named exceptions of the generic special-member rule: (record regex, field, reason)
GENERIC_SKIP = [
    (r"^babylon::ReusableVector<", "_allocator",
     "swap is only defined for equal allocators (asserted); the allocator is deliberately not exchanged"),
]


def anchor_files(prop):
    for l in open(os.path.join(VERIF, "properties.jsonl")):
        p = json.loads(l)
        if p["id"] == prop:
            return set(os.path.join(REPO, f) for f in p["anchors"]["files"])
    return set()


def fn_base_name(fn):
    rec = re.sub(r"<.*", "", fn.record or fn.qname.rsplit("::", 1)[0])
    return "%s::%s" % (rec, fn.name)


def mark_unknown_helpers(ctx):
    """functions defined in the property's anchor files that are not in the committed baseline (known_functions.json: the
    functions that existed when the rules were armed) are treated as extracted helpers: expanded into their callers and
    hidden from the rules' function enumeration, so that moving a few statements into a new member function does not
    change what the rules see. The generic rule G2 still looks at them."""
    p = os.path.join(VERIF, "known_functions.json")
    if not os.path.exists(p):
        return
    with open(p) as f:
        known = set(json.load(f).get(ctx.prop, []))
    if not known:
        return
    files = anchor_files(ctx.prop)
    new = set()
    for fn in ctx.fb.all_fns():
        if fn.file in files and not fn.lambda_ and fn.has_cfg() and fn.kind in ("method", "function") and fn_base_name(fn) not in known:
            fn.unknown_helper = True
            new.add(fn_base_name(fn))
    if new:
        ctx.note("member function(s) not in the baseline were expanded into their callers and not analysed as functions of "
                 "their own: %s" % ", ".join(sorted(new)))


def check_anchor_names(ctx, module, present_only=False):
    """ANCHORS of a rule module: {function name: record regex} for every function the rules locate *by name*.
    A name that no longer exists in its class was renamed or removed: the rules anchored on it cannot decide
    (exit 2) - they must not report the absence of the old name as a violation. (A function that still exists but
    is no longer called where a rule expects it is a different matter: that is the regression, and it is reported.)
    The table is validated by tools/rename_sweep.py, which renames every member function of the anchor files in
    turn and requires exit 0 or 2."""
    anchors = getattr(module, "ANCHORS", None)
    if not anchors:
        return
    have = {}
    for fn in ctx.fb.all_fns():
        have.setdefault(fn.name, []).extend([fn.record or "", (fn.qname or "").rsplit("::", 1)[0]])
    for rname, rec in ctx.fb.records().items():
        for m in rec.get("methods", []):
            nm = m.get("name") if isinstance(m, dict) else m
            have.setdefault(nm, []).append(rname)
        for f in rec.get("fields", []):
            have.setdefault(f.get("name"), []).append(rname)     # data members are anchors too
    gone = []
    all_recs = set(ctx.fb.records().keys()) | set(fn.record or "" for fn in ctx.fb.all_fns())
    for name, rec_res in sorted(anchors.items()):
        if not isinstance(rec_res, (list, tuple)):
            rec_res = [rec_res]
        for rec_re in rec_res:
            rx = re.compile(rec_re) if rec_re else None
            if present_only and rx is not None and not any(rx.search(r_) for r_ in all_recs):
                continue        # the class is not part of these facts at all (dependent mode: the upper component does not use it)
            if not any(rx is None or rx.search(w) for w in have.get(name, [])):
                gone.append("%s (of %s)" % (name, rec_re or "any class"))
    if gone:
        raise AnalysisBroken("function(s) or data member(s) the rules are anchored on no longer exist (renamed or removed), cannot decide: %s" % ", ".join(gone))


def generic_rules(ctx, module):
    """two rules armed for every property over the records / functions defined in its anchor files:
    G1 a user-provided move constructor / move assignment / swap transfers every data member and data-carrying base
    (K9c; found F3), G2 no value-returning function can run off its end (found F4)"""
    from . import lib as L
    if getattr(module, "NO_GENERIC", False):
        return
    files = anchor_files(ctx.prop)
    if not files:
        return
    L.check_special_members(ctx, "%s.G1" % ctx.prop, ctx.fb, r"^babylon::", files=files, skip=GENERIC_SKIP)
    seen = set()
    for fn in ctx.fb.all_fns():
        if not (fn.has_cfg() and fn.file in files and not fn.lambda_):
            continue
        k = (fn.qname, fn.file, fn.line)
        if k in seen:
            continue
        seen.add(k)
        if fn.kind in ("move_ctor", "move_assign"):
            _moved_then_swapped(ctx, fn)
        if fn.d.get("rtype", "void") in ("void", "") or fn.kind in ("ctor", "dtor", "move_ctor", "copy_ctor"):
            continue
        ctx.ob("%s.G2" % ctx.prop, L.short(fn)[:110], not L.falls_off_end(fn), fn.loc,
               "a function with a result can reach its end without a return statement (undefined behaviour: the caller "
               "continues with garbage or never returns)", site="%s@falls-off-end" % fn.qname)


def _sig_params(sig):
    """parameter types of a '(T1, T2<...>, ...)' signature string, split at top-level commas"""
    sig = (sig or "").strip()
    if sig.startswith("(") and sig.endswith(")"):
        sig = sig[1:-1]
    out, depth, cur = [], 0, ""
    for ch in sig:
        if ch in "<([":
            depth += 1
        elif ch in ">)]":
            depth -= 1
        if ch == "," and depth == 0:
            out.append(cur.strip())
            cur = ""
        else:
            cur += ch
    if cur.strip():
        out.append(cur.strip())
    return out


def _moved_then_swapped(ctx, fn):
    """G3: a move member that finishes by swapping complete states with its source must not first move a member out of
    the source: swap then hands the moved-from shell to the destination and the real value back to the source"""
    from . import lib as L
    from .graph import IG
    from .facts import strip_cast, walk
    ig = IG(fn, inline=lambda a, b, c: False)
    live = ig.live_nodes()

    def is_src(d):
        d = strip_cast(d)
        return isinstance(d, dict) and d.get("k") == "p" and d.get("i") == 0
    swaps = [n for n in ig.ev_nodes() if n.id in live and n.ev["e"] == "call" and n.ev.get("name") == "swap" and
             any(is_src(a) for a in n.ev.get("args", []))]
    if not swaps:
        return
    for sw in swaps:
        callee = ig.tu.fns.get(sw.ev.get("cid"))
        touched = None
        if callee is not None and callee.has_cfg():
            touched = set()
            for _, ev in callee.all_events():
                for part in list(ev.get("args", []) or []) + [ev.get(k) for k in ("this", "lhs", "rhs", "v")]:
                    for sd in walk(part):
                        if isinstance(sd, dict) and sd.get("k") == "f" and sd.get("n"):
                            touched.add(sd["n"])
        bad = None
        for n in ig.ev_nodes():
            if n.id not in live or n is sw or n.ev["e"] not in ("ctor", "call") or not ig.path_exists(n, sw, strict=False):
                continue
            ptypes = _sig_params(n.ev.get("sig"))
            for i, a in enumerate(n.ev.get("args", [])):
                a = strip_cast(a)
                if isinstance(a, dict) and a.get("k") == "f" and is_src(a.get("b")) and i < len(ptypes) and ptypes[i].endswith("&&") and \
                        (touched is None or a.get("n") in touched):
                    bad = (n, a.get("n"))
        ctx.ob("%s.G3" % ctx.prop, L.short(fn)[:110], bad is None, fn.loc,
               "member %s of the source is moved out at line %s and swap(source) afterwards exchanges it again: the destination "
               "keeps the moved-from shell, the source gets the value back" % (bad[1] if bad else "", bad[0].line if bad else ""),
               site="%s@moved-then-swapped" % fn.qname)


# ---------------------------------------------------------------- dependent clauses (pattern (b) of DESIGN section 6)
class _DependentSkip(Exception):
    pass


class _SubCtx(Ctx):
    """the context a lower component's rules run in when they are re-evaluated for an upper component: floors are
    recorded but never unmet (the lower component's own check guards them), 'cannot decide' skips the lower module
    instead of breaking the upper check"""

    def floor(self, rule, count, minimum, what):
        self.floors.append({"rule": rule, "count": count, "min": minimum, "what": what})

    def broken(self, msg):
        raise _DependentSkip(msg)


def _reachable_view(fb, root_files, stop_files=()):
    """a view of the fact base restricted to what the component defined in `root_files` can execute: the functions of
    those files, everything they call (resolved callees, transitively) and the lambdas defined inside any of these"""
    import copy
    view = copy.copy(fb)
    view.tus = []
    total = 0
    for tu in fb.tus:
        keep = set(fid for fid, fn in tu.fns.items() if fn.file in root_files)
        by_q = {}
        for fn in tu.fns.values():
            if fn.lambda_ and fn.outer:
                by_q.setdefault(fn.outer, []).append(fn.id)
        work = list(keep)
        while work:
            fn = tu.fns[work.pop()]
            nxt = [ev.get("cid") for _, ev in fn.all_events() if ev.get("cid") is not None]
            nxt += by_q.get(fn.qname, [])
            for c in nxt:
                if c in tu.fns and c not in keep:
                    keep.add(c)
                    work.append(c)
        t2 = copy.copy(tu)
        t2.fns = dict((fid, fn) for fid, fn in tu.fns.items() if fid in keep)
        total += len(t2.fns)
        view.tus.append(t2)
    return view, total


def dependent_rules(ctx, module):
    """DEPENDS = {lower property: reason}: the component this property is about is built on lower components whose own
    clauses are necessary for it too (an execution queue strands an item when the bounded queue under it loses one). The
    lower property's rules are re-evaluated here on *this* property's facts, restricted to the function instances that the
    component's own code (functions defined in its anchor files that are not anchor files of the lower property) can reach
    through resolved calls - i.e. on the instantiations it really uses - and reported under this property's id as
    '<this>.D:<lower rule>'. Floors and 'cannot decide' of the lower rules are the lower check's business and ignored here."""
    deps = getattr(module, "DEPENDS", None)
    if not deps:
        return
    import importlib
    import traceback
    own = anchor_files(ctx.prop)
    summary = {}
    for dep, why in sorted(deps.items()):
        dmod = importlib.import_module(dep)
        scope = "reached"
        if isinstance(why, (tuple, list)):
            why, scope = why[0], why[1]
        roots = own - anchor_files(dep)
        if scope == "all":
            # the lower component's object is shared with this component's clients (readers lock the collector's Epoch,
            # a thread-local id is returned by a destructor no call reaches): every instance present in these facts counts
            view, nf = ctx.fb, sum(len(tu.fns) for tu in ctx.fb.tus)
        else:
            view, nf = _reachable_view(ctx.fb, roots)
        sub = _SubCtx(dep, ctx.tier)
        sub.fb = view
        sub.units = ctx.units
        status = "evaluated"
        try:
            mark_unknown_helpers(sub)
            dmod.run(sub)
            if sub.violations:
                # a renamed anchor of the lower rules is "cannot decide" there and a skip here, never a violation of this
                # property. Template members that this component does not instantiate are invisible in its facts, so the
                # anchor table is validated against the lower property's own units - only when something is about to be reported
                d2 = tempfile.mkdtemp(prefix="bsa-dep-", dir="/dev/shm" if os.path.isdir("/dev/shm") else None)
                try:
                    full = _SubCtx(dep, ctx.tier)
                    full.fb = FactBase(extract(dmod.units("quick"), d2))
                    check_anchor_names(full, dmod)
                finally:
                    shutil.rmtree(d2, ignore_errors=True)
        except _DependentSkip as e:
            status = "stopped: %s" % str(e)[:160]
        except AnalysisBroken as e:
            status = "stopped: %s" % str(e)[:160]
        except Exception as e:     # a rule that meets a shape it was not written for decides nothing
            status = "stopped: %s: %s" % (type(e).__name__, str(e)[:120])
            if os.environ.get("BSA_DEBUG"):
                traceback.print_exc()
        if status != "evaluated" and sub.violations:
            sub.obligations = [o for o in sub.obligations if o["ok"]]      # an analysis that stopped decides nothing
        n = 0
        for o in sub.obligations:
            o = dict(o)
            o["rule"] = "%s.D:%s" % (ctx.prop, o["rule"])
            ctx.obligations.append(o)
            if not o["ok"]:
                o["msg"] = "[clause of %s on the instantiation %s uses: %s] %s" % (dep, ctx.prop, why, o.get("msg", ""))
                ctx.violations.append(o)
            n += 1
        summary[dep] = {"scope": scope, "functions_reachable": nf, "obligations": n, "status": status, "why": why}
        if status != "evaluated":
            ctx.note("dependent rules of %s: %s (after %d obligations)" % (dep, status, n))
    ctx.extra_cov["dependent_clauses"] = summary


def run_property(prop, module, tier):
    """returns exit code"""
    ctx = Ctx(prop, tier)
    scratch_base = "/dev/shm" if os.path.isdir("/dev/shm") else None
    scratch = tempfile.mkdtemp(prefix="bsa-%s-" % prop, dir=scratch_base)
    try:
        try:
            units = module.units(tier)
            if tier == "thorough" and not getattr(module, "NO_DEBUG_PASS", False):
                # the assert-enabled configuration of every unit (debug builds are part of several quantifiers)
                units = units + [Unit(u.src, False, u.match, u.extra) for u in units
                                 if u.ndebug and not any(v.src == u.src and not v.ndebug for v in units)]
            if tier == "thorough":
                # client sweep: the instantiations the project's own tests use
                units = units + [test_unit(t) for t in getattr(module, "SWEEP", [])]
            ctx.units = units
            paths = extract(units, scratch)
            sk = [u.src for u in units if getattr(u, "skipped", False)]
            if sk:
                ctx.note("sweep units skipped (not parseable standalone, e.g. need generated protobuf headers): %s" % ", ".join(sk))
            ctx.fb = FactBase(paths)
            for tu in list(ctx.fb.tus):
                if tu.errors and os.path.join(REPO, "test") in str(tu.name):
                    ctx.fb.tus.remove(tu)
                    ctx.note("sweep unit dropped (compile errors under clang): %s" % tu.name)
                elif tu.errors:
                    raise AnalysisBroken("unit %s has compile errors under clang" % tu.name)
            check_anchor_names(ctx, module)
            mark_unknown_helpers(ctx)
            module.run(ctx)
            generic_rules(ctx, module)
            dependent_rules(ctx, module)
            if hasattr(module, "extra") and tier == "thorough":
                module.extra(ctx)
            if not ctx.obligations:
                raise AnalysisBroken("no obligation was evaluated")
            known = load_known()
            new = [v for v in ctx.violations if match_known(prop, v, known) is None]
            if ctx.unmet and not new:
                raise AnalysisBroken("; ".join(ctx.unmet))
            if tier == "thorough" and getattr(module, "IRX", True) and not os.environ.get("BSA_NO_IRX"):
                # independent derivation of the memory orders from the compiler's lowering
                from . import irx
                irx.crosscheck(ctx, scratch)
            if tier == "thorough" and not new and "BSA_REPO" not in os.environ and not os.environ.get("BSA_NO_CORPUS"):
                # the rules are tested both ways against the current tree on every thorough run
                from . import selftest
                res = selftest.corpus(prop)
                ctx.extra_cov["corpus_selftest"] = res
                print("corpus: %d/%d mutants reported, %d/%d behaviour-preserving edits silent%s" % (
                    res["mutants_caught"], res["mutants"] - len(res["mutants_not_applicable"]),
                    res["benign_silent"], res["benign"] - len(res["benign_not_applicable"]),
                    (" (%d patches no longer apply to this tree)" % (len(res["mutants_not_applicable"]) + len(res["benign_not_applicable"])))
                    if res["mutants_not_applicable"] or res["benign_not_applicable"] else ""))
                if res["mutants_not_caught"] or res["benign_alarmed"]:
                    raise AnalysisBroken("the rules no longer separate the corpus on this tree: not reported %s; alarmed on benign %s" % (
                        res["mutants_not_caught"], res["benign_alarmed"]))
        except AnalysisBroken as e:
            if [v for v in ctx.violations if match_known(prop, v, load_known()) is None] and not isinstance(e, ExtractionBroken):
                # concrete violations were already established before the analysis lost an anchor:
                # they stand on their own (each names its construct); report them
                ctx.note("analysis stopped early: %s" % e)
                return finish(ctx, prop, module)
            print("ANALYSIS-BROKEN property=%s %s" % (prop, e))
            try:
                write_evidence(ctx, "analysis-broken: %s" % e, getattr(module, "EXPLANATION", ""))
            except Exception:
                pass
            return 2
        return finish(ctx, prop, module)
    finally:
        shutil.rmtree(scratch, ignore_errors=True)
