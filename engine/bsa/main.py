"""usage: check <Cxx> [--tier quick|thorough] [--replay report.json]"""
import argparse
import importlib
import os
import sys

HERE = os.path.dirname(os.path.abspath(__file__))
sys.path.insert(0, os.path.dirname(HERE))
sys.path.insert(0, os.path.join(os.path.dirname(os.path.dirname(HERE)), "rules"))

from bsa import core  # noqa: E402


def main():
    ap = argparse.ArgumentParser()
    ap.add_argument("prop")
    ap.add_argument("--tier", default=os.environ.get("VERIF_TIER", "quick"))
    ap.add_argument("--replay", default=None)
    a = ap.parse_args()
    tier = a.tier if a.tier in ("quick", "thorough") else "quick"
    try:
        mod = importlib.import_module(a.prop)
    except ImportError as e:
        print("ANALYSIS-BROKEN property=%s no rule module: %s" % (a.prop, e))
        return 2
    return core.run_property(a.prop, mod, tier)


if __name__ == "__main__":
    sys.exit(main())
