"""usage: check <Cxx> [--tier quick|thorough] [--replay report.json]"""
import argparse
import importlib
import os
import sys

HERE = os.path.dirname(os.path.abspath(__file__))
sys.path.insert(0, os.path.dirname(HERE))
sys.path.insert(0, os.path.join(os.path.dirname(os.path.dirname(HERE)), "rules"))

from bsa import core  # noqa: E402


def main():
    ap = argparse.ArgumentParser()
    ap.add_argument("prop")
    ap.add_argument("--tier", default=os.environ.get("VERIF_TIER", "quick"))
    ap.add_argument("--replay", default=None)
    a = ap.parse_args()
    tier = a.tier if a.tier in ("quick", "thorough") else "quick"
    try:
        mod = importlib.import_module(a.prop)
    except ImportError as e:
        print("ANALYSIS-BROKEN property=%s no rule module: %s" % (a.prop, e))
        return 2
    wanted = None
    if a.replay:
        # deterministic analysis: a replay re-evaluates the property on the current tree and says which of the
        # reported (rule, site) pairs recur
        import json
        try:
            with open(a.replay) as f:
                wanted = set((v["rule"], v.get("site", v.get("instance"))) for v in json.load(f).get("violations", []))
        except Exception as e:
            print("ANALYSIS-BROKEN property=%s cannot read replay file %s: %s" % (a.prop, a.replay, e))
            return 2
    rc = core.run_property(a.prop, mod, tier)
    if wanted is not None:
        import json
        now = set()
        rp = os.path.join(core.VERIF, "reports", "%s%s.json" % (a.prop, "-scratch" if os.environ.get("BSA_NO_EVIDENCE") else ""))
        if rc == 1 and os.path.exists(rp):
            with open(rp) as f:
                now = set((v["rule"], v.get("site", v.get("instance"))) for v in json.load(f).get("violations", []))
        print("replay: %d of %d reported violation(s) recur on the current tree" % (len(wanted & now), len(wanted)))
        for r_, s_ in sorted(wanted & now)[:20]:
            print("  recurs: %s %s" % (r_, s_))
    return rc


if __name__ == "__main__":
    sys.exit(main())
