"""Fact base: loads the per-TU JSON written by bsa-extract."""
import json
import re


class Fn:
    __slots__ = ("tu", "d", "id", "qname", "name", "targs", "sig", "file", "line",
                 "record", "kind", "params", "blocks", "entry", "exit", "vars",
                 "events", "ev_block", "key", "lambda_", "outer", "_shape", "variant", "unknown_helper", "_live")

    def __init__(self, tu, d):
        self.tu = tu
        self.d = d
        self.id = d["id"]
        self.qname = d["qname"]
        self.name = d["name"]
        self.targs = d.get("targs", "")
        self.sig = d.get("sig", "")
        self.file = d.get("file", "")
        self.line = d.get("line", 0)
        self.record = d.get("record", "")
        self.kind = d.get("kind", "function")
        self.params = d.get("params", [])
        self.entry = d.get("entry")
        self.exit = d.get("exit")
        self.vars = d.get("vars", {})
        self.lambda_ = d.get("lambda", False)
        self.outer = d.get("outer", "")
        self.blocks = {}
        self.events = {}
        self.ev_block = {}
        for bid, b in d.get("blocks", {}).items():
            bid = int(bid)
            self.blocks[bid] = b
            for ev in b["events"]:
                self.events[ev["id"]] = ev
                self.ev_block[ev["id"]] = bid
        self.key = "%s<%s>%s" % (self.qname, self.targs, self.sig)
        self._shape = None
        self.variant = ""
        self.unknown_helper = False
        self._live = None

    @property
    def shape(self):
        """digest of the body: the same function extracted from two configurations (NDEBUG / assert-enabled)
        is one instance when the bodies agree and two when they differ"""
        if self._shape is None:
            import hashlib
            self._shape = hashlib.md5(json.dumps(self.d.get("blocks", {}), sort_keys=True).encode()).hexdigest()
        return self._shape

    @property
    def label(self):
        t = self.targs
        if len(t) > 90:
            t = t[:87] + "..."
        return ("%s<%s>" % (self.qname, t) if t else self.qname) + self.variant

    @property
    def loc(self):
        return "%s:%s" % (self.file, self.line)

    def has_cfg(self):
        return bool(self.blocks)

    def live_blocks(self):
        """blocks reachable from the entry along the extractor's reachable successor edges: the dead arm of a plain
        `if (BOOL_TEMPLATE_PARAM)` keeps its blocks in the CFG but is not part of this instance (seed C14-5)"""
        if self._live is None:
            seen = set()
            if self.entry in self.blocks:
                seen.add(self.entry)
                st = [self.entry]
                while st:
                    for s in self.blocks[st.pop()].get("succ", []):
                        t = s["to"] if isinstance(s, dict) else s
                        if t in self.blocks and t not in seen:
                            seen.add(t)
                            st.append(t)
            else:
                seen = set(self.blocks)
            self._live = seen
        return self._live

    def all_events(self, dead=False):
        live = None if dead else self.live_blocks()
        for bid in self.blocks:
            if live is not None and bid not in live:
                continue
            for ev in self.blocks[bid]["events"]:
                yield bid, ev


class TU:
    def __init__(self, path):
        with open(path) as f:
            d = json.load(f)
        self.path = path
        self.debug = path.endswith("_debug.json")
        self.name = d.get("tu", path)
        self.errors = d.get("errors", False)
        self.fns = {}
        for fd in d["functions"]:
            fn = Fn(self, fd)
            self.fns[fn.id] = fn
        self.records = d.get("records", {})

    def find(self, qname_re=None, name=None, pred=None):
        rx = re.compile(qname_re) if qname_re else None
        out = []
        for fn in self.fns.values():
            if name is not None and fn.name != name:
                continue
            if rx is not None and not rx.search(fn.qname):
                continue
            if pred is not None and not pred(fn):
                continue
            out.append(fn)
        return out


class FactBase:
    def __init__(self, paths):
        self.tus = [TU(p) for p in paths]

    def all_fns(self):
        for tu in self.tus:
            for fn in tu.fns.values():
                yield fn

    def find(self, qname_re=None, name=None, pred=None, dedup=True, hidden=False):
        seen = {}
        out = []
        for tu in self.tus:
            for fn in tu.find(qname_re, name, pred):
                if fn.unknown_helper and not hidden:
                    continue        # an extracted helper lives inside its callers (core.mark_unknown_helpers)
                if dedup:
                    shapes = seen.setdefault(fn.key, set())
                    if shapes and (not tu.debug or fn.shape in shapes):
                        continue
                    if shapes and tu.debug:
                        fn.variant = " [assert-enabled]"
                    shapes.add(fn.shape)
                out.append(fn)
        return out

    def records(self):
        out = {}
        for tu in self.tus:
            for k, v in tu.records.items():
                if k not in out:
                    out[k] = dict(v)
                    out[k]["consts"] = dict(v.get("consts", {}))
                else:
                    # a static constexpr member is only evaluated in units that use it
                    for ck, cv in v.get("consts", {}).items():
                        out[k]["consts"].setdefault(ck, cv)
        return out


# ---------------------------------------------------------------- descriptors
def walk(desc):
    """yield every sub-descriptor (pre-order)"""
    if not isinstance(desc, dict):
        return
    yield desc
    for k in ("b", "x", "l", "r", "c", "t", "f", "i"):
        v = desc.get(k)
        if isinstance(v, dict):
            for s in walk(v):
                yield s
    for v in desc.get("xs", []) or []:
        for s in walk(v):
            yield s


def strip_cast(desc):
    while isinstance(desc, dict) and desc.get("k") == "cast":
        desc = desc["x"]
    return desc


def is_const(desc, val=None):
    desc = strip_cast(desc)
    if not isinstance(desc, dict) or desc.get("k") != "c":
        return False
    return val is None or str(desc.get("v")) == str(val)


def const_val(desc):
    desc = strip_cast(desc)
    if isinstance(desc, dict) and desc.get("k") == "c":
        try:
            return int(desc["v"])
        except (ValueError, TypeError):
            return desc["v"]
    return None


def pstr(desc):
    """canonical printable access path of a descriptor"""
    if not isinstance(desc, dict):
        return "?"
    k = desc.get("k")
    if k == "c":
        return str(desc.get("v"))
    if k == "p":
        return "param#%s:%s" % (desc.get("i"), desc.get("n"))
    if k == "l":
        fr = desc.get("fr")
        return "%s%s" % (desc.get("n"), "" if fr in (None, 0) else "@%s" % fr)
    if k == "cap":
        return "cap:%s" % desc.get("n")
    if k == "this":
        return "this"
    if k == "f":
        return "%s%s%s" % (pstr(desc.get("b")), "->" if desc.get("arrow") else ".", desc.get("n"))
    if k == "e":
        lab = desc.get("lab")
        return "e%s%s" % (desc.get("id"), "(%s)" % lab if lab else "")
    if k == "u":
        return "%s(%s)" % (desc.get("op"), pstr(desc.get("x")))
    if k == "b":
        return "(%s %s %s)" % (pstr(desc.get("l")), desc.get("op"), pstr(desc.get("r")))
    if k == "cast":
        return pstr(desc.get("x"))
    if k == "idx":
        return "%s[*]" % pstr(desc.get("b"))
    if k == "cond":
        return "(%s ? %s : %s)" % (pstr(desc.get("c")), pstr(desc.get("t")), pstr(desc.get("f")))
    if k == "g" or k == "fn":
        return str(desc.get("n"))
    if k == "lam":
        return "lambda@%s" % desc.get("line")
    if k == "init":
        return "{%s}" % ",".join(pstr(x) for x in desc.get("xs", []))
    if k == "bind":
        return "bind:%s" % desc.get("n")
    return "?%s" % desc.get("cls", k)
