"""IR cross-check of memory orders (thorough tier).

The rule engine reads memory orders from the AST (constant-evaluated arguments, defaults, implicit conversions). This
module derives the same facts a second, independent way - from the compiler's own lowering: every unit is compiled to
LLVM IR (`clang++ -O1 -gline-tables-only -S -emit-llvm`, same flags as the extraction), libstdc++'s always-inline atomic
members collapse into `load atomic / store atomic / atomicrmw / cmpxchg / fence` instructions with a definite ordering,
and the `inlinedAt` chain of each instruction's debug location leads back to the babylon source line that wrote the
operation. For every babylon source line that carries an atomic operation in both views the (kind, ordering) sets must
agree. A disagreement means the extractor mis-resolved an order (or a default) somewhere: the run is ANALYSIS-BROKEN,
never a verdict on the property. Operations whose order is a function parameter at that line are compared by kind only."""
import os
import re
import subprocess
from concurrent.futures import ThreadPoolExecutor

from . import atomics as A
from .core import BASE_FLAGS, REPO, VERIF, JOBS, AnalysisBroken
from .graph import IG

ORD = {"unordered": 0, "monotonic": 0, "acquire": 2, "release": 3, "acq_rel": 4, "seq_cst": 5}
_LOC = re.compile(r"^!(\d+) = (?:distinct )?!DILocation\(line: (\d+)(?:, column: \d+)?, scope: !(\d+)(?:, inlinedAt: !(\d+))?")
_SCOPE = re.compile(r"^!(\d+) = (?:distinct )?!DI(?:Subprogram|LexicalBlock|LexicalBlockFile|Namespace)\((.*)\)\s*$")
_FILE = re.compile(r"^!(\d+) = !DIFile\(filename: \"([^\"]*)\", directory: \"([^\"]*)\"")
_INSTR = re.compile(r"^\s*(?:%[\w.]+ = )?(load atomic|store atomic|atomicrmw|cmpxchg|fence)\b(.*)$")


def compile_ir(u, outdir):
    out = os.path.join(outdir, u.tag + ".ll")
    flags = [f for f in BASE_FLAGS if f != "-ferror-limit=0"] + (["-DNDEBUG"] if u.ndebug else ["-UNDEBUG"]) + u.extra
    cmd = ["clang++"] + flags + ["-O1", "-gline-tables-only", "-S", "-emit-llvm", u.src, "-o", out]
    p = subprocess.run(cmd, stdout=subprocess.PIPE, stderr=subprocess.PIPE, text=True)
    if p.returncode != 0 or not os.path.exists(out):
        return None
    return out


def parse_ir(path, roots):
    """{(file, line): set((kind, order, fail_order))} for atomic instructions whose innermost frame lies in libstdc++'s
    <atomic> implementation and whose calling frame is a babylon / driver source line"""
    locs, scopes, files, instrs = {}, {}, {}, []
    with open(path, errors="replace") as f:
        for line in f:
            if line.startswith("!"):
                m = _LOC.match(line)
                if m:
                    locs[m.group(1)] = (int(m.group(2)), m.group(3), m.group(4))
                    continue
                m = _FILE.match(line)
                if m:
                    fn, d = m.group(2), m.group(3)
                    files[m.group(1)] = fn if os.path.isabs(fn) else os.path.normpath(os.path.join(d, fn))
                    continue
                m = _SCOPE.match(line)
                if m:
                    body = m.group(2)
                    fm = re.search(r"\bfile: !(\d+)", body)
                    sm = re.search(r"\bscope: !(\d+)", body)
                    scopes[m.group(1)] = (fm.group(1) if fm else None, sm.group(1) if sm else None)
                continue
            m = _INSTR.match(line)
            if m:
                dm = re.search(r"!dbg !(\d+)", line)
                if dm:
                    instrs.append((m.group(1), m.group(2), dm.group(1)))

    def file_of(scope):
        seen = 0
        while scope is not None and seen < 50:
            seen += 1
            fs = scopes.get(scope)
            if fs is None:
                return None
            if fs[0] is not None:
                return files.get(fs[0])
            scope = fs[1]
        return None

    out = {}
    for kind, rest, dbg in instrs:
        # walk the inlinedAt chain outwards: frames inside the <atomic> implementation, then the babylon line
        chain = []
        cur = dbg
        n = 0
        while cur is not None and cur in locs and n < 60:
            n += 1
            line, scope, inl = locs[cur]
            chain.append((file_of(scope), line))
            cur = inl
        site = None
        for i, (fl, ln) in enumerate(chain):
            if fl is None:
                break
            if any(fl.startswith(r) for r in roots):
                # everything inside must be the standard library's atomic implementation
                if all(c[0] is not None and re.search(r"/(bits/atomic_base\.h|atomic|bits/atomic_wait\.h)$", c[0]) for c in chain[:i]):
                    site = (fl, ln)
                break
            if not re.search(r"/(bits/atomic_base\.h|atomic|bits/atomic_wait\.h)$", fl):
                break
        if site is None:
            continue
        words = re.findall(r"\b(unordered|monotonic|acquire|release|acq_rel|seq_cst)\b", rest)
        if kind == "cmpxchg":
            if len(words) < 2:
                continue
            rec = ("cas", ORD[words[-2]], ORD[words[-1]])
        elif kind == "fence":
            if not words:
                continue
            rec = ("fence", ORD[words[-1]], None)
        else:
            if not words:
                continue
            rec = ({"load atomic": "load", "store atomic": "store", "atomicrmw": "rmw"}[kind], ORD[words[-1]], None)
        out.setdefault(site, set()).add(rec)
    return out


def ast_sites(fb):
    """{(file, line): (set of (kind, order, fail) with constant orders, set of kinds whose order is a parameter)}"""
    out = {}
    for fn in fb.find(pred=lambda f: f.has_cfg(), dedup=True):
        ig = IG(fn, inline=lambda a, b, c: False)
        live = ig.live_nodes()
        for a in A.atomic_ops(ig, live):
            key = (fn.file, a.node.line)
            const, par = out.setdefault(key, (set(), set()))
            if a.unresolved or a.order is None:
                par.add(a.op)
            else:
                o = 0 if a.order == 1 else a.order           # consume is lowered as acquire or monotonic; compare loosely
                fo = a.fail_order if a.op == "cas" else None
                const.add((a.op, o, fo))
    return out


def crosscheck(ctx, scratch):
    roots = [os.path.join(REPO, "src"), os.path.join(VERIF, "drivers")]
    units = [u for u in ctx.units if not getattr(u, "skipped", False) and not u.optional and u.ndebug]
    with ThreadPoolExecutor(max_workers=JOBS) as ex:
        lls = list(ex.map(lambda u: compile_ir(u, scratch), units))
    ir = {}
    n_units = 0
    for ll in lls:
        if ll is None:
            continue
        n_units += 1
        for k, v in parse_ir(ll, roots).items():
            ir.setdefault(k, set()).update(v)
        os.remove(ll)
    ast = ast_sites(ctx.fb)
    both = agree = 0
    disagree = []
    for key, (const, par) in sorted(ast.items()):
        if key not in ir or not const:
            continue
        both += 1
        got = ir[key]
        missing = []
        for (k, o, fo) in const:
            # acquire loads of a consume request, and failure orders the compiler may strengthen, compare by >=
            cand = [g for g in got if g[0] == k]
            if k == "cas":
                ok = any(g[1] == o and (fo is None or g[2] == fo) for g in cand)
            else:
                ok = any(g[1] == o for g in cand)
            if not ok and cand:
                missing.append(((k, o, fo), sorted(cand)))
        extra = [g for g in got if not any(g[0] == c[0] for c in const) and g[0] not in par]
        if missing:
            disagree.append("%s:%d AST %s vs IR %s" % (key[0], key[1],
                            [(m[0][0], A.ORDER_NAME.get(m[0][1]), A.ORDER_NAME.get(m[0][2])) for m in missing],
                            [(g[0], A.ORDER_NAME.get(g[1]), A.ORDER_NAME.get(g[2])) for m in missing for g in m[1]]))
        else:
            agree += 1
        del extra
    ctx.extra_cov["ir_crosscheck"] = {
        "units_compiled_to_ir": n_units, "ast_lines_with_atomic_ops": sum(1 for v in ast.values() if v[0]),
        "ir_lines_with_atomic_ops": len(ir), "lines_in_both_views": both, "agree": agree, "disagree": disagree[:20],
        "method": "clang++ -O1 -gline-tables-only -S -emit-llvm; atomic instructions mapped to the babylon source line through "
                  "the inlinedAt chain of their debug location; (kind, ordering) compared with the extractor's classification",
    }
    print("IR cross-check: %d source lines with atomic operations seen in both views, %d agree" % (both, agree))
    if disagree:
        raise AnalysisBroken("memory orders resolved from the AST disagree with the compiler's lowering at: %s" % "; ".join(disagree[:6]))
    if both == 0 and any(v[0] for v in ast.values()):
        raise AnalysisBroken("IR cross-check found no common source line (debug locations could not be mapped)")
