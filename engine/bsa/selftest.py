"""Thorough-tier self-test of a property's rules: the negative corpus (mutants/<Cxx>/*.patch, each must be
reported) and the benign corpus (mutants/benign/<Cxx>/*.patch, behaviour-preserving edits, each must stay silent),
applied to scratch copies of the current /repo/src."""
import glob
import os
import shutil
import subprocess
import tempfile
from concurrent.futures import ThreadPoolExecutor

from .core import VERIF, REPO


def _label(patch, prop=None):
    d = os.path.basename(os.path.dirname(patch))
    return os.path.basename(patch) if d == prop else "%s/%s" % (d, os.path.basename(patch))


def _one(prop, patch, benign):
    base = "/dev/shm" if os.path.isdir("/dev/shm") else None
    d = tempfile.mkdtemp(prefix="bsa-mut-", dir=base)
    try:
        shutil.copytree(os.path.join(REPO, "src"), os.path.join(d, "src"))
        r = subprocess.run(["patch", "-p1", "-s", "-d", d, "-i", patch], stdout=subprocess.PIPE, stderr=subprocess.STDOUT, text=True)
        if r.returncode != 0:
            return (_label(patch, prop), "not-applicable", [])
        env = dict(os.environ, BSA_REPO=d, BSA_NO_EVIDENCE="1", BSA_JOBS="4")
        r = subprocess.run([os.path.join(VERIF, "check"), prop], stdout=subprocess.PIPE, stderr=subprocess.STDOUT, text=True, env=env)
        rules = sorted(set(l.split()[0] for l in r.stdout.splitlines() if l.startswith("  " + prop + ".")))
        if benign:
            st = {0: "silent", 1: "false-alarm", 2: "analysis-broken"}.get(r.returncode, "rc=%d" % r.returncode)
        else:
            st = {0: "missed", 1: "caught", 2: "analysis-broken"}.get(r.returncode, "rc=%d" % r.returncode)
        return (_label(patch, prop), st, rules)
    finally:
        shutil.rmtree(d, ignore_errors=True)


def corpus(prop, parallel=5):
    neg = sorted(glob.glob(os.path.join(VERIF, "mutants", prop, "*.patch")))
    ben = sorted(glob.glob(os.path.join(VERIF, "mutants", "benign", prop, "*.patch")))
    # the behaviour-preserving edits of the lower components whose clauses are re-evaluated here (DEPENDS) must stay silent too
    try:
        import importlib
        for dep in sorted(getattr(importlib.import_module(prop), "DEPENDS", {}) or {}):
            ben += sorted(glob.glob(os.path.join(VERIF, "mutants", "benign", dep, "*.patch")))
    except ImportError:
        pass
    with ThreadPoolExecutor(max_workers=parallel) as ex:
        rn = list(ex.map(lambda p: _one(prop, p, False), neg))
        rb = list(ex.map(lambda p: _one(prop, p, True), ben))
    out = {
        "mutants": len(rn),
        "mutants_caught": sum(1 for _, s, _ in rn if s == "caught"),
        "mutants_not_applicable": [n for n, s, _ in rn if s == "not-applicable"],
        "mutants_not_caught": ["%s (%s)" % (n, s) for n, s, _ in rn if s not in ("caught", "not-applicable")],
        "caught_by": dict((n, r) for n, s, r in rn if s == "caught"),
        "benign": len(rb),
        "benign_silent": sum(1 for _, s, _ in rb if s == "silent"),
        "benign_not_applicable": [n for n, s, _ in rb if s == "not-applicable"],
        "benign_alarmed": ["%s (%s: %s)" % (n, s, " ".join(r)) for n, s, r in rb if s not in ("silent", "not-applicable")],
    }
    return out
