"""Helpers shared by the per-property rule modules."""
import re

from .facts import strip_cast, const_val, pstr, walk
from .graph import IG, cond_atoms
from . import atomics as A


def deep_find(ig, desc, pred, depth=0, seen=None, through_args=False):
    """search a resolved descriptor - following locals' definitions, the return
    values of inlined calls and the object operand of opaque calls - for a
    sub-descriptor satisfying pred (every intermediate descriptor is offered to pred)"""
    if seen is None:
        seen = set()
    if not isinstance(desc, dict) or depth > 16:
        return None
    if pred(desc):
        return desc
    k = desc.get("k")
    if k == "p" and "i" in desc:
        key = ("p", desc["i"])
        if key in seen:
            return None
        seen.add(key)
        for n, rhs in ig.param_defs(desc["i"]):
            r = deep_find(ig, rhs, pred, depth + 1, seen, through_args)
            if r is not None:
                return r
        return None
    if k == "l" and "fr" in desc:
        key = ("l", desc["fr"], desc.get("id"))
        if key in seen:
            return None
        seen.add(key)
        for n, rhs, how in ig.local_defs(ig.frames[desc["fr"]], desc["id"]):
            if rhs is not None:
                r = deep_find(ig, rhs, pred, depth + 1, seen, through_args)
                if r is not None:
                    return r
        return None
    if k == "e" and "fr" in desc and not desc.get("lab"):
        key = ("e", desc["fr"], desc.get("id"))
        if key in seen:
            return None
        seen.add(key)
        fr = ig.frames[desc["fr"]]
        child = fr.children.get(desc["id"])
        if child is not None:
            for n in child.ev_node.values():
                if n.ev["e"] == "ret" and "v" in n.ev:
                    r = deep_find(ig, ig.resolve(n.ev["v"], child), pred, depth + 1, seen, through_args)
                    if r is not None:
                        return r
            return None
        n = ig.ev_of(desc)
        if n is not None:
            ops = []
            th = ig.rthis(n)
            if th is not None:
                ops.append(th)
            if n.ev["e"] == "asg" and "lhs" in n.ev:
                ops.append(ig.resolve(n.ev["lhs"], n.frame))   # value of ++x / x = y is x
            if through_args:
                ops.extend(ig.resolve(a, n.frame) for a in n.ev.get("args", []))
            for x in ops:
                r = deep_find(ig, x, pred, depth + 1, seen, through_args)
                if r is not None:
                    return r
        return None
    for key in ("b", "x", "l", "r", "t", "f", "i", "c"):
        v = desc.get(key)
        if isinstance(v, dict):
            r = deep_find(ig, v, pred, depth + 1, seen, through_args)
            if r is not None:
                return r
    for v in desc.get("xs", []) or []:
        r = deep_find(ig, v, pred, depth + 1, seen, through_args)
        if r is not None:
            return r
    return None


def field_pred(name=None, rec_re=None, type_re=None):
    rx = re.compile(rec_re) if rec_re else None
    tx = re.compile(type_re) if type_re else None

    def p(d):
        if d.get("k") != "f":
            return False
        if name is not None and d.get("n") != name:
            return False
        if rx is not None and not rx.search(d.get("rec", "") or ""):
            return False
        if tx is not None and not tx.search(d.get("t", "") or ""):
            return False
        return True
    return p


def is_param_invoke(node, root_only_frame=None):
    """call through a callable that is a parameter of the function the event
    lives in (operator() on a param, or call through a function-pointer param)"""
    ev = node.ev
    if ev["e"] != "call":
        return False
    if ev.get("name") == "operator()":
        th = strip_cast(ev.get("this"))
        if isinstance(th, dict) and th.get("k") == "p":
            return True
    fn = ev.get("fn")
    if fn is not None:
        f = strip_cast(fn)
        while isinstance(f, dict) and f.get("k") == "u":
            f = strip_cast(f.get("x"))
        if isinstance(f, dict) and f.get("k") == "p":
            return True
    return False


def fn_has_param_invoke(fn):
    class _N:
        pass
    for _, ev in fn.all_events():
        n = _N()
        n.ev = ev
        if is_param_invoke(n):
            return True
    return False


def call_nodes(ig, name=None, callee_re=None, live=None):
    rx = re.compile(callee_re) if callee_re else None
    if live is None:
        live = ig.live_nodes()      # the dead arm of `if (TEMPLATE_FLAG)` is not part of the instance (seed C14-5)
    for n in ig.ev_nodes():
        if n.id not in live:
            continue
        ev = n.ev
        if ev["e"] not in ("call", "ctor"):
            continue
        if name is not None and ev.get("name") != name:
            continue
        if rx is not None and not rx.search(ev.get("callee", "") or ""):
            continue
        yield n


def fn_calls(fn, name=None, callee_re=None):
    rx = re.compile(callee_re) if callee_re else None
    for bid, ev in fn.all_events():
        if ev["e"] not in ("call", "ctor"):
            continue
        if name is not None and ev.get("name") != name:
            continue
        if rx is not None and not rx.search(ev.get("callee", "") or ""):
            continue
        yield ev


def cond_edges(ig, pred, live=None):
    """edges whose (negation-normalised) condition atom + polarity satisfy
    pred(atom_resolved, polarity, label)"""
    out = []
    for n in ig.nodes:
        if live is not None and n.id not in live:
            continue
        for m, lab in n.succ:
            if lab is None or lab.cond is None or lab.pol is None:
                continue
            atom, pol = ig.expand_cond(ig.resolve(lab.cond, lab.frame), lab.pol)
            if pred(atom, pol, lab):
                out.append((n.id, m.id))
    return out


def result_edges(ig, node_ids, polarity, live=None):
    """edges taken when the boolean result of one of the given event nodes is `polarity`"""
    def pred(atom, pol, lab):
        if pol != polarity:
            return False
        for o in ig.origins(atom):
            n = ig.ev_of(o)
            if n is not None and n.id in node_ids and not o.get("lab"):
                return True
        return False
    return cond_edges(ig, pred, live)


def derefs_of(ig, node, var):
    """does the event at `node` dereference local pointer `var` (frame-tagged 'l' descriptor)?"""
    ev = node.ev
    fr = node.frame

    def is_var(d):
        d = strip_cast(d)
        return isinstance(d, dict) and d.get("k") == "l" and d.get("id") == var["id"] and fr.id == var["fr"]

    def scan(d):
        if not isinstance(d, dict):
            return False
        for sd in walk(d):
            if sd.get("k") == "f" and sd.get("arrow") and is_var(sd.get("b")):
                return True
            if sd.get("k") == "u" and sd.get("op") == "*" and is_var(sd.get("x")):
                return True
            if sd.get("k") == "idx" and is_var(sd.get("b")):
                return True
        return False
    for key in ("this", "lhs", "rhs", "init", "v", "x", "fn"):
        if key in ev:
            if key == "x" and ev["e"] == "delete":
                continue
            if scan(ev[key]):
                return True
    if ev["e"] == "call" and "this" in ev and is_var(ev["this"]) and not ev.get("static"):
        return True
    for a in ev.get("args", []):
        if scan(a):
            return True
    return False


def defines_var(ig, node, var):
    ev = node.ev
    if node.frame.id != var["fr"]:
        return False
    if ev["e"] == "decl" and ev.get("var") == var["id"]:
        return True
    if ev["e"] == "asg":
        lhs = strip_cast(ev.get("lhs"))
        return isinstance(lhs, dict) and lhs.get("k") == "l" and lhs.get("id") == var["id"]
    if ev["e"] == "call" and ev.get("name") == "operator=":
        th = strip_cast(ev.get("this"))
        return isinstance(th, dict) and th.get("k") == "l" and th.get("id") == var["id"]
    return False


def use_after_release(ig, release_node, var):
    """K12: first node on some path after `release_node` that dereferences `var`
    before `var` is re-defined; None if there is none"""
    from collections import deque
    seen = set()
    dq = deque(m for m, _ in release_node.succ)
    while dq:
        n = dq.popleft()
        if n.id in seen:
            continue
        seen.add(n.id)
        if n.kind == "ev":
            if derefs_of(ig, n, var):
                return n
            if defines_var(ig, n, var):
                continue
        for m, _ in n.succ:
            if m.id not in seen:
                dq.append(m)
    return None


def bool_atom(atom, pol):
    """normalise `x == false`, `x != true`, `true == x` ... to (x, polarity); other atoms are returned unchanged"""
    from .graph import cond_atoms
    for _ in range(4):
        atom, pol = cond_atoms(atom, pol)
        a = strip_cast(atom)
        if isinstance(a, dict) and a.get("k") == "b" and a.get("op") in ("==", "!="):
            l, r = strip_cast(a.get("l")), strip_cast(a.get("r"))
            for x, c in ((l, r), (r, l)):
                if isinstance(c, dict) and c.get("k") == "c" and str(c.get("v")) in ("0", "1", "true", "false"):
                    cv = str(c.get("v")) in ("1", "true")
                    same = (a["op"] == "==") == cv
                    atom, pol = x, (pol if same else not pol)
                    break
            else:
                return atom, pol
            continue
        return atom, pol
    return atom, pol


def sticky_flags(lig, llive, edges, result_ids=()):
    """captured bool variables of a callback (root of lig) that carry an outcome across its invocations: every write is
    `true` at a node that only the given outcome edges lead to, or the boolean result of one of the events result_ids"""
    no_outcome = lig.reach([lig.entry], removed_edges=edges)
    writes = {}
    for n in lig.ev_nodes():
        if n.id in llive and n.ev["e"] == "asg" and isinstance(strip_cast(n.ev.get("lhs")), dict) and strip_cast(n.ev["lhs"]).get("k") == "cap":
            rhs = strip_cast(lig.resolve(n.ev.get("rhs"), n.frame)) if n.ev.get("rhs") is not None else None
            r_ = lig.ev_of(rhs) if isinstance(rhs, dict) and rhs.get("k") == "e" else None
            good = (r_ is not None and r_.id in result_ids) or (const_val(rhs) == 1 and n.ev.get("op") == "=" and n.id not in no_outcome)
            writes.setdefault(strip_cast(n.ev["lhs"]).get("n"), []).append(good)
    return set(k for k, v in writes.items() if all(v))


def flag_edges(ig, flags, polarity, kinds=("cap",)):
    """edges taken when one of the named flag variables has the given truth value"""
    out = []
    for n in ig.nodes:
        for m, lab in n.succ:
            if lab is None or lab.cond is None or lab.pol is None:
                continue
            atom, pol = bool_atom(ig.resolve(lab.cond, lab.frame), lab.pol)
            atom = strip_cast(atom)
            if isinstance(atom, dict) and atom.get("k") in kinds and atom.get("n") in flags and pol is polarity:
                out.append((n.id, m.id))
    return out


def reach_across_invocations(lig, starts, removed_edges):
    """nodes reachable from `starts` in this invocation of a callback and, when the invocation can end, in the next one
    (an enumerator that calls its callback once per block) - never through removed_edges"""
    r = set(lig.reach(starts, removed_edges=removed_edges))
    if lig.exit.id in r:
        r |= set(lig.reach([lig.entry], removed_edges=removed_edges))
    return r


def cmp_parts(atom):
    """(op, lhs, rhs) of a comparison atom, also through overloaded operators"""
    a = strip_cast(atom)
    if isinstance(a, dict) and a.get("k") == "b" and a.get("op") in ("==", "!=", "<", "<=", ">", ">="):
        return a["op"], a["l"], a["r"]
    return None


NEG = {"==": "!=", "!=": "==", "<": ">=", ">=": "<", ">": "<=", "<=": ">"}
SWAP = {"==": "==", "!=": "!=", "<": ">", ">": "<", "<=": ">=", ">=": "<="}


def effective_cmp(atom, pol):
    """comparison that holds on this edge: (op, lhs, rhs) or None"""
    c = cmp_parts(atom)
    if c is None:
        return None
    op, l, r = c
    if not pol:
        op = NEG[op]
    if const_val(l) is not None and const_val(r) is None:
        # `0 == x`, `nullptr != p`: constants are put on the right so a re-spelled comparison keeps its verdict
        op, l, r = SWAP[op], r, l
    a = strip_cast(atom)
    if isinstance(a, dict) and a.get("unsigned"):
        # on unsigned operands x <= 0 is x == 0, x > 0 is x != 0, x < 1 is x == 0, x >= 1 is x != 0
        rv = const_val(r)
        if rv == 0 and op in ("<=", ">"):
            op = {"<=": "==", ">": "!="}[op]
        elif rv == 1 and op in ("<", ">="):
            op = {"<": "==", ">=": "!="}[op]
            r = {"k": "c", "v": "0"}
    return op, l, r


def tparam(fn, name):
    names = fn.d.get("tparams")
    vals = fn.d.get("targl")
    if not names or not vals:
        return None
    for n, v in zip(names, vals):
        if n == name:
            return v
    return None


def short(fn):
    return fn.label.replace("babylon::", "")


def where(node):
    return node.where


def linear(ig, desc, frame, depth=0):
    """linear normal form of an integer expression: ({atom: coefficient}, constant). Locals with a single declaration
    whose initialiser is itself linear are expanded; anything else (a load, a masked expression, a parameter) is an atom"""
    d = strip_cast(ig.resolve(desc, frame)) if frame is not None else strip_cast(desc)
    cv = const_val(d)
    if isinstance(cv, int):
        return {}, cv
    if isinstance(d, dict) and d.get("k") == "b" and d.get("op") in ("+", "-") and depth < 8:
        la, lc = linear(ig, d.get("l"), None, depth + 1)
        ra, rc = linear(ig, d.get("r"), None, depth + 1)
        sgn = 1 if d["op"] == "+" else -1
        out = dict(la)
        for k_, v_ in ra.items():
            out[k_] = out.get(k_, 0) + sgn * v_
        return dict((k_, v_) for k_, v_ in out.items() if v_ != 0), lc + sgn * rc
    if isinstance(d, dict) and d.get("k") == "l" and "fr" in d and depth < 8:
        defs = ig.local_defs(ig.frames[d["fr"]], d["id"])
        if len(defs) == 1 and defs[0][2] == "decl" and defs[0][1] is not None:
            rhs = strip_cast(defs[0][1])
            if isinstance(rhs, dict) and (rhs.get("k") == "b" and rhs.get("op") in ("+", "-") or rhs.get("k") in ("l", "c")):
                return linear(ig, rhs, None, depth + 1)
        return {"l%s.%s" % (d["fr"], d["id"]): 1}, 0
    return {pstr(d): 1}, 0


def lin_eq(a, b):
    return a[0] == b[0] and a[1] == b[1]


def lin_add(a, b, sign=1):
    out = dict(a[0])
    for k_, v_ in b[0].items():
        out[k_] = out.get(k_, 0) + sign * v_
    return dict((k_, v_) for k_, v_ in out.items() if v_ != 0), a[1] + sign * b[1]


def owners_of(fb, fn, depth=0):
    """the functions a call site inside `fn` is attributed to: fn itself, or - when fn is an extracted helper hidden from the
    rules (core.mark_unknown_helpers) - the functions that call it"""
    if not getattr(fn, "unknown_helper", False) or depth > 4:
        return [fn]
    out = []
    for g in fn.tu.fns.values():
        if any(e.get("cid") == fn.id for _, e in g.all_events()):
            out.extend(owners_of(fb, g, depth + 1))
    return out or [fn]


def callers(fb, callee_re):
    """[(function, call event)] for every call of a function matching callee_re; call sites inside extracted helpers are
    attributed to the helpers' callers"""
    rx = re.compile(callee_re)
    out = []
    for fn in fb.find(pred=lambda f: f.has_cfg(), hidden=True):
        for bid, ev in fn.all_events():
            if ev["e"] in ("call", "ctor") and rx.search(ev.get("callee", "") or ""):
                for o in owners_of(fb, fn):
                    out.append((o, ev))
    return out


def relinked_on_retry(ig, live, cas_node, links):
    """Treiber-style push: the stores in `links` (node->next = <expected head>) must precede the CAS on every path
    from entry and again on every path from the CAS's own failure edge back to it - a failed CAS refreshes the
    expected value, and a retry that keeps the old link unlinks everything pushed in between"""
    if not links or not ig.dominated_by(cas_node, links):
        return False
    for (s_, d_) in result_edges(ig, set([cas_node.id]), False, live):
        if cas_node.id in ig.reach([ig.nodes[d_]], removed=links):
            return False
    return True


def redefined_between(ig, var, a, b):
    """a definition of local `var` that can execute after node a and before node b
    (on a path that does not re-execute a); None if the value b sees is the one a saw"""
    fr = ig.frames[var["fr"]]
    for n, rhs, how in ig.local_defs(fr, var["id"]):
        if n.id in (a.id, b.id):
            continue
        if ig.path_exists(a, n, avoiding=[a, b]) and ig.path_exists(n, b, avoiding=[a]):
            return n
    return None


# ------------------------------------------------------------------ K8 queue pairing
_QUEUE_OP = re.compile(r"^babylon::ConcurrentBoundedQueue<.*>::(try_)?(push|pop)(_n)?(_exclusively_until)?$")


def queue_sites(fb, owner_re):
    """call sites of ConcurrentBoundedQueue push/pop families on a queue that is a field of a
    record matching owner_re; returns list of dicts(fn, ev, side, blocking, flags, field)"""
    orx = re.compile(owner_re)
    out = []
    for fn in fb.find(pred=lambda f: f.has_cfg(), hidden=True):
        for bid, ev in fn.all_events():
            if ev["e"] != "call":
                continue
            m = _QUEUE_OP.match(ev.get("callee", "") or "")
            if not m:
                continue
            th = strip_cast(ev.get("this"))
            field = None
            d = th
            # queue object: a field (possibly through .local() of a thread-local holder)
            hops = 0
            while isinstance(d, dict) and hops < 6:
                if d.get("k") == "f":
                    if orx.search(d.get("rec", "") or ""):
                        field = "%s::%s" % ((d.get("rec") or "").replace("babylon::", ""), d.get("n"))
                        break
                    d = d.get("b")
                elif d.get("k") == "e":
                    ce = fn.events.get(d["id"])
                    d = ce.get("this") if ce else None
                elif d.get("k") in ("u", "cast"):
                    d = d.get("x")
                elif d.get("k") == "l":
                    # reference local: follow its initialiser
                    init = None
                    for _, e2 in fn.all_events():
                        if e2["e"] == "decl" and e2.get("var") == d.get("id"):
                            init = e2.get("init")
                    d = init
                else:
                    break
                hops += 1
            if field is None and fn.lambda_ and "outer_fid" in fn.d:
                # a queue reached through the parameters of a lambda that is handed to a sweep over a
                # thread-local holder field (`_queues.for_each([&](Q* iter, Q* end) {...})`)
                root = th
                hops2 = 0
                while isinstance(root, dict) and root.get("k") != "p" and hops2 < 8:
                    if root.get("k") == "l":
                        init = None
                        for _, e2 in fn.all_events():
                            if e2["e"] == "decl" and e2.get("var") == root.get("id"):
                                init = e2.get("init")
                        root = strip_cast(init)
                    elif root.get("k") == "e":
                        ce = fn.events.get(root["id"])
                        if ce and ce.get("e") == "asg":
                            root = strip_cast(ce.get("lhs"))
                        else:
                            root = strip_cast(ce.get("this") if ce and "this" in ce else (ce["args"][0] if ce and ce.get("args") else None))
                    elif root.get("k") in ("u", "cast", "f", "idx"):
                        root = strip_cast(root.get("x") or root.get("b"))
                    else:
                        break
                    hops2 += 1
                outer = fn.tu.fns.get(fn.d["outer_fid"])
                if isinstance(root, dict) and root.get("k") == "p" and outer is not None:
                    for _, oe in outer.all_events():
                        if oe["e"] != "call":
                            continue
                        passes = False
                        for a in oe.get("args", []):
                            a = strip_cast(a)
                            if isinstance(a, dict) and a.get("k") == "lam" and a.get("fid") == fn.id:
                                passes = True
                            if isinstance(a, dict) and a.get("k") == "e":
                                ce2 = outer.events.get(a["id"])
                                if ce2 and any(isinstance(strip_cast(x), dict) and strip_cast(x).get("k") == "lam" and
                                               strip_cast(x).get("fid") == fn.id for x in ce2.get("args", [])):
                                    passes = True
                        oth = strip_cast(oe.get("this"))
                        if passes and isinstance(oth, dict) and oth.get("k") == "f" and orx.search(oth.get("rec", "") or ""):
                            field = "%s::%s" % ((oth.get("rec") or "").replace("babylon::", ""), oth.get("n"))
            if field is None:
                continue
            targs = [t.strip() for t in (ev.get("targs", "") or "").split(",")]
            bools = []
            for t in targs:
                if t in ("true", "false"):
                    bools.append(t == "true")
                else:
                    break
            side = "push" if "push" in m.group(2) else "pop"
            is_try = bool(m.group(1))
            site = {"fn": fn, "ev": ev, "side": side, "try": is_try, "field": field, "name": ev.get("name"),
                    "line": ev.get("line")}
            if is_try:
                if m.group(4):       # try_pop_n_exclusively_until<USE_FUTEX_WAKE>
                    site.update(concurrent=False, wait=True, wake=bools[0] if bools else None)
                else:                # try_*<CONCURRENT, USE_FUTEX_WAKE>
                    site.update(concurrent=bools[0] if len(bools) > 0 else True, wait=False,
                                wake=bools[1] if len(bools) > 1 else True)
            else:
                if len(bools) >= 3:
                    site.update(concurrent=bools[0], wait=bools[1], wake=bools[2])
                elif len(ev.get("args", [])) == 3:   # compensating push_n/pop_n(cb, rcb, n): spins, never wakes
                    site.update(concurrent=True, wait=False, wake=False)
                else:                # defaulted flags
                    site.update(concurrent=True, wait=True, wake=True)
            out.append(site)
    return out


def check_queue_pairing(ctx, rule, sites, single_consumer_ok=None, single_producer_ok=None, mode_of=None):
    """documented pairing precondition: a side that sleeps on the futex must be woken by the other side.
    mode_of(site) may name a run-time mode (sites of different named modes never meet on one queue object;
    None = reachable in every mode)"""
    by_field = {}
    modes = {}
    for s in sites:
        m = mode_of(s) if mode_of is not None else None
        s["mode"] = m
        if m is not None:
            modes.setdefault(s["field"], set()).add(m)
    for s in sites:
        ms = [s["mode"]] if s["mode"] is not None else (sorted(modes.get(s["field"], [])) or [None])
        for m in ms:
            key = s["field"] if m is None else "%s[%s]" % (s["field"], m)
            by_field.setdefault(key, []).append(s)
    for field, ss in sorted(by_field.items()):
        pushes = [s for s in ss if s["side"] == "push"]
        pops = [s for s in ss if s["side"] == "pop"]
        pop_sleeps = [s for s in pops if s["wait"]]
        push_sleeps = [s for s in pushes if s["wait"]]
        for s in pushes:
            ok = s["wake"] or not pop_sleeps
            ctx.ob(rule + "a", "%s: %s@%s" % (field, short(s["fn"]), s["line"]), ok,
                   "%s:%s" % (s["fn"].file, s["line"]),
                   "push on queue '%s' does not wake (USE_FUTEX_WAKE=false) although a consumer sleeps on the futex "
                   "(%s): the consumer is never woken" % (field, ", ".join("%s:%s" % (short(p["fn"]), p["line"]) for p in pop_sleeps[:2])),
                   site="%s@%s" % (field, s["fn"].name))
        for s in pops:
            ok = s["wake"] or not push_sleeps
            ctx.ob(rule + "b", "%s: %s@%s" % (field, short(s["fn"]), s["line"]), ok,
                   "%s:%s" % (s["fn"].file, s["line"]),
                   "pop on queue '%s' does not wake (USE_FUTEX_WAKE=false) although a producer sleeps on the futex when "
                   "the queue is full (%s)" % (field, ", ".join("%s:%s" % (short(p["fn"]), p["line"]) for p in push_sleeps[:2])),
                   site="%s@%s" % (field, s["fn"].name))
        nc_pop = [s for s in pops if s["concurrent"] is False]
        nc_push = [s for s in pushes if s["concurrent"] is False]
        if nc_pop:
            fns = set(s["fn"].key for s in pops)
            ok = single_consumer_ok(field, pops) if single_consumer_ok is not None else len(fns) == 1
            ctx.ob(rule + "c", "%s: non-concurrent pop" % field, ok, "%s:%s" % (nc_pop[0]["fn"].file, nc_pop[0]["line"]),
                   "queue '%s' is popped with CONCURRENT=false but from more than one function (%s): two consumers may "
                   "take the same ticket" % (field, sorted(short(s["fn"]) for s in pops)[:4]), site="%s@pop" % field)
        if nc_push:
            fns = set(s["fn"].key for s in pushes)
            ok = single_producer_ok(field, pushes) if single_producer_ok is not None else len(fns) == 1
            ctx.ob(rule + "d", "%s: non-concurrent push" % field, ok, "%s:%s" % (nc_push[0]["fn"].file, nc_push[0]["line"]),
                   "queue '%s' is pushed with CONCURRENT=false from more than one function" % field, site="%s@push" % field)
    return by_field


def _null_test(atom, pol, var):
    """does this edge tell whether local `var` is null? returns 'N', 'NN' or None"""
    a = strip_cast(atom)

    def is_var(d):
        d = strip_cast(d)
        return isinstance(d, dict) and d.get("k") == "l" and d.get("id") == var["id"] and d.get("fr", var["fr"]) == var["fr"]
    if is_var(a):
        return "NN" if pol else "N"
    c = cmp_parts(a)
    if c is not None:
        op, l, r = c
        if is_var(r) and const_val(l) == "null":
            l, r = r, l
        if is_var(l) and const_val(r) == "null" and op in ("==", "!="):
            truth = (op == "!=") == pol
            return "NN" if truth else "N"
    return None


def reach_nullaware(ig, starts, var, removed_edges=(), removed=()):
    """forward reachability that tracks whether pointer local `var` is known null / non-null and
    drops edges contradicting that knowledge (same-variable null-test correlation, DESIGN 2.1)"""
    from collections import deque
    removed_edges = set(removed_edges)
    removed = set(n.id for n in removed)
    seen = set()
    dq = deque()
    for s in starts:
        dq.append((s, "U"))
        seen.add((s.id, "U"))
    out = set()
    while dq:
        n, st = dq.popleft()
        out.add(n.id)
        if n.kind == "ev" and defines_var(ig, n, var):
            st = "U"
            ev = n.ev
            rhs = ev.get("init") if ev["e"] == "decl" else ev.get("rhs")
            if const_val(rhs) == "null":
                st = "N"
        for m, lab in n.succ:
            if (n.id, m.id) in removed_edges or m.id in removed:
                continue
            nst = st
            if lab is not None and lab.cond is not None and lab.pol is not None and lab.frame.id == var["fr"]:
                atom, pol = cond_atoms(ig.resolve(lab.cond, lab.frame), lab.pol)
                t = _null_test(atom, pol, var)
                if t is not None:
                    if st != "U" and st != t:
                        continue
                    nst = t
            if (m.id, nst) not in seen:
                seen.add((m.id, nst))
                dq.append((m, nst))
    return out


# ------------------------------------------------------------------ K9c special-member completeness
def _event_descs(ev):
    for key in ("this", "lhs", "rhs", "init", "v", "x", "fn"):
        if key in ev and isinstance(ev[key], dict):
            yield ev[key]
    for a in ev.get("args", []) or []:
        if isinstance(a, dict):
            yield a
    for a in ev.get("placement", []) or []:
        if isinstance(a, dict):
            yield a


def touched_members(fn, rec_name, depth=3, _seen=None):
    """(fields of rec_name referenced, base types referenced) by fn, following calls to the
    record's own member functions (delegation to swap / operator= / delegating constructors)"""
    if _seen is None:
        _seen = set()
    fields, bases = set(), set()
    if fn.key in _seen or depth < 0:
        return fields, bases
    _seen.add(fn.key)
    for _, ev in fn.all_events():
        if ev["e"] == "init":
            if "field" in ev and ev.get("rec") == rec_name and ev.get("written"):
                fields.add(ev["field"])
            if "base" in ev and ev.get("written"):
                bases.add(ev["base"])
        for d in _event_descs(ev):
            for sd in walk(d):
                if sd.get("k") == "f" and sd.get("rec") == rec_name:
                    fields.add(sd.get("n"))
        if ev["e"] in ("call", "ctor") and "cid" in ev:
            callee = fn.tu.fns.get(ev["cid"])
            if callee is not None and callee.record == rec_name and not callee.lambda_:
                f2, b2 = touched_members(callee, rec_name, depth - 1, _seen)
                fields |= f2
                bases |= b2
        if ev["e"] in ("call", "ctor") and ev.get("rec") and ev.get("rec") != rec_name:
            bases.add(ev["rec"])
    return fields, bases


def check_special_members(ctx, rule, fb, rec_re, exceptions=None, files=None, skip=None):
    """every user-provided move-ctor / move-assign / swap of the matching records must reference every
    non-static data member and every base that carries data; `files`: restrict to records defined in these files;
    `skip`: [(record regex, field, reason)] named exceptions"""
    exceptions = exceptions or {}
    rx = re.compile(rec_re)
    recs = fb.records()
    n = 0
    for name, rec in sorted(recs.items()):
        if not rx.search(name):
            continue
        if files is not None and rec.get("file") not in files:
            continue
        if skip:
            exceptions = dict(exceptions)
            for srx, fld, _why in skip:
                if re.search(srx, name):
                    exceptions[(name, fld)] = True
        fields = [f["name"] for f in rec["fields"] if f["name"]]
        data_bases = [b["type"] for b in rec["bases"] if b.get("has_data")]
        for fn in fb.find(pred=lambda f: f.record == name and f.has_cfg() and
                          (f.kind in ("move_ctor", "move_assign") or f.name == "swap")):
            n += 1
            got, gb = touched_members(fn, name)
            missing = [f for f in fields if f not in got and (name, f) not in exceptions]
            missing_b = [b for b in data_bases if b not in gb]
            ctx.ob(rule, "%s" % short(fn), not missing and not missing_b, fn.loc,
                   "user-provided %s does not transfer member(s) %s%s: the moved-to object keeps stale state (and the "
                   "source keeps what it should have given up)" %
                   (fn.kind if fn.kind != "method" else "swap", missing,
                    (" / base(s) %s" % missing_b) if missing_b else ""),
                   site="%s@%s" % (name.replace("babylon::", ""), fn.kind if fn.kind != "method" else "swap"))
    return n


def falls_off_end(fn):
    """K10b: a function with a non-void result whose exit is reachable without passing a return
    statement (undefined behaviour; compiles with a warning at most)"""
    if fn.d.get("rtype", "void") in ("void", "") or fn.kind in ("ctor", "dtor", "move_ctor", "copy_ctor"):
        return False
    if fn.d.get("coroutine") or not fn.has_cfg():
        return False
    ig = IG(fn, inline=lambda a, b, c: False)
    rets = [n for n in ig.ev_nodes() if n.ev["e"] == "ret"]
    return ig.exit.id in ig.reach([ig.entry], removed=rets)


def lambda_of(ig, desc):
    """Fn of a lambda passed as argument (possibly wrapped in a conversion/construct event)"""
    d = strip_cast(desc)
    for _ in range(4):
        if isinstance(d, dict) and d.get("k") == "lam":
            return ig.tu.fns.get(d.get("fid")) if "fid" in d else None
        n = ig.ev_of(d) if isinstance(d, dict) else None
        if n is not None and n.ev.get("args"):
            d = strip_cast(ig.rarg(n, 0))
            continue
        break
    return None


def flag_forwarding(ctx, rule, fb, rec_re, names, flags, why, same_name=True):
    """K23 FLAG-FORWARDING: an overload of a public operation that has no bool template flag of its own is the default entry
    point and forwards `true` for every flag in `flags` of the sibling it calls; an overload that has the flag hands its
    own value down. Returns the number of forwarding calls examined."""
    rx = re.compile(rec_re)
    n = 0
    for fn in fb.find(pred=lambda f: rx.match(f.record or "") and f.name in names and f.has_cfg() and not f.lambda_):
        for _, ev in fn.all_events():
            callee = fn.tu.fns.get(ev.get("cid")) if ev["e"] == "call" else None
            if callee is None or callee.record != fn.record or callee.name not in names or (same_name and callee.name != fn.name):
                continue
            for flag in flags:
                theirs = tparam(callee, flag)
                if theirs is None:
                    continue
                mine = tparam(fn, flag)
                want = mine if mine is not None else "true"
                n += 1
                ctx.ob(rule, "%s@%s:%s" % (short(fn), ev.get("line", fn.line), flag), theirs == want, fn.loc,
                       "%s forwards to %s<%s=%s> %s: %s" % (fn.name, callee.name, flag, theirs,
                                                          "although it is the entry point without flags (the default is the safe, "
                                                          "fully concurrent / sleeping / waking variant)" if mine is None else
                                                          "although its own %s is %s" % (flag, mine), why),
                       site="%s::%s%s@flag-%s" % (re.sub(r"<.*", "", fn.record).replace("babylon::", ""), fn.name,
                                                  "" if mine is None else "<flags>", flag))
    return n
